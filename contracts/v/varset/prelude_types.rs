// ---------------------------------------------------------------------------
// Prelude of unit varset (types): the variable store of yash-env (property C16).
// ---------------------------------------------------------------------------

/// Placeholder for yash_env::source::Location: only stored, moved and compared here.
#[derive(Clone, Copy, Debug, Eq, PartialEq)]
pub struct Location { pub id: u64 }

/// `#[derive(Clone)]` / `#[derive(Default)]` of `Variable` (ASSUMED structural; the derives are dropped from
/// the extracted struct because Verus gives derived `Clone` of a non-`Copy` type no specification).
impl Clone for Variable {
    #[verifier::external_body]
    fn clone(&self) -> (r: Variable)
        ensures r == *self
    { unimplemented!() }
}
pub open spec fn default_variable() -> Variable {
    Variable { value: None, last_assigned_location: None, is_exported: false, read_only_location: None, quirk: None }
}
impl Default for Variable {
    #[verifier::external_body]
    fn default() -> (r: Variable)
        ensures r == default_variable()
    { unimplemented!() }
}
