# Unit varset: the variable store of yash-env (property C16: scoping over all histories).
VAR = 'yash-env/src/variable.rs'
MAIN = 'yash-env/src/variable/main.rs'
GUARD = 'yash-env/src/variable/guard.rs'
MOD_HEAD = '''    use vstd::prelude::*;
    use std::collections::HashMap;
    use std::collections::hash_map::Entry::{Occupied, Vacant};
    use std::borrow::Borrow;
    use std::hash::Hash;
    use std::ffi::CString;
    use vstd::std_specs::iter::IteratorSpec;
    use vstd::std_specs::hash::*;
'''
WF = 'old(self).wf()'
# a Vec never holds more than usize::MAX elements: a type invariant of std that vstd only exposes through len()
FITS = 'self.ctxs().len() <= usize::MAX'
KM = '(vstd::std_specs::hash::obeys_key_model::<String>() && vstd::std_specs::hash::builds_valid_hashers::<std::hash::RandomState>())'
UNIT = {
    'name': 'varset',
    'property': 'C16',
    'rlimit': 100,
    'crate_attrs': ['#![feature(allocator_api)]', '#![feature(sized_hierarchy)]', '#![feature(panic_internals)]', '#![feature(pattern)]'],
    'verus_args': ['--edition=2024'],
    'vacuity_floor': 19,
    # vacuity twin: every contracted fn with a precondition gets an unprovable proposition appended and must fail
    'controls': 'auto',
    'items': [
        ('@raw', 'pub mod stdax {\n' + MOD_HEAD),
        ('@file', 'prelude_std.rs'),
        ('@raw', '}\n'),
        # types, specification functions and lemmas (a module of their own: Verus rejects a module-level
        # `broadcast use` of a lemma that lives beside the types it mentions)
        ('@raw', 'pub mod vt {\n' + MOD_HEAD + '    use super::stdax::*;\n'),
        ('yash-env/src/variable/value.rs', ['enum Value']),
        ('yash-env/src/variable/quirk.rs', ['enum Quirk']),
        (MAIN, ['struct Variable'], {'drop_derives': True}),
        ('@file', 'prelude_types.rs'),
        (MAIN, ['impl Variable', 'fn is_read_only'], {'ret': 'b', 'ensures': ['b == self.read_only_location is Some']}),
        (MAIN, ['struct VariableRefMut'], {'drop_derives': True, 'pub_fields': True}),
        (MAIN, ["impl<'a> From<&'a mut Variable> for VariableRefMut<'a>", 'fn from'], {'ret': 'r', 'ensures': ['*r.0 == *old(variable)', '*final(r.0) == *final(variable)']}),
        (VAR, ['struct VariableInContext'], {'drop_derives': True, 'vis': 'pub', 'pub_fields': True}),
        (VAR, ['struct PositionalParams'], {'drop_derive_names': ['Clone', 'Default']}),
        (VAR, ['enum Context'], {'drop_derive_names': ['Clone']}),
        (VAR, ['struct VariableSet'], {'drop_derives': True, 'pub_fields': True}),
        (VAR, ['enum Scope']),
        (VAR, ['struct UnsetError'], {'drop_derives': True}),
        ('@file', 'prelude.rs'),
        ('@raw', '}\n'),
        ('@raw', 'pub mod vs {\n' + MOD_HEAD + '    use super::stdax::*;\n    use super::vt::*;\n'),
        ('@broadcast', ['super::stdax::axiom_string_obeys_key_model', 'super::stdax::axiom_key_borrows_str', 'super::vt::lemma_top_unique']),
        (VAR, ['impl VariableSet', 'fn index_of_topmost_regular_context'], {'ret': 'r',
            'requires': ['contexts@.len() >= 1', 'contexts@[0] is Regular'],
            'ensures': ['is_top_regular(contexts@, r as int)'],
            'rewrites': ['iter-rposition-to-helper'],
            'closures': {0: {'ret': 'b: bool', 'ensures': ['b == (*context is Regular)']}}}),
        (VAR, ['impl VariableSet', 'fn index_of_context'], {'ret': 'r',
            'requires': ['contexts@.len() >= 1', 'contexts@[0] is Regular', 'contexts@.len() <= usize::MAX'],
            'ensures': ['r as int == scope_index(scope, contexts@)']}),
        (VAR, ['impl VariableSet', 'fn get'], {'ret': 'r', 'ensures': [
            # in vstd's vocabulary for a borrowed key: the visible variable of `name`, if any
            KM + ' ==> (r is Some ==> exists|st: Vec<VariableInContext>| maps_borrowed_key_to_value(self.all_variables@, name, st) && st@.len() > 0 && *r->0 == st@.last().variable)',
            KM + ' ==> (r is None ==> !contains_borrowed_key(self.all_variables@, name) || exists|st: Vec<VariableInContext>| maps_borrowed_key_to_value(self.all_variables@, name, st) && st@.len() == 0)',
        ]}),
        (VAR, ['impl VariableSet', 'fn get_scoped'], {'ret': 'r', 'requires': ['self.wf()', FITS], 'ensures': [
            KM + ' ==> (r is Some ==> exists|st: Vec<VariableInContext>| maps_borrowed_key_to_value(self.all_variables@, name, st) && st@.len() > 0 && *r->0 == st@.last().variable && st@.last().context_index >= scope_index(scope, self.ctxs()))',
            KM + ' ==> (r is None ==> !contains_borrowed_key(self.all_variables@, name) || exists|st: Vec<VariableInContext>| maps_borrowed_key_to_value(self.all_variables@, name, st) && (st@.len() == 0 || st@.last().context_index < scope_index(scope, self.ctxs())))',
            ],
            'closures': {0: {'ret': 'b: bool', 'ensures': ['b == (vic.context_index >= index)']}, 1: {'rewrite': 'option-map-to-match'}}}),
        (VAR, ['impl VariableSet', 'fn get_or_new_impl'], {'ret': 'r',
            'attrs': ['#[verifier::loop_isolation(false)]', '#[verifier::allow_complex_invariants]'],
            'requires': [WF, 'old(self).ctxs().len() <= usize::MAX',
                         # documented: "this method requires the topmost context to be volatile. Otherwise, this method will panic"
                         'scope is Volatile ==> old(self).ctxs().last() is Volatile'],
            'ensures': [
                # representation invariant kept; nothing but the stack of `name` changes
                'final(self).wf()',
                'final(self).same_but(old(self), name)',
                # the returned reference IS the visible variable of `name` from now on
                'final(self).stack(name).len() > 0 && final(self).stack(name).last().variable == *final(r.0)',
                # ... and it lives in the context the scope designates
                'scope is Global ==> final(self).ctxs()[final(self).stack(name).last().context_index as int] is Regular',
                'scope is Local ==> final(self).stack(name).last().context_index == top_regular(old(self).ctxs())',
                'scope is Volatile ==> final(self).stack(name).last().context_index == old(self).ctxs().len() - 1',
                # definitions in lower contexts are untouched (they reappear when the upper contexts are popped)
                'final(self).stack(name).len() - 1 <= old(self).stack(name).len()',
                'final(self).stack(name).drop_last() =~= old(self).stack(name).subrange(0, final(self).stack(name).len() - 1)',
                # only definitions in volatile contexts are ever dropped; a volatile scope drops nothing
                'forall|i: int| final(self).stack(name).len() <= i < old(self).stack(name).len() ==> old(self).ctxs()[(#[trigger] old(self).stack(name)[i]).context_index as int] is Volatile',
                'scope is Volatile ==> final(self).stack(name).len() >= old(self).stack(name).len()',
                # initial content: the variable that was visible within the reach of the scope, else a new default one
                'old(self).stack(name).len() > 0 && (scope is Volatile || old(self).stack(name).last().context_index >= target_index(scope, old(self).ctxs())) ==> *r.0 == old(self).stack(name).last().variable',
                '!(old(self).stack(name).len() > 0 && (scope is Volatile || old(self).stack(name).last().context_index >= target_index(scope, old(self).ctxs()))) ==> *r.0 == default_variable()',
            ],
            'labeled_blocks': {0: {
                'invariant_except_break': ['stack@ == old(self).stack(name)'],
                'ensures': [
                    'stack@.len() > 0',
                    'sorted(stack@, self.contexts@.len() as int)',
                    'stack@.len() - 1 <= old(self).stack(name).len()',
                    'stack@.drop_last() =~= old(self).stack(name).subrange(0, stack@.len() - 1)',
                    'forall|i: int| stack@.len() <= i < old(self).stack(name).len() ==> self.contexts@[(#[trigger] old(self).stack(name)[i]).context_index as int] is Volatile',
                    'stack@.last().context_index >= context_index',
                    'self.contexts@[stack@.last().context_index as int] is Regular',
                    'scope is Local ==> stack@.last().context_index == context_index',
                    'stack@.last().variable == (if old(self).stack(name).len() > 0 && old(self).stack(name).last().context_index >= context_index { old(self).stack(name).last().variable } else { default_variable() })',
                ]}},
            'loops': {0: {
                'invariant': [
                    'stack@.len() <= old(self).stack(name).len()',
                    'stack@ =~= old(self).stack(name).subrange(0, stack@.len() as int)',
                    'forall|i: int| stack@.len() <= i < old(self).stack(name).len() ==> self.contexts@[(#[trigger] old(self).stack(name)[i]).context_index as int] is Volatile && old(self).stack(name)[i].context_index >= context_index',
                    'removed_volatile_variable is Some <==> stack@.len() < old(self).stack(name).len()',
                    'removed_volatile_variable is Some ==> removed_volatile_variable->0 == old(self).stack(name).last().variable',
                ],
                'ensures': ['stack@.len() == 0 || stack@.last().context_index < context_index'],
                'decreases': ['stack@.len()'],
            }},
        }),
        (VAR, ['impl VariableSet', 'fn unset'], {'ret': 'r',
            'requires': [WF, 'old(self).ctxs().len() <= usize::MAX'],
            'ensures': [
                'final(self).wf()',
                'final(self).ctxs() == old(self).ctxs()',
                # over the map of per-name stacks: either the name has no stack and nothing happens, or only its stack
                # changes and the outcome is as specified (prelude: unset_post / unset_outcome / unset_ok)
                'unset_post(old(self).all_variables@, final(self).all_variables@, name, scope_index(scope, old(self).ctxs()), r)',
                'r is Err ==> r->Err_0.name@ == name@',
            ],
            'rewrites': ['iter-rposition-to-helper', 'drain-from-next-back-to-helper'],
            'needs': ['stack . partition_point ('],
            'closures': {0: {'ret': 'b: bool', 'ensures': ['b == (vic.context_index < context_index)']},
                         1: {'ret': 'b: bool', 'ensures': ['b == (vic.variable.read_only_location is Some)']},
                         2: {'rewrite': 'option-map-to-match'}},
            # alternative annotation set for a body that has no `partition_point` step (the code before the fix of
            # finding F4 used the context index itself as the position): same contract, one closure fewer
            'alt': [{
                # applies only to the shape in which the context index itself is used as the position
                'needs': ['let index = Self :: index_of_context ('],
                'closures': {0: {'ret': 'b: bool', 'ensures': ['b == (vic.variable.read_only_location is Some)']},
                             1: {'rewrite': 'option-map-to-match'}},
            }],
        }),
        (VAR, ['impl VariableSet', 'fn pop_context_impl'], {
            'token_rewrites': [('self . all_variables . retain (', 'verif_retain(&mut self.all_variables, ')],
            # documented: "the base context should not be popped" (panics otherwise)
            'requires': [WF, 'old(self).ctxs().len() >= 2'],
            'ensures': [
                'final(self).wf()',
                'final(self).ctxs() == old(self).ctxs().drop_last()',
                # "locals ... vanish at return while globals assigned inside persist": every definition made in the popped
                # context disappears, every definition in a lower context stays
                'forall|n: String| #[trigger] final(self).stack(n) == popped(old(self).stack(n), old(self).ctxs().len() - 1)',
            ],
            'closures': {
                0: {'ret': 'b: bool', 'ensures': ['final(stack)@ =~= popped(old(stack)@, self.contexts@.len() as int)', 'final(stack)@.len() > 0 ==> b']},  # a non-empty stack must be kept; dropping an empty one is only tidiness
                1: {'ret': 'b: bool', 'ensures': ['b == (old(vic).context_index >= self.contexts@.len())', '*final(vic) == *old(vic)']},
            }}),
        (VAR, ['impl VariableSet', 'fn env_c_strings'], {'ret': 'r',
            'token_rewrites': [
                ('self . all_variables . iter ( ) . filter_map (', 'verif_filter_map_collect(&self.all_variables, '),
                (') . collect ( )', ')'),
                ('''let mut result = name.clone();
                result.push('=');
                match value {
                    Scalar(value) => result.push_str(value),
                    Array(values) => write!(result, "{}", values.iter().format(":")).ok()?,
                }
                CString::new(result).ok()''', 'verif_env_entry(name, value)'),
            ],
            'ensures': [
                # "the environment handed to executed programs is exactly the exported variables with their current values"
                # (this direction: nothing else gets in): every entry was built from the name and the current value of a
                # VISIBLE variable that is exported
                'forall|i: int| 0 <= i < r@.len() ==> env_entry_ok(self.all_variables@, #[trigger] r@[i])',
            ],
            'closures': {0: {'ret': 'e: Option<CString>', 'ensures': [
                'e is Some ==> p0_t.1@.len() > 0 && p0_t.1@.last().variable.is_exported && cstr_name(e->0) == p0_t.0@ && p0_t.1@.last().variable.value == Some(cstr_value(e->0))']}},
        }),
        (VAR, ['struct Iter'], {'drop_derives': True, 'pub_fields': True}),
        (VAR, ['impl VariableSet', 'fn iter'], {'ret': 'r', 'requires': ['self.wf()', FITS], 'ensures': [
            'r.min_context_index as int == scope_index(scope, self.ctxs())',
            'r.inner.obeys_prophetic_iter_laws() && r.inner.decrease() is Some',
        ]}),
        (VAR, ["impl<'a> Iterator for Iter<'a>", 'fn next'], {'ret': 'r', 'wrapper': "impl<'a> Iter<'a>",
            'rewrites': ['let-chain-first'],
            'requires': ['old(self).inner.obeys_prophetic_iter_laws()', 'old(self).inner.decrease() is Some'],
            'ensures': [
                # what is yielded is the VISIBLE variable of a name whose visible variable lies within the reach of the scope;
                # every entry passed over is hidden from the scope ("the iterator ignores variables hidden by another")
                'r is Some ==> ({ let k = old(self).inner.remaining().len() - final(self).inner.remaining().len() - 1; '
                '0 <= k < old(self).inner.remaining().len() && r->Some_0.0@ == old(self).inner.remaining()[k].0@ && shown(*old(self).inner.remaining()[k].1, old(self).min_context_index) '
                '&& *r->Some_0.1 == old(self).inner.remaining()[k].1@.last().variable && final(self).inner.remaining() =~= old(self).inner.remaining().skip(k + 1) '
                '&& forall|j: int| 0 <= j < k ==> !shown(*(#[trigger] old(self).inner.remaining()[j]).1, old(self).min_context_index) })',
                'r is None ==> forall|j: int| 0 <= j < old(self).inner.remaining().len() ==> !shown(*(#[trigger] old(self).inner.remaining()[j]).1, old(self).min_context_index)',
                'final(self).min_context_index == old(self).min_context_index',
            ],
            'loops': {0: {
                'invariant': ['self.inner.obeys_prophetic_iter_laws()', 'self.inner.decrease() is Some', 'self.min_context_index == old(self).min_context_index',
                    'self.inner.remaining().len() <= old(self).inner.remaining().len()',
                    'self.inner.remaining() =~= old(self).inner.remaining().skip(old(self).inner.remaining().len() - self.inner.remaining().len())',
                    'forall|j: int| 0 <= j < old(self).inner.remaining().len() - self.inner.remaining().len() ==> !shown(*(#[trigger] old(self).inner.remaining()[j]).1, old(self).min_context_index)',
                ],
                'decreases': ['self.inner.decrease()->0'],
            }},
        }),
        (VAR, ['impl VariableSet', 'fn push_context_impl'], {'requires': [WF], 'ensures': [
            'final(self).wf()',
            'final(self).ctxs() == old(self).ctxs().push(context)',
            'forall|n: String| #[trigger] final(self).stack(n) == old(self).stack(n)',
        ]}),
        # RAII of the context guard (yash-env/src/variable/guard.rs), constructor and destructor bodies: while the guard lives the
        # context is on top of what was there; dropping it pops exactly that context (checked as an inherent method: Verus does
        # not call Drop itself, so that the destructor RUNS when the guard goes away stays an assumption of the callers' units)
        (GUARD, ['struct ContextGuard'], {'pub_fields': True, 'drop_derives': 'all'}),
        (GUARD, ['impl VariableSet', 'fn push_context'], {'ret': 'g', 'requires': [WF],
            'ensures': ['g.stack.wf()', 'g.stack.ctxs() == old(self).ctxs().push(context)', 'forall|n: String| #[trigger] g.stack.stack(n) == old(self).stack(n)', '*final(g.stack) == *final(self)']}),
        (GUARD, ["impl std::ops::Drop for ContextGuard<'_>", 'fn drop'], {'wrapper': "impl<'a> ContextGuard<'a>",
            'requires': ['old(self).stack.wf()', 'old(self).stack.ctxs().len() >= 2'],
            'ensures': ['final(self).stack.wf()', 'final(self).stack.ctxs() == old(self).stack.ctxs().drop_last()']}),
        ('@raw', '}\n'),
    ],
}
