// ---------------------------------------------------------------------------
// Prelude of unit arithglue (property C03, kernel): yash-semantics/src/expansion/initial/arith.rs, the implementation of
// yash_arith::Env for the shell (VarEnv::get_variable, VarEnv::assign_variable) - the two functions unit arith_eval takes as an
// ASSUMED trait contract ("the value of a variable is a function of the state; an assignment stores exactly the value").
// C03 "a variable whose value is an integer constant denotes that constant ... assignment operators updating variables":
// get_variable answers exactly the scalar value the variable has; an unset variable is the value-less answer, or - under nounset -
// the error UnsetVariable naming it; assign_variable asks the environment for the variable of exactly that name in the GLOBAL
// scope, assigns exactly the value it was given, once, and reports a refusal (read-only) as an error carrying the name and
// the value.
//
// Hand-written model text (ASSUMED): VariableSet::get_scalar, OptionSet::get, Env::get_or_create_variable + VariableRefMut::assign
// (units varset / variable), the construction of the source-code record for error locations and Param::variable are opaque;
// `.map(drop).map_err(|e| ..)` on the result of the assignment is one helper with the std meaning.
// ---------------------------------------------------------------------------
pub struct Location { pub verif_opaque: u8 }
pub struct Code { pub verif_opaque: u8 }
pub struct Param { pub verif_name: Seq<char> }
impl Param {
    #[verifier::external_body]
    pub fn variable(name: &str) -> (p: Param) ensures p.verif_name == name@ { unimplemented!() }
}
pub enum ShellOption { Unset, Other(u8) }
pub use ShellOption::Unset;
pub struct OptionSet { pub verif_nounset: bool }
impl OptionSet {
    #[verifier::external_body]
    pub fn get(&self, o: ShellOption) -> (r: State) ensures o is Unset ==> (r == State::Off <==> self.verif_nounset) { unimplemented!() }
}
pub struct VariableSet { pub verif_opaque: u8 }
pub uninterp spec fn scalar_of(vars: VariableSet, name: Seq<char>) -> Option<Seq<char>>;
impl VariableSet {
    /// variable.rs VariableSet::get_scalar (unit varset has `get`): the value of the visible variable if it is a scalar
    #[verifier::external_body]
    pub fn get_scalar(&self, name: &str) -> (r: Option<&str>)
        ensures (match r { Some(v) => Some(v@), None => None }) == scalar_of(*self, name@)
    { unimplemented!() }
}
#[derive(Clone, Copy, PartialEq, Eq)]
pub enum Scope { Global, Local, Volatile }
pub use Scope::{Global, Local, Volatile};
pub enum VEv { Requested { name: Seq<char>, scope: Scope }, Assigned { value: Seq<char>, ok: bool } }
pub mod yash_env { pub struct Env<S> { pub variables: super::VariableSet, pub options: super::OptionSet, pub log: vstd::prelude::Ghost<vstd::prelude::Seq<super::VEv>>, pub system: S } }
pub struct AssignError { pub new_value: Value, pub read_only_location: Location }
pub struct Value { pub verif_v: Seq<char> }
pub struct VariableRefMut<'a, S> { pub env: &'a mut yash_env::Env<S> }
impl<S> yash_env::Env<S> {
    #[verifier::external_body]
    pub fn get_or_create_variable(&mut self, name: &str, scope: Scope) -> (v: VariableRefMut<'_, S>)
        ensures v.env.log@ == old(self).log@.push(VEv::Requested { name: name@, scope }), final(self).log@ == final(v.env).log@
    { unimplemented!() }
}
impl<'a, S> VariableRefMut<'a, S> {
    #[verifier::external_body]
    pub fn assign(&mut self, value: String, location: Location) -> (r: Result<Option<Value>, AssignError>)
        ensures mut_ref_future(final(self).env) == mut_ref_future(old(self).env), final(self).env.log@ == old(self).env.log@.push(VEv::Assigned { value: value@, ok: r is Ok }),
            r matches Err(e) ==> e.new_value.verif_v == value@
    { unimplemented!() }
}
pub struct AssignReadOnlyError { pub name: String, pub new_value: Value, pub read_only_location: Location, pub vacancy: Option<u8> }
/// `.map(drop).map_err(|e| AssignReadOnlyError { name: name.to_owned(), new_value: e.new_value, read_only_location: e.read_only_location, vacancy: None })`
#[verifier::external_body]
pub fn verif_map_assign_error(r: Result<Option<Value>, AssignError>, name: &str) -> (o: Result<(), AssignReadOnlyError>)
    ensures o is Ok <==> r is Ok, (o is Err && r is Err) ==> (o->Err_0).name@ == name@ && (o->Err_0).new_value == (r->Err_0).new_value
{ unimplemented!() }
/// the record of the expression text that error locations point into
#[verifier::external_body]
pub fn verif_code(expression: &str, expansion_location: &Location) -> (r: std::rc::Rc<Code>) { unimplemented!() }
pub struct LocationX { pub code: std::rc::Rc<Code>, pub range: std::ops::Range<usize> }
#[verifier::external_body]
pub fn verif_location(code: std::rc::Rc<Code>, range: std::ops::Range<usize>) -> Location { unimplemented!() }
pub open spec fn ve_vars<S>(v: &VarEnv<'_, S>) -> VariableSet { v.env.variables }
pub open spec fn ve_nounset<S>(v: &VarEnv<'_, S>) -> bool { v.env.options.verif_nounset }
