# Unit cmdsearch: the order in which a command name is resolved (kernel of property C02).
SR = 'yash-env/src/semantics/command/search.rs'
BI = 'yash-env/src/builtin.rs'
MOD_HEAD = '''    use vstd::prelude::*;
    use std::rc::Rc;
'''
KIND = 'posix_kind(has_slash(name), env.builtin_of(name), env.function_of(name) is Some)'
KIND_OLD = 'posix_kind(has_slash(name), old(env).builtin_of(name), old(env).function_of(name) is Some)'
UNIT = {
    'name': 'cmdsearch',
    'property': 'C02',
    'rlimit': 60,
    'verus_args': ['--edition=2024'],
    'vacuity_floor': 3,
    'rename_idents': {'r#type': 'verif_type'},
    'items': [
        ('@raw', 'pub mod cs {\n' + MOD_HEAD + "    pub struct Expansion<'a> { pub verif_opaque: &'a u8 }\n    pub struct CStr { pub verif_opaque: u8 }\n"),
        (BI, ['enum Type'], {}),
        ('@raw', 'pub use Type::*;\n'),
        (SR, ['enum Availability'], {}),
        (SR, ['enum Target'], {}),
        (SR, ['enum Unusable'], {}),
        (SR, ['enum Error'], {}),
        (SR, ['trait ClassifyEnv'], {'trait_extra': '    spec fn builtin_of(&self, name: &str) -> Option<(Builtin<S>, Availability)>;\n    spec fn function_of(&self, name: &str) -> Option<Rc<Function<S>>>;',
            'methods': {
                'builtin': {'ret': 'r', 'ensures': ['r == self.builtin_of(name)']},
                'function': {'ret': 'r', 'ensures': ['r is Some == self.function_of(name) is Some', 'r matches Some(f) ==> *f == self.function_of(name)->0']},
            }}),
        (SR, ['trait PathEnv'], {'trait_extra': '    spec fn path_hit(&self, name: &str) -> Option<CString>;',
            'methods': {'is_executable_file': {}}}),
        ('@file', 'prelude.rs'),
        (SR, ['impl<S> From<Rc<Function<S>>> for Target<S>'], {'methods': {'from': {'ret': 'r', 'ensures': ['r == Target::Function(function)']}}}),
        (SR, ['impl From<Unusable> for Error'], {'methods': {'from': {'ret': 'r', 'ensures': ['r == Error::Unusable(unusable)']}}}),
        (SR, ['fn classify'], {'ret': 'r', 'rewrites': ['let-chain-nest?'],
            'token_rewrites': [("name . contains ( '/' )", 'verif_contains_slash(name)', '*')],
            'ensures': [
                # the POSIX search order: special built-in, function, other built-in, external utility; a name with a slash is a path
                'match ' + KIND + ' { Kind::Special => r is Builtin && r->builtin.verif_type == Type::Special, Kind::Function => r is Function, Kind::OtherBuiltin => r is Builtin && r->builtin.verif_type != Type::Special, Kind::External => r is External }',
                # and it is the very built-in / function the environment has under that name
                'r matches Target::Builtin { builtin, availability, path } ==> env.builtin_of(name) == Some((builtin, availability)) && path == CString::empty()',
                'r matches Target::Function(f) ==> env.function_of(name) == Some(f)',
                'r matches Target::External { path } ==> path == CString::empty()',
            ]}),
        (SR, ['fn resolve_builtin'], {'ret': 'r',
            'ensures': [
                '*final(env) == *old(env)',
                # a built-in POSIX does not define is rejected in portable mode; a substitutive built-in counts only if
                # $PATH has a utility of that name; every other built-in is used as it is
                'availability is NotPortable ==> r == Err::<CString, Unusable>(Unusable::NotPortable)',
                'availability is Available && verif_type == Type::Substitutive ==> (match old(env).path_hit(name) { Some(p) => r == Ok::<CString, Unusable>(p), None => r == Err::<CString, Unusable>(Unusable::NotInPath) })',
                'availability is Available && verif_type != Type::Substitutive ==> r == Ok::<CString, Unusable>(CString::empty())',
            ]}),
        (SR, ['fn search'], {'ret': 'r',
            'token_rewrites': [("name . contains ( '/' )", 'verif_contains_slash(name)')],
            'closures': {0: {'ret': 'e: Error', 'param_types': ['NulError'], 'ensures': ['e == Error::NotFound']}},
            'ensures': [
                '*final(env) == *old(env)',
                # same order as classify, then the path: found, or "not found" (127) / unusable
                'r matches Ok(t) ==> (match ' + KIND_OLD + ' { Kind::Special => t is Builtin && t->builtin.verif_type == Type::Special, Kind::Function => t is Function, Kind::OtherBuiltin => t is Builtin && t->builtin.verif_type != Type::Special, Kind::External => t is External })',
                'r matches Ok(t) ==> (t matches Target::Function(f) ==> old(env).function_of(name) == Some(f))',
                'r matches Ok(t) ==> (t matches Target::Builtin { builtin, availability, path } ==> old(env).builtin_of(name) == Some((builtin, availability)) && availability is Available && (builtin.verif_type == Type::Substitutive ==> old(env).path_hit(name) == Some(path)))',
                'r matches Ok(t) ==> (t matches Target::External { path } ==> (if has_slash(name) { path == cstring_of(name) } else { old(env).path_hit(name) == Some(path) }))',
                # a function or a usable built-in is never "not found"; an external name is found exactly when $PATH has it
                '(' + KIND_OLD + ' is Function) ==> r is Ok',
                '(' + KIND_OLD + ' is External) && !has_slash(name) && old(env).path_hit(name) is None ==> r == Err::<Target<S>, Error>(Error::NotFound)',
                '(' + KIND_OLD + ' is External) && !has_slash(name) && old(env).path_hit(name) is Some ==> r is Ok',
            ]}),
        ('@raw', '}\n'),
    ],
}
