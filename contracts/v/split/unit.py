# Unit split: IFS field splitting state machine of yash-env (kernel of property C01).
RANGES = 'yash-env/src/semantics/expansion/split/ranges.rs'
IFS = 'yash-env/src/semantics/expansion/split/ifs.rs'
ATTR = 'yash-env/src/semantics/expansion/attr.rs'

MOD_HEAD = '''    use vstd::prelude::*;
    use std::ops::Range;
    use std::borrow::Cow;
    use vstd::std_specs::iter::IteratorSpec;
'''

UNIT = {
    'name': 'split',
    'property': 'C01',
    'rlimit': 60,
    'verus_args': ['--edition=2024'],
    # vacuity twin: every contracted fn with a precondition gets `ensures false` appended and must fail
    'controls': 'auto',
    'items': [
        ('@raw', 'pub mod sp {\n' + MOD_HEAD),
        (ATTR, ['enum Origin']),
        (ATTR, ['struct AttrChar']),
        (IFS, ['enum Class']),
        (IFS, ['struct Ifs'], {'attrs': ['#[verifier::external_body]'], 'drop_derives': True}),
        ('@raw', 'use Class::*;\n'),
        ('@file', 'prelude.rs'),
        # accessors of the opaque separator set: present so that code using them still compiles and is judged
        (IFS, ["impl Ifs<'_>#0", 'fn chars'], {'attrs': ['#[verifier::external_body]']}),
        (IFS, ["impl Ifs<'_>#0", 'fn non_whitespaces'], {'attrs': ['#[verifier::external_body]']}),
        (IFS, ["impl Ifs<'_>#0", 'fn is_ifs'], {'attrs': ['#[verifier::external_body]'], 'ret': 'r', 'ensures': ['r == in_ifs(self, c)']}),
        (IFS, ["impl Ifs<'_>#0", 'fn is_ifs_non_whitespace'], {'attrs': ['#[verifier::external_body]'], 'ret': 'r', 'ensures': ['r == in_ifs_non_whitespace(self, c)']}),
        (IFS, ["impl Ifs<'_>#0", 'fn classify'], {'ret': 'r', 'ensures': ['r == ifs_class(self, c)']}),
        (IFS, ["impl Ifs<'_>#0", 'fn classify_attr'], {'ret': 'r', 'ensures': ['r == class_of(self, c)']}),
        (RANGES, ['enum State'], {'vis': 'pub'}),
        ('@raw', 'use State::*;\n'),
        (RANGES, ['struct Ranges'], {'drop_derives': True}),
        (RANGES, ["impl<I> Iterator for Ranges<'_, I>", 'fn next'], {
            'wrapper': "impl<'a, I: Iterator<Item = AttrChar>> Ranges<'a, I>",
            'ret': 'r',
            'requires': [
                'old(self).inner.obeys_prophetic_iter_laws()',
                'old(self).inner.decrease() is Some',
                'old(self).state is Some ==> old(self).next_index + old(self).inner.remaining().len() + 1 < usize::MAX',
            ],
            'loops': {0: {
                'invariant': [
                    'self.inner.obeys_prophetic_iter_laws()',
                    'self.inner.decrease() is Some',
                    'self.ifs == old(self).ifs',
                    'self.state is Some ==> self.next_index + self.inner.remaining().len() + 1 < usize::MAX',
                    # nothing has been yielded so far: the reference splitter started from the entry state
                    # yields what it yields from the current state
                    '({ let (f0, s0, n0) = ref_next(old(self).ifs, abs_state(old(self).state), old(self).next_index as int, old(self).inner.remaining()); '
                    'let (f1, s1, n1) = ref_next(self.ifs, abs_state(self.state), self.next_index as int, self.inner.remaining()); f0 == f1 && s0 == s1 })',
                ],
                # `while let` leaves through an implicit break: what holds then is stated as the loop's `ensures`
                'ensures': [
                    'self.state is None',
                    'self.ifs == old(self).ifs',
                    '({ let (f0, s0, n0) = ref_next(old(self).ifs, abs_state(old(self).state), old(self).next_index as int, old(self).inner.remaining()); '
                    'let (f1, s1, n1) = ref_next(self.ifs, abs_state(self.state), self.next_index as int, self.inner.remaining()); f0 == f1 && s0 == s1 })',
                ],
                'decreases': ['(if self.state is Some { 1int } else { 0int })', 'self.inner.decrease()->0'],
            }},
            'closures': {0: {'ret': 'k: Class', 'ensures': ['k == class_of(self.ifs, c)']}},
            'ensures': [
                '({ let (f, st, n) = ref_next(old(self).ifs, abs_state(old(self).state), old(self).next_index as int, old(self).inner.remaining()); '
                '(match f { Some((a, b)) => r == Some(Range::<usize> { start: a as usize, end: b as usize }), None => r is None }) '
                '&& abs_state(final(self).state) == st })',
            ],
        }),
        ('@raw', '}\n'),
    ],
}
