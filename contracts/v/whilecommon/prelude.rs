// ---------------------------------------------------------------------------
// Prelude of unit whilecommon (property C02, kernel): while_loop.rs execute_common - the frame around a while / until loop and
// what becomes of the loop's status.
// C02 "break/continue ... the exit status left in `$?`": the loop runs exactly once, with exactly the condition, the expected
// outcome and the body it was given, INSIDE a Loop frame pushed on the caller's stack (so that `break` / `continue` in its body
// count this loop); when the loop ends normally `$?` becomes the status the loop recorded (unit whileloop: that of the last
// execution of its body, 0 if none); when it ends with a divert, the divert is handed on and `$?` is left as the loop left it.
//
// Hand-written model text (ASSUMED): Loop::execute (unit whileloop has the real one) is an opaque call recorded in a ghost log
// together with the stack it ran under; Env::push_frame with its guard's destructor is ASSUMED as a whole (as in unit forloop);
// `let env = &mut <temporary guard>` is an owning binding and the struct literal reborrows it (what deref coercion does).
// ---------------------------------------------------------------------------
use std::ops::ControlFlow;
pub assume_specification<B, C>[ <ControlFlow<B, C> as core::ops::Try>::branch ](cf: ControlFlow<B, C>) -> (r: ControlFlow<<ControlFlow<B, C> as core::ops::Try>::Residual, <ControlFlow<B, C> as core::ops::Try>::Output>)
    ensures match cf { ControlFlow::Continue(c) => r == ControlFlow::<ControlFlow<B, core::convert::Infallible>, C>::Continue(c), ControlFlow::Break(b) => r == ControlFlow::<ControlFlow<B, core::convert::Infallible>, C>::Break(ControlFlow::Break(b)) };
pub assume_specification<B, C>[ <ControlFlow<B, C> as core::ops::FromResidual<ControlFlow<B, core::convert::Infallible>>>::from_residual ](res: ControlFlow<B, core::convert::Infallible>) -> (r: ControlFlow<B, C>)
    ensures res matches ControlFlow::Break(b) ==> r == ControlFlow::<B, C>::Break(b);
pub trait Runtime {}
pub struct List { pub verif_id: int }
pub struct Divert { pub verif_opaque: u8 }
pub type Result = ControlFlow<Divert, ()>;
#[derive(Clone, Copy)] pub struct ExitStatus(pub i32);
impl Default for ExitStatus { fn default() -> (r: ExitStatus) ensures r == ExitStatus(0) { ExitStatus(0) } }
pub enum Frame { Loop, Condition, Subshell, Other }
pub struct LoopRun { pub condition: int, pub expected: bool, pub body: int, pub stack: Seq<Frame>, pub result: Result, pub status: ExitStatus }
pub struct Env<S> { pub exit_status: ExitStatus, pub verif_stack: Ghost<Seq<Frame>>, pub log: Ghost<Seq<LoopRun>>, pub system: S }
pub struct EnvFrameGuard<'a, S> { pub env: &'a mut Env<S> }
impl<S> Env<S> {
    /// yash-env/src/stack.rs Env::push_frame + the Drop impl of the guard (ASSUMED as a whole)
    #[verifier::external_body]
    pub fn push_frame(&mut self, frame: Frame) -> (g: EnvFrameGuard<'_, S>)
        ensures
            g.env.verif_stack@ == old(self).verif_stack@.push(frame), g.env.exit_status == old(self).exit_status, g.env.log@ == old(self).log@,
            final(self).verif_stack@ == old(self).verif_stack@,
            final(self).exit_status == final(g.env).exit_status, final(self).log@ == final(g.env).log@
    { unimplemented!() }
}
pub struct Loop<'a, S> { pub env: &'a mut Env<S>, pub condition_command: &'a List, pub expected_condition: bool, pub body: &'a List, pub exit_status: ExitStatus }
impl<'a, S> Loop<'a, S> {
    /// while_loop.rs Loop::execute (unit whileloop)
    #[verifier::external_body]
    pub fn execute(&mut self) -> (r: Result)
        ensures mut_ref_future(final(self).env) == mut_ref_future(old(self).env), final(self).env.verif_stack@ == old(self).env.verif_stack@,
            final(self).env.log@ == old(self).env.log@.push(LoopRun { condition: old(self).condition_command.verif_id, expected: old(self).expected_condition, body: old(self).body.verif_id, stack: old(self).env.verif_stack@, result: r, status: final(self).exit_status })
    { unimplemented!() }
}
