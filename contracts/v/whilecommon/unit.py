# Unit whilecommon: the frame around a while / until loop and the loop's status (kernel of C02).
WL = 'yash-semantics/src/command/compound_command/while_loop.rs'
MOD_HEAD = '''    use vstd::prelude::*;
    use std::ops::ControlFlow::{Break, Continue};
'''
L0 = 'old(env).log@'
L1 = 'final(env).log@'
UNIT = {
    'name': 'whilecommon',
    'property': 'C02',
    'rlimit': 40,
    'verus_args': ['--edition=2024'],
    'vacuity_floor': 1,
    'controls': {WL + '::execute_common': {'ensures': {'append': 'false'}}},
    'control_expect': ['execute_common'],
    'items': [
        ('@raw', 'pub mod wc {\n' + MOD_HEAD),
        ('@file', 'prelude.rs'),
        (WL, ['fn execute_common'], {'ret': 'r', 'rewrites': ['strip-async'],
            'token_rewrites': [
                ('let env = & mut env . push_frame ( Frame :: $f ) ;', 'let mut verif_guard = env.push_frame(Frame::$f); let env = &mut *verif_guard.env;'),
                ('let mut l = Loop { env ,', 'let mut l = Loop { env: &mut *env,'),
            ],
            'ensures': [
                # the loop runs once, with exactly what was given, inside a Loop frame on top of the caller's stack
                L1 + ' == ' + L0 + '.push(' + L1 + '.last()) && ' + L1 + '.len() == ' + L0 + '.len() + 1',
                L1 + '.last().condition == condition_command.verif_id && ' + L1 + '.last().expected == expected_condition && ' + L1 + '.last().body == body.verif_id && ' + L1 + '.last().stack == old(env).verif_stack@.push(Frame::Loop)',
                # its result decides: a normal end makes the loop's status `$?`; a divert is handed on
                L1 + '.last().result is Continue ==> r is Continue && final(env).exit_status == ' + L1 + '.last().status',
                L1 + '.last().result matches Break(d) ==> r == Break::<Divert, ()>(d)',
                # the frame is gone afterwards
                'final(env).verif_stack@ == old(env).verif_stack@',
            ]}),
        ('@raw', '}\n'),
    ],
}
