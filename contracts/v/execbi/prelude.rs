// ---------------------------------------------------------------------------
// Prelude of unit execbi (properties C09 / C10, kernel): the `exec` built-in (yash-builtin/src/exec.rs main).
// C09 "... except for redirections on `exec`, which persist": every well-formed `exec` - with or without a command name,
// whether or not the utility could be executed - answers a result that asks to RETAIN the redirections (unit builtincall:
// execute_builtin then tells the redirection guard to keep them).  C10 "errors of special built-ins": with a command name, a
// non-interactive shell is aborted when the utility cannot be executed (an interactive one goes on); the status is 127
// when the utility is not found and otherwise what replace_current_process left (unit execglue: 126 / 127).
//
// Hand-written model text (ASSUMED): parse_arguments, search_path, CString::new, report_error / report_failure and
// replace_current_process (unit execglue; it only returns when it failed) are opaque calls appending to an event log.
// Await points dropped.
// ---------------------------------------------------------------------------
pub trait Exec {} pub trait IsExecutableFile {} pub trait Isatty {} pub trait ShellPath {} pub trait SignalSystem {} pub trait WriteAll {}
#[derive(Clone)]
pub struct Location { pub verif_opaque: u8 }
pub struct Field { pub value: String, pub origin: Location, pub verif_id: int }
pub struct CString { pub verif_id: int }
pub struct ParseError { pub verif_opaque: u8 }
pub struct Mode { pub verif_opaque: u8 }
impl Mode { #[verifier::external_body] pub fn with_env<S>(env: &Env<S>) -> Mode { unimplemented!() } }
pub struct ReplaceCurrentProcessError { pub verif_opaque: u8 }
pub struct ExecFailure { pub inner: ReplaceCurrentProcessError, pub location: Location }
pub struct NotFound<'a>(pub &'a Field);
pub enum Ev { Replaced { path: int, args: Seq<int> }, FailureReported }
pub struct Env<S> { pub exit_status: ExitStatus, pub verif_interactive: bool, pub log: Ghost<Seq<Ev>>, pub verif_errors: Ghost<nat>, pub system: S }
pub uninterp spec fn args_parse_ok(args: Seq<Field>) -> bool;
pub uninterp spec fn args_operands(args: Seq<Field>) -> Seq<Field>;
pub open spec fn field_ids(s: Seq<Field>) -> Seq<int> { Seq::new(s.len(), |i: int| s[i].verif_id) }
#[verifier::external_body]
pub fn verif_parse_arguments(mode: Mode, args: Vec<Field>) -> (r: std::result::Result<((), Vec<Field>), ParseError>)
    ensures r is Ok <==> args_parse_ok(args@), r matches Ok(p) ==> p.1@ == args_operands(args@)
{ unimplemented!() }
#[verifier::external_body]
pub fn report_error<S>(env: &mut Env<S>, error: &ParseError) -> (r: Result)
    ensures final(env).verif_errors@ == old(env).verif_errors@ + 1, final(env).log@ == old(env).log@, r.exit_status.0 != 0
{ unimplemented!() }
impl<S> Env<S> {
    #[verifier::external_body]
    pub fn is_interactive(&self) -> (r: bool) ensures r == self.verif_interactive { unimplemented!() }
}
/// the path of the utility: the name itself when it has a slash, else the $PATH walk (search_path); None: not found
pub uninterp spec fn path_of<S>(env: Env<S>, name: int) -> Option<int>;
#[verifier::external_body]
pub fn verif_find_path<S>(env: &mut Env<S>, name: &Field) -> (r: Option<CString>)
    ensures *final(env) == *old(env), (match r { Some(p) => Some(p.verif_id), None => None }) == path_of(*old(env), name.verif_id)
{ unimplemented!() }
/// `let Err(e) = replace_current_process(env, path, args).await;` (unit execglue): only returns when it failed; leaves 126 / 127 in `$?`
#[verifier::external_body]
pub fn verif_replace<S>(env: &mut Env<S>, path: CString, args: Vec<Field>) -> (e: ReplaceCurrentProcessError)
    ensures final(env).log@ == old(env).log@.push(Ev::Replaced { path: path.verif_id, args: field_ids(args@) }), final(env).verif_interactive == old(env).verif_interactive, final(env).verif_errors@ == old(env).verif_errors@
{ unimplemented!() }
#[verifier::external_body]
pub fn verif_report_exec_failure<S>(env: &mut Env<S>, report: &ExecFailure)
    ensures final(env).log@ == old(env).log@.push(Ev::FailureReported), final(env).exit_status == old(env).exit_status, final(env).verif_interactive == old(env).verif_interactive, final(env).verif_errors@ == old(env).verif_errors@
{ unimplemented!() }
#[verifier::external_body]
pub fn verif_report_not_found<S>(env: &mut Env<S>, what: NotFound<'_>)
    ensures final(env).log@ == old(env).log@.push(Ev::FailureReported), final(env).exit_status == old(env).exit_status, final(env).verif_interactive == old(env).verif_interactive, final(env).verif_errors@ == old(env).verif_errors@
{ unimplemented!() }
#[verifier::external_body]
pub fn verif_first(v: &Vec<Field>) -> (r: Option<&Field>) ensures r == (if v@.len() > 0 { Some(&v@[0]) } else { None }) { v.first() }
