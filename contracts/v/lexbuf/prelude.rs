// ---------------------------------------------------------------------------
// Prelude of unit lexbuf (property C18, kernel): yash-syntax/src/parser/lex/core.rs, the line buffer of the lexer
// (LexerCore::peek_char, consume_char, peek_char_at, index, rewind, pending, flush, reset).
// C18 "the shell reads its input one line at a time and only as far as the command being executed requires ... never ...
// unbounded read-ahead": the lexer asks its input for a line ONLY when every character it has was consumed and the input
// is still alive, it asks for exactly ONE line then, and that line becomes the unconsumed rest of the buffer, complete and in
// order; after the end of input or an input error it never asks again; consuming, rewinding, looking back and flushing the
// buffer never read anything; a flush throws the buffer away (the next peek starts with a fresh line) and keeps the input state,
// a reset also makes the input alive again.
//
// Hand-written model text (ASSUMED): the struct LexerCore itself (its `input` is a `Box<dyn InputObject>`: here an opaque
// object with a ghost log of the lines it handed out), InputObject::next_line (async in the code), the construction of source
// characters from a line (source_chars + ex: one per character of the line, in order, none a line continuation), the
// RefCell-held raw text of the code record (append / new record: opaque), next_index, input_context, Code::line_number.
// ---------------------------------------------------------------------------
use std::rc::Rc;
use std::ops::Range;
pub struct Code { pub verif_opaque: u8 }
pub struct Location { pub code: Rc<Code>, pub range: Range<usize> }
pub struct SourceChar { pub value: char, pub location: Location }
pub struct SourceCharEx { pub value: SourceChar, pub is_line_continuation: bool }
pub struct IoError { pub verif_opaque: u8 }
pub enum ErrorCause { Io(IoError), Other(u8) }
impl From<IoError> for ErrorCause {
    #[verifier::external_body]
    fn from(e: IoError) -> (r: ErrorCause) ensures r == ErrorCause::Io(e) { unimplemented!() }
}
pub struct Error { pub cause: ErrorCause, pub location: Location }
impl Clone for Error {
    #[verifier::external_body]
    fn clone(&self) -> (r: Error) ensures r == *self { unimplemented!() }
}
pub type Result<T> = std::result::Result<T, Error>;
pub struct Context { pub verif_opaque: u8 }
pub struct Mode { pub verif_opaque: u8 }
/// what the input object was asked for so far: each entry is the line it answered (None: an error)
pub struct InputBox { pub lines: Ghost<Seq<Option<Seq<char>>>>, pub verif_opaque: u8 }
impl InputBox {
    /// InputObject::next_line (yash-env/src/input.rs; unit lineread has FdReader2::next_line)
    #[verifier::external_body]
    pub fn next_line(&mut self, context: &Context) -> (r: std::result::Result<String, IoError>)
        ensures final(self).lines@ == old(self).lines@.push(match r { Ok(l) => Some(l@), Err(_) => None })
    { unimplemented!() }
}
pub struct LexerCore<'a> {
    pub input: InputBox,
    pub state: InputState,
    pub raw_code: Rc<Code>,
    pub source: Vec<SourceCharEx>,
    pub index: usize,
    pub mode: Mode,
    pub verif_pd: core::marker::PhantomData<&'a u8>,
}
pub open spec fn values(s: Seq<SourceCharEx>) -> Seq<char> { Seq::new(s.len(), |i: int| s[i].value.value) }
impl<'a> LexerCore<'a> {
    /// next_index (the position a new line starts at in the raw text): opaque
    #[verifier::external_body]
    pub fn next_index(&self) -> usize { unimplemented!() }
    /// input_context (is this the first line): opaque
    #[verifier::external_body]
    pub fn input_context(&self) -> Context { unimplemented!() }
}
/// `self.raw_code.value.borrow_mut().push_str(&line)`: the raw text of the code record grows by the line
#[verifier::external_body]
pub fn verif_append_raw(code: &Rc<Code>, line: &String) { unimplemented!() }
/// `self.source.extend(ex(source_chars(&line, &self.raw_code, index)))`: one source character per character of the line, in
/// order, none of them marked as a line continuation
#[verifier::external_body]
pub fn verif_extend_source(source: &mut Vec<SourceCharEx>, line: &String, code: &Rc<Code>, index: usize)
    ensures final(source)@.len() == old(source)@.len() + line@.len(),
        forall|i: int| 0 <= i < old(source)@.len() ==> #[trigger] final(source)@[i] == old(source)@[i],
        values(final(source)@) =~= values(old(source)@) + line@,
        forall|i: int| old(source)@.len() <= i < final(source)@.len() ==> !(#[trigger] final(source)@[i]).is_line_continuation
{ unimplemented!() }
#[verifier::external_body]
pub fn verif_line_is_empty(line: &String) -> (r: bool) ensures r == (line@.len() == 0) { line.is_empty() }
/// the code record a flush starts: empty raw text, the line numbering goes on (Code::line_number(usize::MAX)), same source
#[verifier::external_body]
pub fn verif_fresh_code(code: &Rc<Code>) -> Rc<Code> { unimplemented!() }
#[verifier::external_body]
pub fn verif_ends_with_newline(line: &String) -> (r: bool) ensures r == (line@.len() > 0 && line@.last() == '\n') { line.ends_with('\n') }
