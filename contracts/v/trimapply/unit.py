# Unit trimapply: the trim modifiers of parameter expansion (kernel shared by C04 and C01).
TR = 'yash-semantics/src/expansion/initial/param/trim.rs'
MOD_HEAD = '''    use vstd::prelude::*;
'''
CFG = '(Config { anchor_begin: trim.side is Prefix, anchor_end: trim.side is Suffix, literal_period: false, shortest_match: trim.length is Shortest, case_insensitive: false })'
UNIT = {
    'name': 'trimapply',
    'property': 'C04',
    'rlimit': 80,
    'verus_args': ['--edition=2024'],
    'vacuity_floor': 2,
    'items': [
        ('@raw', 'pub mod ta {\n' + MOD_HEAD),
        ('yash-fnmatch/src/lib.rs', ['struct Config'], {'drop_derives': 'all'}),
        ('yash-syntax/src/syntax.rs', ['enum TrimSide']),
        ('yash-syntax/src/syntax.rs', ['enum TrimLength']),
        ('@file', 'prelude.rs'),
        (TR, ['fn trim_value'], {
            'token_rewrites': [('Pattern :: rfind', 'FindFn::Rfind'), ('Pattern :: find', 'FindFn::Find'), ('find ( pattern , value )', 'find.call(pattern, value)'), ('value . drain ( range ) ;', 'verif_drain(value, range);')],
            'ensures': ['final(value)@ == trimmed(*pattern, old(value)@)']}),
        (TR, ['fn apply'], {'ret': 'r', 'rewrites': ['strip-async'],
            'attrs': ['#[verifier::loop_isolation(false)]'],
            'token_rewrites': [
                ('for value in array {', 'let ghost verif_a0 = array@; let mut verif_i: usize = 0; while verif_i < array.len() invariant verif_i <= array@.len(), array@.len() == verif_a0.len(), forall|k: int| 0 <= k < verif_i ==> (#[trigger] array@[k])@ == trimmed(pattern, verif_a0[k]@), forall|k: int| verif_i <= k < array@.len() ==> #[trigger] array@[k] == verif_a0[k] decreases array@.len() - verif_i { let value = &mut array[verif_i]; verif_i += 1;'),
            ],
            'ensures': [
                # the pattern word is expanded exactly once
                'final(env).expanded@ == old(env).expanded@.push(trim.pattern.verif_id)',
                # when the value changes it is by a pattern made of exactly that word, with its backslashes turned into quoting, under
                # exactly the configuration of the modifier: `#` / `##` anchored at the beginning, `%` / `%%` at the end, the one-character
                # forms shortest-match; every string of the value is trimmed by it, once
                'r is Ok ==> (*final(value) == *old(value)) || (exists|p: Pattern| p.verif_text == trim.pattern.verif_id && p.verif_escaped && p.verif_config == ' + CFG + ' && '
                '(match (*old(value), *final(value)) { (Value::Scalar(a), Value::Scalar(b)) => b@ == trimmed(p, a@), (Value::Array(a), Value::Array(b)) => b@.len() == a@.len() && (forall|k: int| 0 <= k < a@.len() ==> (#[trigger] b@[k])@ == trimmed(p, a@[k]@)), _ => false }))',
                'r is Err ==> *final(value) == *old(value)',
            ]}),
        ('@raw', '}\n'),
    ],
}
