UNIT = {
    'name': 'errexit',
    'property': 'C10',
    'crate': 'yash-env',
    'cfg': [],
    'inject': [('yash-env/src/lib.rs', 'harness.rs')],
    'anchors': [
        ('yash-env/src/lib.rs', r'pub fn errexit_is_applicable\(&self\) -> bool'),
        ('yash-env/src/lib.rs', r'pub fn apply_errexit\(&self\) -> ControlFlow<Divert>'),
    ],
    'functions': [
        {'file': 'yash-env/src/lib.rs', 'item': 'Env::errexit_is_applicable, Env::apply_errexit (stacks of <= 3 frames)'},
    ],
    'harnesses': {'quick': ['c10q_', 'c10x_'], 'thorough': ['c10t_']},
    'min_harnesses': {'quick': 3, 'thorough': 3},
    'control_re': r'^c10x_',
    'complete_re': r'$^',
    'bound': 'runtime stacks of at most 3 frames drawn from {Loop, Subshell, Condition, DotScript, InitFile}; option and exit status symbolic',
    'jobs': {'quick': 6, 'thorough': 6},
    'harness_timeout': '600s',
    'timeout_s': {'quick': 1200, 'thorough': 1200},
    'assumptions': ['Env is built field by field with default tables (no system calls are involved in the functions under contract)'],
}
