// ---------------------------------------------------------------------------
// Prelude of unit heredoc (property C14, kernel): yash-semantics/src/redir/here_doc.rs open_fd and fill_content.
// C14 "here-document bodies reach the command's standard input byte for byte": the descriptor a here-document is read from is
// a fresh temporary file that holds exactly the bytes of the (expanded) body, once, in order, with the read position back at
// the beginning; when the file cannot be filled the descriptor is closed again and an error comes back - never a descriptor
// with part of the body.
//
// Hand-written model text (ASSUMED): the system side - open_tmpfile gives a fresh empty file at position 0, write_all appends
// all the bytes at the position and advances it or fails (unit rwall has the real loop), lseek(Start(n)) sets the position,
// close closes - as a ghost map from descriptors to (content, position); `content.as_bytes()` is the UTF-8 encoding.
// ---------------------------------------------------------------------------
#[derive(Clone, Copy)] pub struct Fd(pub i32);
#[derive(Clone, Copy)] pub struct Errno(pub i32);
pub enum ErrorCause { TemporaryFileUnavailable(Errno), Other(u8) }
pub struct Path { pub verif_opaque: u8 }
#[verifier::external_body]
pub fn verif_tmp_dir() -> &'static Path { unimplemented!() }
pub struct File { pub content: Seq<u8>, pub pos: int }
pub struct System { pub files: Ghost<Map<Fd, File>> }
pub enum SeekFrom { Start(u64), End(i64), Current(i64) }
pub uninterp spec fn utf8(s: Seq<char>) -> Seq<u8>;
#[verifier::external_body]
pub fn verif_as_bytes(s: &str) -> (r: &[u8]) ensures r@ == utf8(s@) { s.as_bytes() }
impl System {
    #[verifier::external_body]
    pub fn open_tmpfile(&mut self, parent_dir: &Path) -> (r: Result<Fd, Errno>)
        ensures match r { Ok(fd) => !old(self).files@.contains_key(fd) && final(self).files@ == old(self).files@.insert(fd, File { content: Seq::empty(), pos: 0 }), Err(_) => final(self).files@ == old(self).files@ }
    { unimplemented!() }
    /// concurrency.rs WriteAll::write_all (unit rwall): all the bytes at the position, or an error (then anything may have been written)
    #[verifier::external_body]
    pub fn write_all(&mut self, fd: Fd, data: &[u8]) -> (r: Result<(), Errno>)
        requires old(self).files@.contains_key(fd)
        ensures final(self).files@.dom() == old(self).files@.dom(), forall|o: Fd| o != fd && old(self).files@.contains_key(o) ==> #[trigger] final(self).files@[o] == old(self).files@[o],
            r is Ok ==> ({ let f = old(self).files@[fd]; f.pos == f.content.len() ==> final(self).files@[fd] == (File { content: f.content + data@, pos: f.pos + data@.len() }) })
    { unimplemented!() }
    #[verifier::external_body]
    pub fn lseek(&mut self, fd: Fd, position: SeekFrom) -> (r: Result<u64, Errno>)
        requires old(self).files@.contains_key(fd)
        ensures final(self).files@.dom() == old(self).files@.dom(), forall|o: Fd| o != fd && old(self).files@.contains_key(o) ==> #[trigger] final(self).files@[o] == old(self).files@[o],
            final(self).files@[fd].content == old(self).files@[fd].content,
            match r { Ok(_) => (position matches SeekFrom::Start(n) ==> final(self).files@[fd].pos == n), Err(_) => final(self).files@[fd].pos == old(self).files@[fd].pos }
    { unimplemented!() }
    #[verifier::external_body]
    pub fn close(&mut self, fd: Fd) -> (r: Result<(), Errno>)
        ensures final(self).files@ == old(self).files@.remove(fd)
    { unimplemented!() }
}
pub struct Env<S> { pub system: System, pub verif_s: core::marker::PhantomData<S> }
