// ---------------------------------------------------------------------------
// Prelude of unit bgresume (property C12, kernel): yash-builtin/src/bg.rs resume_job_by_index - what `bg` does with a job.
// C12 "across every history of jobs being ... resumed ...; `%%`, `%+`, `%-`, `%n` and `$!` therefore always designate the jobs the
// documentation says they do": `bg` resumes only a job of this shell that is under job control (otherwise nothing happens);
// SIGCONT goes to the job's process group, and to nothing else, exactly when the job is still alive, and the job is then
// expected to be running (no second report at the next prompt); in every accepted case `$!` becomes the job's process ID and
// the job is made the current job; the job is never awaited and never removed here.
//
// Hand-written model text (ASSUMED): JobList::get_mut + JobRefMut (the job's fields as seen through the reference; `expect`
// recorded), JobList::set_last_async_pid / set_current_job (unit joblist has the real ones), kill / write_all are opaque calls
// recorded in two ghost logs (the job table's and the system's: the two are borrowed at the same time); the trait bound list is
// checked at one model trait; the expansion of `#[from]`.
// ---------------------------------------------------------------------------
pub mod signal { #[derive(Clone, Copy, Debug, Eq, PartialEq)] pub struct Number(pub i32); }
#[derive(Clone, Copy, Debug, Eq, PartialEq)] pub struct Pid(pub i32);
pub uninterp spec fn neg_pid(p: Pid) -> Pid;
impl std::ops::Neg for Pid { type Output = Pid; #[verifier::external_body] fn neg(self) -> (r: Pid) ensures r == neg_pid(self) { unimplemented!() } }
impl vstd::std_specs::ops::NegSpecImpl for Pid {
    open spec fn obeys_neg_spec() -> bool { true }
    open spec fn neg_req(self) -> bool { true }
    open spec fn neg_spec(self) -> Pid { neg_pid(self) }
}
#[derive(Clone, Copy)] pub struct Fd(pub i32);
#[derive(Clone, Copy)] pub struct Errno(pub i32);
#[derive(Clone, Copy, Debug, Eq, PartialEq)] pub struct ExitStatus(pub i32);
pub enum ResumeError { Unowned, Unmonitored, SystemError(Errno) }
impl From<Errno> for ResumeError { fn from(e: Errno) -> (r: ResumeError) ensures r == ResumeError::SystemError(e) { ResumeError::SystemError(e) } }
impl vstd::std_specs::convert::FromSpecImpl<Errno> for ResumeError {
    open spec fn obeys_from_spec() -> bool { true }
    open spec fn from_spec(e: Errno) -> ResumeError { ResumeError::SystemError(e) }
}
pub enum SysEv { Wrote, Kill { target: Pid, cont: bool, ok: bool } }
pub enum JobEv { ExpectRunning { index: usize }, LastAsync { pid: Pid }, Current { index: usize } }
pub trait Sys { const SIGCONT: signal::Number; }
pub struct System<S> { pub log: Ghost<Seq<SysEv>>, pub verif_s: core::marker::PhantomData<S> }
impl<S: Sys> System<S> {
    #[verifier::external_body]
    pub fn kill(&mut self, target: Pid, signal: Option<signal::Number>) -> (r: Result<(), Errno>)
        ensures final(self).log@ == old(self).log@.push(SysEv::Kill { target, cont: signal == Some(S::SIGCONT), ok: r is Ok }) { unimplemented!() }
}
/// `let line = format!("[{}] {}\n", index + 1, job.name); env.system.write_all(Fd::STDOUT, line.as_bytes()).await?; drop(line);` up to the `?`
#[verifier::external_body]
pub fn verif_write_line<S>(system: &mut System<S>, index: usize, name: &String) -> (r: Result<(), Errno>)
    ensures final(system).log@ == old(system).log@.push(SysEv::Wrote) { unimplemented!() }
pub struct JobView { pub is_owned: bool, pub job_controlled: bool, pub state: ProcessState, pub pid: Pid }
pub struct JobList { pub jobs: Ghost<Map<usize, JobView>>, pub log: Ghost<Seq<JobEv>> }
/// the job as seen through JobRefMut (Deref to Job), plus the list it was borrowed from
pub struct JobRefMut<'a> { pub is_owned: bool, pub job_controlled: bool, pub name: String, pub state: ProcessState, pub pid: Pid, pub verif_index: Ghost<usize>, pub verif_list: &'a mut JobList }
impl<'a> JobRefMut<'a> {
    /// job.rs JobRefMut::expect
    #[verifier::external_body]
    pub fn expect(&mut self, state: ProcessState)
        ensures mut_ref_future(final(self).verif_list) == mut_ref_future(old(self).verif_list), final(self).pid == old(self).pid, final(self).verif_index == old(self).verif_index,
            final(self).verif_list.jobs@.dom() == old(self).verif_list.jobs@.dom(),
            final(self).verif_list.log@ == old(self).verif_list.log@ + (if state is Running { seq![JobEv::ExpectRunning { index: old(self).verif_index@ }] } else { Seq::empty() })
    { unimplemented!() }
}
/// `env.jobs.get_mut(index).unwrap()` (the caller hands in an index JobId::find answered)
#[verifier::external_body]
pub fn verif_get_mut<'a>(jobs: &'a mut JobList, index: usize) -> (r: JobRefMut<'a>)
    requires old(jobs).jobs@.contains_key(index)
    ensures ({ let j = old(jobs).jobs@[index]; r.is_owned == j.is_owned && r.job_controlled == j.job_controlled && r.state == j.state && r.pid == j.pid }), r.verif_index@ == index,
        *r.verif_list == *old(jobs), *final(jobs) == *final(r.verif_list)
{ unimplemented!() }
impl JobList {
    #[verifier::external_body]
    pub fn set_last_async_pid(&mut self, pid: Pid) ensures final(self).log@ == old(self).log@.push(JobEv::LastAsync { pid }), final(self).jobs@.dom() == old(self).jobs@.dom() { unimplemented!() }
    #[verifier::external_body]
    pub fn set_current_job(&mut self, index: usize) -> (r: Result<(), ()>) ensures final(self).log@ == old(self).log@.push(JobEv::Current { index }), final(self).jobs@.dom() == old(self).jobs@.dom() { unimplemented!() }
}
pub struct Env<S> { pub jobs: JobList, pub system: System<S> }
