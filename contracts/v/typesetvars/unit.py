# Unit typesetvars: SetVariables::execute (kernel of C16).
SV = 'yash-builtin/src/typeset/set_variables.rs'
TS = 'yash-builtin/src/typeset.rs'
MOD_HEAD = '''    use vstd::prelude::*;
'''
SC = '(match self.scope { Scope::Local => yash_env::variable::Scope::Local, Scope::Global => yash_env::variable::Scope::Global })'
UNIT = {
    'name': 'typesetvars',
    'property': 'C16',
    'rlimit': 120,
    'verus_args': ['--edition=2024'],
    'vacuity_floor': 2,
    'items': [
        ('@raw', 'pub mod tvax {\n' + MOD_HEAD),
        ('@file', 'prelude_ax.rs'),
        ('@raw', '}\n'),
        ('@raw', 'pub mod tv {\n' + MOD_HEAD + '    pub use super::tvax::*;\n'),
        ('yash-env/src/option.rs', ['enum State']),
        (TS, ['enum Scope']),
        (TS, ['enum VariableAttr']),
        (TS, ['struct SetVariables'], {'drop_derives': 'all'}),
        ('@file', 'prelude.rs'),
        ('@broadcast', ['super::tvax::lemma_requests_push']),
        (SV, ['impl From<Scope> for yash_env::variable::Scope', 'fn from'], {'ret': 'r',
            'ensures': ['r == (match value { Scope::Local => yash_env::variable::Scope::Local, Scope::Global => yash_env::variable::Scope::Global })']}),
        (SV, ['impl SetVariables', 'fn execute'], {'ret': 'r', 'rewrites': ['let-chain-nest'],
            'attrs': ['#[verifier::loop_isolation(false)]'],
            'entry_ghost': 'let ghost verif_all = self.variables@; let ghost verif_l0 = env.log@; let ghost verif_scope = ' + SC + ';;',
            'token_rewrites': [
                ("'field : for mut field in self . variables {", "let mut verif_rest = self.variables; 'field: while let Some(verif_field) = verif_next_field(&mut verif_rest) invariant verif_rest@.len() <= verif_all.len(), verif_rest@ =~= verif_all.subrange((verif_all.len() - verif_rest@.len()), verif_all.len() as int), requests(env.log@) == requests(verif_l0) + wanted(verif_all.subrange(0, (verif_all.len() - verif_rest@.len())), portable, verif_scope), env.options == old(env).options, portable == old(env).options.verif_portable, verif_scope == (match self.scope { Scope::Local => yash_env::variable::Scope::Local, Scope::Global => yash_env::variable::Scope::Global }) decreases verif_rest@.len() { let mut field = verif_field; let ghost verif_lb = env.log@; proof { assert(verif_all.subrange(0, (verif_all.len() - verif_rest@.len())).drop_last() =~= verif_all.subrange(0, (verif_all.len() - verif_rest@.len()) - 1)); assert(verif_all.subrange(0, (verif_all.len() - verif_rest@.len())).last() == verif_field); }"),
                ("if let Some ( ( name , value ) ) = field . value . split_once ( '=' ) { value_to_assign = Some ( Value :: scalar ( value ) ) ; field . value . truncate ( name . len ( ) ) ; }", 'value_to_assign = verif_split_assignment(&mut field);'),
                ('for & ( attr , state ) in & self . attrs {', 'let ghost verif_fut = mut_ref_future(variable.env); let mut verif_j: usize = 0; while verif_j < self.attrs.len() invariant verif_j <= self.attrs@.len(), mut_ref_future(variable.env) == verif_fut, variable.env.options == old(env).options, requests(variable.env.log@) == requests(verif_lb).push((field.value@, verif_scope)) decreases self.attrs@.len() - verif_j { let (attr, state) = self.attrs[verif_j]; verif_j += 1;'),
                ('if errors . is_empty ( ) {', 'proof { assert(verif_all.subrange(0, verif_all.len() as int) =~= verif_all); } if errors.is_empty() {'),
            ],
            'ensures': [
                # the environment is asked, in operand order, for exactly the variables the operands name, each ONCE, each in the scope
                # of the invocation - and for nothing else
                'requests(final(env).log@) =~= requests(old(env).log@) + wanted(self.variables@, old(env).options.verif_portable, ' + SC + ')',
                'final(env).options == old(env).options',
            ]}),
        ('@raw', '}\n'),
    ],
}
