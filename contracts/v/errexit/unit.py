# Unit errexit: where the ErrExit option applies (kernel of property C10).
LIB = 'yash-env/src/lib.rs'
STACK = 'yash-env/src/stack.rs'
SEM = 'yash-env/src/semantics.rs'
OPT = 'yash-env/src/option.rs'
MOD_HEAD = '''    use vstd::prelude::*;
    use std::ops::ControlFlow::{self, Break, Continue};
    use std::ops::Deref;
    use std::ffi::c_int;
    use vstd::std_specs::cmp::PartialEqSpec;
'''
UNIT = {
    'name': 'errexit',
    'property': 'C10',
    'rlimit': 60,
    'verus_args': ['--edition=2024'],
    'vacuity_floor': 4,
    'items': [
        # placeholders at the paths the code names (crate::trap::Condition is only carried; crate::semantics::Result is the alias below)
        ('@raw', 'pub mod trap { #[derive(Clone, Debug, Eq, PartialEq)] pub struct Condition { pub verif_opaque: u8 } }\npub mod semantics { pub use super::ee::Result; }\n'),
        ('@raw', 'pub mod ee {\n' + MOD_HEAD),
        (OPT, ['enum State']),
        ('@raw', 'pub use State::*;\n'),
        (SEM, ['struct ExitStatus']),
        (SEM, ['impl ExitStatus#1', 'fn is_successful'], {'ret': 'r', 'ensures': ['r == (self.0 == 0)']}),
        (SEM, ['enum Divert']),
        (SEM, ['impl Divert', 'fn exit_status'], {'ret': 'r', 'ensures': ['r == self.exit_status_spec()']}),
        ('@raw', 'pub type Result<T = ()> = ControlFlow<Divert, T>;\n'),
        (STACK, ['struct Builtin']),
        (STACK, ['enum Frame']),
        (STACK, ['struct Stack'], {'pub_fields': True}),
        ('@file', 'prelude.rs'),
        (STACK, ['impl Deref for Stack'], {'methods': {'deref': {'ret': 'r', 'ensures': ['*r == self.inner']}}}),
        (LIB, ['impl<S> Env<S>#1', 'fn errexit_is_applicable'], {'ret': 'r', 'ensures': [
            # C10: the option is on and no enclosing construct -- at any depth, across subshells, functions, traps -- is an exempt context
            'r == (self.options.is_on(ErrExit) && !in_condition(self.stack.inner@))']}),
        (LIB, ['impl<S> Env<S>#1', 'fn apply_errexit'], {'ret': 'r', 'ensures': [
            # the shell exits (with the current status: Exit(None)) exactly when the last command failed where errexit applies
            '(self.exit_status.0 != 0 && self.options.is_on(ErrExit) && !in_condition(self.stack.inner@)) ==> r == ControlFlow::<Divert, ()>::Break(Divert::Exit(None))',
            '!(self.exit_status.0 != 0 && self.options.is_on(ErrExit) && !in_condition(self.stack.inner@)) ==> r == ControlFlow::<Divert, ()>::Continue(())']}),
        (LIB, ['impl<S> Env<S>#1', 'fn apply_result'], {'ensures': [
            # the exit status a divert carries becomes $?; anything else leaves $? alone; nothing else changes
            'final(self).exit_status == (match result { ControlFlow::Break(d) => match d.exit_status_spec() { Some(e) => e, None => old(self).exit_status }, ControlFlow::Continue(_) => old(self).exit_status })',
            'final(self).stack == old(self).stack && final(self).options == old(self).options']}),
        ('@raw', '}\n'),
    ],
}
