// ---------------------------------------------------------------------------
// Prelude of unit rwall (property C14, kernel): the write_all / read_all loops of
// yash-env/src/system/concurrency/rw_all.rs over partial transfers.
//
// Hand-written model text (ASSUMED): the system side of a descriptor.  The real traits `Read` / `Write` take `&self`
// and return futures; here the calls are synchronous and take `&mut self` so that their effect has a specification.
// `written(fd)` is everything the system has accepted for fd so far, `consumed(fd)` everything it has handed out from
// fd so far, `at_eof(fd)` whether a read has reported end of input.  Await points are dropped: what other tasks do to
// the same descriptor while this one is suspended is not modelled (that half of C14 is about schedules).
// ---------------------------------------------------------------------------

pub type RawFd = i32;
/// EAGAIN and EWOULDBLOCK: the values of Linux (the code matches on both; they may coincide)
impl Errno {
    pub const EAGAIN: Errno = Errno(11);
    pub const EWOULDBLOCK: Errno = Errno(11);
}
pub trait Sigmask {}
pub trait Fcntl {}

pub trait Write {
    spec fn written(&self, fd: Fd) -> Seq<u8>;
    /// POSIX write on a non-blocking descriptor: some beginning of the data is accepted, or nothing with an error
    fn write(&mut self, fd: Fd, data: &[u8]) -> (r: Result<usize, Errno>)
        ensures
            match r {
                Ok(n) => n <= data@.len() && final(self).written(fd) == old(self).written(fd) + data@.take(n as int),
                Err(_) => final(self).written(fd) == old(self).written(fd),
            },
            forall|other: Fd| other != fd ==> final(self).written(other) == old(self).written(other);
}
pub trait Read {
    spec fn consumed(&self, fd: Fd) -> Seq<u8>;
    spec fn at_eof(&self, fd: Fd) -> bool;
    /// POSIX read on a non-blocking descriptor: the next bytes of the stream fill a beginning of the buffer; a count of
    /// zero for a non-empty buffer is the end of input; an error moves nothing
    fn read(&mut self, fd: Fd, buffer: &mut [u8]) -> (r: Result<usize, Errno>)
        ensures
            final(buffer)@.len() == old(buffer)@.len(),
            match r {
                Ok(n) => n <= old(buffer)@.len()
                    && final(self).consumed(fd) == old(self).consumed(fd) + final(buffer)@.take(n as int)
                    && final(buffer)@.skip(n as int) == old(buffer)@.skip(n as int)
                    && (n == 0 && old(buffer)@.len() > 0 ==> final(self).at_eof(fd)),
                Err(_) => final(self).consumed(fd) == old(self).consumed(fd) && final(buffer)@ == old(buffer)@,
            };
}

/// `Concurrent<S>` reduced to the wrapped system (the real struct also holds the waker tables of the select loop)
pub struct Concurrent<S> { pub inner: S }
/// placeholder for `LazyCell<Rc<Cell<Option<Waker>>>, F>` (the waker slot handed to the select loop)
pub struct LazyCell { pub verif_opaque: u8 }
impl LazyCell { pub fn default() -> LazyCell { LazyCell { verif_opaque: 0 } } }
impl<S> Concurrent<S> {
    /// ASSUMED: suspending until the descriptor is ready leaves what this task has transferred as it is
    pub fn yield_for_read(&mut self, fd: Fd, waker: &LazyCell)
        ensures final(self).inner == old(self).inner,
    {}
    pub fn yield_for_write(&mut self, fd: Fd, waker: &LazyCell)
        ensures final(self).inner == old(self).inner,
    {}
}

/// `inner.read(fd, &mut buffer[from..])` behind a contract (rewrite rule tokens-to-helper; Verus has no specification
/// for mutable range indexing of a Vec): the contract of `Read::read` on the tail of the vector.  ASSUMED; the body is
/// what the code called.
#[verifier::external_body]
pub fn verif_read_tail<S: Read>(inner: &mut S, fd: Fd, buffer: &mut Vec<u8>, from: usize) -> (r: Result<usize, Errno>)
    requires from <= old(buffer)@.len(),
    ensures
        final(buffer)@.len() == old(buffer)@.len(),
        cap(final(buffer)) == cap(old(buffer)),
        final(buffer)@.take(from as int) == old(buffer)@.take(from as int),
        match r {
            Ok(n) => from + n <= old(buffer)@.len()
                && final(inner).consumed(fd) == old(inner).consumed(fd) + final(buffer)@.subrange(from as int, from + n)
                && (n == 0 && old(buffer)@.len() > from ==> final(inner).at_eof(fd)),
            Err(_) => final(inner).consumed(fd) == old(inner).consumed(fd) && final(buffer)@ == old(buffer)@,
        },
{
    inner.read(fd, &mut buffer[from..])
}

// ---- Vec capacity (ASSUMED std contracts; vstd has none) -------------------------------------------------------------
pub uninterp spec fn cap<T, A: std::alloc::Allocator>(v: &Vec<T, A>) -> nat;
pub assume_specification<T, A: std::alloc::Allocator> [ Vec::<T, A>::capacity ](v: &Vec<T, A>) -> (r: usize)
    ensures r == cap(v), r >= v@.len();
/// `buffer.extend(repeat_n(0, k))` behind a contract (rule tokens-to-helper): k zero bytes are appended; within the
/// capacity nothing is reallocated
#[verifier::external_body]
pub fn verif_extend_zeros(buffer: &mut Vec<u8>, k: usize)
    ensures final(buffer)@ == old(buffer)@ + Seq::new(k as nat, |i: int| 0u8),
        old(buffer)@.len() + k <= cap(old(buffer)) ==> cap(final(buffer)) == cap(old(buffer)),
{
    buffer.extend(std::iter::repeat_n(0, k))
}

/// moving on by n items: the rest of the rest is the rest, and the two beginnings make up the longer beginning
pub proof fn lemma_advance(e: Seq<u8>, k: int, d: Seq<u8>, n: int)
    requires 0 <= k <= e.len(), d == e.skip(k), 0 <= n <= d.len(),
    ensures d.skip(n) == e.skip(k + n), e.take(k) + d.take(n) == e.take(k + n),
{
    assert(d.skip(n) =~= e.skip(k + n));
    assert(e.take(k) + d.take(n) =~= e.take(k + n));
}

/// ASSUMED contract of `Vec::reserve` (rule tokens-to-helper): "reserves capacity for at least `additional` more
/// elements"; the contents stay
#[verifier::external_body]
pub fn verif_reserve(buffer: &mut Vec<u8>, additional: usize)
    ensures final(buffer)@ == old(buffer)@, cap(final(buffer)) >= old(buffer)@.len() + additional, cap(final(buffer)) >= cap(old(buffer)),
{
    buffer.reserve(additional)
}
