# Unit arithglue: the shell's implementation of yash_arith::Env (kernel of C03).
AR = 'yash-semantics/src/expansion/initial/arith.rs'
MOD_HEAD = '''    use vstd::prelude::*;
    use std::ops::Range;
    use std::rc::Rc;
'''
IMPL = "impl<S> yash_arith::Env for VarEnv<'_, S>"
WRAP = "impl<'a, S> VarEnv<'a, S>"
UNIT = {
    'name': 'arithglue',
    'property': 'C03',
    'rlimit': 60,
    'verus_args': ['--edition=2024'],
    'vacuity_floor': 2,
    'items': [
        ('@raw', 'pub mod ag {\n' + MOD_HEAD),
        ('yash-env/src/option.rs', ['enum State']),
        ('@raw', 'pub use State::{Off, On};\n'),
        ('@file', 'prelude.rs'),
        (AR, ['struct UnsetVariable'], {'drop_derives': 'all', 'pub_fields': True, 'vis': 'pub'}),
        (AR, ['struct VarEnv'], {'pub_fields': True, 'vis': 'pub'}),
        (AR, [IMPL, 'fn get_variable'], {'ret': 'r', 'wrapper': WRAP,
            'ensures': [
                # the value of the variable, exactly; an unset (or non-scalar) variable: no value - or, under nounset, the error naming it
                'scalar_of(ve_vars(self), name@) matches Some(v) ==> (r matches Ok(Some(x)) && x@ == v)',
                'scalar_of(ve_vars(self), name@) is None && !ve_nounset(self) ==> r matches Ok(None)',
                'scalar_of(ve_vars(self), name@) is None && ve_nounset(self) ==> (r matches Err(e) && e.param.verif_name == name@)',
            ]}),
        (AR, [IMPL, 'fn assign_variable'], {'ret': 'r', 'wrapper': WRAP,
            'token_rewrites': [
                ('let code = Rc :: new ( Code { value : self . expression . to_string ( ) . into ( ) , start_line_number : 1 . try_into ( ) . unwrap ( ) , source : Source :: Arith { original : self . expansion_location . clone ( ) , } . into ( ) , } ) ;', 'let code = verif_code(self.expression, self.expansion_location);'),
                ('self . env . get_or_create_variable ( name , $sc ) . assign ( value , Location { code , range } )', 'verif_map_assign_error(self.env.get_or_create_variable(name, $sc).assign(value, verif_location(code, range)), name)'),
                ('. map ( drop ) . map_err ( | e | AssignReadOnlyError { name : name . to_owned ( ) , new_value : e . new_value , read_only_location : e . read_only_location , vacancy : None , } )', ''),
            ],
            'ensures': [
                # exactly: the variable of this name, in the global scope, is asked for once and assigned exactly this value once
                'final(self).env.log@ == old(self).env.log@.push(VEv::Requested { name: name@, scope: Scope::Global }).push(VEv::Assigned { value: value@, ok: r is Ok })',
                # a refusal comes back as an error carrying the name and the value
                'r matches Err(e) ==> e.name@ == name@ && e.new_value.verif_v == value@',
            ]}),
        ('@raw', '}\n'),
    ],
}
