// ---------------------------------------------------------------------------
// Prelude of unit fifo (placeholder types): the byte containers of the simulated file system
// (yash-env/src/system/virtual/file_body.rs), kernel of property C14.
// The real enum FileBody mentions types that are only stored, never inspected, by the functions of this unit;
// they are replaced by opaque placeholders of the same names.
// ---------------------------------------------------------------------------
/// same definition as core::task::Poll (which Verus does not know)
pub enum Poll<T> { Ready(T), Pending }
pub struct Inode;
pub struct UnixStr;
pub struct PathBuf;
pub struct RefCell<T>(pub T);
pub struct Waker;
pub struct Cell<T>(pub T);
/// a weak reference to a waker cell, identified by a number (placeholder: only its identity matters here)
pub struct Weak<T>(pub u64, pub core::marker::PhantomData<T>);

/// Set of wakers of tasks blocked on a FIFO (placeholder of the same name for yash_env::waker::WakerSet, which is a
/// HashSet of weak waker cells).  ASSUMED contract: `insert` registers the waker, `wake_all` wakes and removes every
/// registered waker, `is_empty` / `len` observe the registered ones.  WHEN the woken tasks run is scheduling and is not
/// decided here; what the contracts below do decide is that a blocked reader or writer is always registered and that
/// the other side is always woken when data or room appears.
pub struct WakerSet { pub n: usize }
impl WakerSet {
    pub uninterp spec fn registered(&self) -> Set<u64>;

    #[verifier::external_body]
    pub fn insert(&mut self, waker: Weak<Cell<Option<Waker>>>) -> (fresh: bool)
        ensures final(self).registered() == old(self).registered().insert(waker.0),
    { unimplemented!() }
    #[verifier::external_body]
    pub fn wake_all(&mut self)
        ensures final(self).registered() == Set::<u64>::empty(),
    { unimplemented!() }
    #[verifier::external_body]
    pub fn is_empty(&self) -> (b: bool)
        ensures b == (self.registered() == Set::<u64>::empty()),
    { unimplemented!() }
    #[verifier::external_body]
    pub fn len(&self) -> (n: usize)
        ensures n == self.registered().len(),
    { unimplemented!() }
}

/// error numbers used by this unit (the real constants come from libc; only their distinctness matters)
impl Errno {
    pub const EAGAIN: Errno = Errno(11);
    pub const EBADF: Errno = Errno(9);
    pub const EISDIR: Errno = Errno(21);
    pub const ENOTSUP: Errno = Errno(95);
    pub const EPIPE: Errno = Errno(32);
}
