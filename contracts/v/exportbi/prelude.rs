// ---------------------------------------------------------------------------
// Prelude of unit exportbi (property C16, kernel): the `export` and `readonly` built-ins (yash-builtin/src/export.rs main,
// yash-builtin/src/readonly.rs main): what they turn a parsed invocation into before SetVariables::execute (unit typesetvars)
// or the printer runs.
// C16 "exports, read-only marks ... globals assigned inside [a function] persist": `export NAME[=VALUE]` and `readonly NAME[=VALUE]`
// always work on the GLOBAL scope - they never create a local that would vanish at the function's return - and add exactly the
// attribute the built-in stands for; the command executed is otherwise the one parsed, and it is executed exactly once.
//
// Hand-written model text (ASSUMED): parse + interpret (the typeset syntax; generic option parser under unit k/optparse) are opaque
// and - with the option table of these built-ins - answer a variable command (export) or any command (readonly); executing the
// command, printing and the reporters are opaque calls recording the command executed.  The two `unreachable!` arms of export are
// obligations.  Await points dropped.
// ---------------------------------------------------------------------------
pub trait Isatty {} pub trait WriteAll {}
pub struct Field { pub verif_id: int }
pub struct OptionSpecTable { pub verif_opaque: u8 }
pub const PORTABLE_OPTIONS: OptionSpecTable = OptionSpecTable { verif_opaque: 0 };
pub struct PrintContext { pub verif_opaque: u8 }
pub const PRINT_CONTEXT: PrintContext = PrintContext { verif_opaque: 0 };
pub struct Mode { pub verif_opaque: u8 }
impl Mode { #[verifier::external_body] pub fn with_env<S>(env: &Env<S>) -> Mode { unimplemented!() } }
pub struct ParseError { pub verif_opaque: u8 }
pub struct InterpretError { pub verif_opaque: u8 }
pub struct ExecuteError { pub verif_opaque: u8 }
pub struct Report { pub verif_opaque: u8 }
pub struct OptionOccurrences { pub verif_opaque: u8 }
pub enum ShellOption { Portable, Other(u8) }
pub use ShellOption::Portable;
pub struct OptionSet { pub verif_opaque: u8 }
impl OptionSet { #[verifier::external_body] pub fn get(&self, o: ShellOption) -> State { unimplemented!() } }
#[derive(Clone, Copy, PartialEq, Eq)]
pub enum FunctionAttr { ReadOnly }
pub struct SetFunctions { pub functions: Vec<Field>, pub attrs: Vec<(FunctionAttr, State)> }
pub struct PrintFunctions { pub functions: Vec<Field>, pub attrs: Vec<(FunctionAttr, State)> }
pub enum Command { SetVariables(SetVariables), PrintVariables(PrintVariables), SetFunctions(SetFunctions), PrintFunctions(PrintFunctions) }
pub use Scope::Global;
pub use VariableAttr::Export;
pub use State::On;
pub struct Env<S> { pub options: OptionSet, pub executed: Ghost<Seq<Command>>, pub verif_errors: Ghost<nat>, pub verif_variables_only: bool, pub system: S }
pub uninterp spec fn parsed_command(args: Seq<Field>) -> Option<Command>;
#[verifier::external_body]
pub fn parse(specs: OptionSpecTable, mode: Mode, args: Vec<Field>) -> (r: Result<(OptionOccurrences, Vec<Field>), ParseError>)
    ensures r is Err ==> parsed_command(args@) is None
{ unimplemented!() }
pub uninterp spec fn interpreted(o: OptionOccurrences, operands: Seq<Field>) -> Option<Command>;
/// typeset/syntax.rs interpret: with the option table of export (only -p) the command is about variables
#[verifier::external_body]
pub fn interpret(options: OptionOccurrences, operands: Vec<Field>, portable: State) -> (r: Result<Command, InterpretError>)
    ensures (match r { Ok(c) => Some(c), Err(_) => None }) == interpreted(options, operands@)
{ unimplemented!() }
impl Command {
    #[verifier::external_body]
    pub fn execute<S>(self, env: &mut Env<S>, context: &PrintContext) -> (r: Result<String, Vec<ExecuteError>>)
        ensures final(env).executed@ == old(env).executed@.push(self), final(env).verif_errors@ == old(env).verif_errors@
    { unimplemented!() }
}
#[verifier::external_body]
pub fn output<S>(env: &mut Env<S>, text: &String) -> (r: BuiltinResult) ensures final(env).executed@ == old(env).executed@, final(env).verif_errors@ == old(env).verif_errors@ { unimplemented!() }
#[verifier::external_body]
pub fn verif_report_failure<S>(env: &mut Env<S>, errors: &Vec<ExecuteError>) -> (r: BuiltinResult) ensures final(env).executed@ == old(env).executed@ { unimplemented!() }
pub struct BuiltinResult { pub verif_opaque: u8 }
pub trait Reportable {}
impl Reportable for ParseError {} impl Reportable for InterpretError {}
#[verifier::external_body]
pub fn report_error<S, E: Reportable>(env: &mut Env<S>, error: &E) -> (r: BuiltinResult) ensures final(env).executed@ == old(env).executed@, final(env).verif_errors@ == old(env).verif_errors@ + 1 { unimplemented!() }
/// unreachable!(..): must be dead code
#[verifier::external_body]
pub fn verif_unreachable() requires false { unreachable!() }
