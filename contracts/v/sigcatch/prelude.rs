// ---------------------------------------------------------------------------
// Prelude of unit sigcatch (property C11, kernel): yash-env/src/lib.rs Env::wait_for_signals / wait_for_signal - where the signals
// the system reports reach the trap table.
// C11 "each delivery of a trapped signal makes its action run exactly once": every signal of every batch the system reports
// is handed to the trap table (TrapSet::catch_signal: unit trap has it - it sets the pending flag), once each, in the order
// reported, none skipped; the batch is handed on unchanged; waiting for ONE signal goes through the same path for every batch
// (so the other signals of those batches are not lost) and returns only after a batch that contains the signal.
//
// Hand-written model text (ASSUMED): WaitForSignals::wait_for_signals of the system (one batch), TrapSet::catch_signal
// recorded in a ghost log, the signal list as a vector (Rc<SignalList> derefs to one), `contains`.  Termination of
// wait_for_signal depends on the signal arriving and is not decided.
// ---------------------------------------------------------------------------
use std::rc::Rc;
pub mod signal { #[derive(Clone, Copy, Debug, Eq, PartialEq)] pub struct Number(pub i32); }
pub struct SignalList { pub verif_v: Vec<signal::Number> }
impl SignalList {
    /// `result.iter().copied()`: the signals of the batch, in order (SignalList derefs to a vector)
    pub fn verif_vec(&self) -> (r: &Vec<signal::Number>) ensures r@ == self.verif_v@ { &self.verif_v }
    #[verifier::external_body]
    pub fn contains(&self, s: &signal::Number) -> (r: bool) ensures r == self.verif_v@.contains(*s) { unimplemented!() }
}
/// what the system reported so far: all the signals, batch after batch, and the last batch
pub struct System { pub reported: Ghost<Seq<signal::Number>>, pub last: Ghost<Seq<signal::Number>>, pub batches: Ghost<nat> }
impl System {
    /// concurrency.rs WaitForSignals::wait_for_signals: the next batch of caught signals
    #[verifier::external_body]
    pub fn wait_for_signals(&mut self) -> (r: Rc<SignalList>)
        ensures final(self).reported@ == old(self).reported@ + r.verif_v@, final(self).last@ == r.verif_v@, final(self).batches@ == old(self).batches@ + 1
    { unimplemented!() }
}
pub struct TrapSet { pub caught: Ghost<Seq<signal::Number>> }
impl TrapSet {
    /// trap.rs TrapSet::catch_signal (unit trap)
    #[verifier::external_body]
    pub fn catch_signal(&mut self, signal: signal::Number) ensures final(self).caught@ == old(self).caught@.push(signal) { unimplemented!() }
}
pub struct Env<S> { pub system: System, pub traps: TrapSet, pub verif_s: core::marker::PhantomData<S> }
