"""Mechanical extraction of Rust items from /repo with contract clauses spliced in.

The output text of every item is assembled from *segments*:
  ('src', a, b)            bytes [a,b) of the source file, verbatim
  ('ins', text, clause_id) text that carries no program text: a contract clause
                           (requires/ensures/invariant/decreases, a named return,
                           a closure signature) or a verifier attribute
  ('rw', a, b, text, rule) source bytes [a,b) replaced by `text` under a named
                           fixed rule (closure parameter patterns, dropped derive
                           macros); counted per rule and reported in the evidence
`check_verbatim` re-reads the segments and proves that dropping every 'ins'
segment and undoing every 'rw' segment gives back exactly the source item.
"""
import re
from rustlex import lex, match_close, skip_angles, OPEN, CLOSE, LexError


class ExtractError(Exception):
    """Lost anchor / unsupported shape: the caller reports UNDECIDED (exit 2)."""


ITEM_KW = {'fn', 'enum', 'struct', 'trait', 'const', 'static', 'type', 'impl', 'mod', 'union'}
MODIFIERS = {'pub', 'const', 'async', 'unsafe', 'extern', 'default'}

# attribute macros that cannot exist in a single-file build: dropped (rule 'drop-attr')
DROP_ATTR_RE = re.compile(r'^#\s*\[\s*(error|from|source|backtrace|must_use|doc|inline|cfg_attr|deprecated|allow|expect|warn|eq|partial_eq|debug|non_exhaustive)\b')
DROP_DERIVES = {'Error', 'Display', 'From', 'Into', 'EnumSetType', 'Enum', 'EnumIter', 'EnumString', 'IntoStaticStr'}


class Source:
    def __init__(self, path, text):
        self.path = path
        self.text = text
        self.all = lex(text)
        self.toks = [t for t in self.all if t.kind not in ('comment', 'doc')]

    # ---- item location -------------------------------------------------
    def _scan_items(self, lo, hi):
        """Yield (kw_index, keyword, name_or_header) for items at depth 0 of toks[lo:hi]."""
        toks = self.toks
        i = lo
        while i < hi:
            t = toks[i]
            if t.kind == 'punct' and t.text in OPEN:
                i = match_close(toks, i) + 1
                continue
            if t.kind == 'ident' and t.text in ITEM_KW:
                prev = toks[i - 1] if i > lo else None
                # `const` as modifier of fn; `impl` in `-> impl Trait` etc. are not at item position
                at_item_pos = prev is None or (prev.kind == 'punct' and prev.text in (';', '}', ']', ')')) \
                    or (prev.kind == 'ident' and prev.text in MODIFIERS) or (prev.kind == 'str')
                if at_item_pos:
                    if t.text == 'const' and i + 1 < hi and toks[i + 1].kind == 'ident' and toks[i + 1].text in ('fn', 'unsafe', 'async', 'extern'):
                        i += 1
                        continue
                    if t.text == 'unsafe' or t.text == 'async':
                        i += 1
                        continue
                    if t.text == 'impl':
                        j = i
                        while j < hi and not (toks[j].kind == 'punct' and toks[j].text == '{'):
                            j += 1
                        header = ' '.join(x.text for x in toks[i:j])
                        yield i, 'impl', header
                        i = match_close(toks, j) + 1 if j < hi else hi
                        continue
                    if i + 1 < hi and toks[i + 1].kind == 'ident':
                        yield i, t.text, toks[i + 1].text
                        # skip to end of item
                        i = self._item_end(i, hi) + 1
                        continue
            i += 1

    def _item_end(self, kw, hi):
        """Index of the last token of the item whose keyword is toks[kw]."""
        toks = self.toks
        j = kw
        while j < hi:
            t = toks[j]
            if t.kind == 'punct':
                if t.text == ';':
                    return j
                if t.text == '{':
                    e = match_close(toks, j)
                    return e
                if t.text in ('(', '['):
                    j = match_close(toks, j)
                    # tuple struct `struct X(..);`
            j += 1
        raise ExtractError('item end not found in %s' % self.path)

    def _item_start(self, kw, lo):
        """Walk backwards over modifiers and attributes."""
        toks = self.toks
        i = kw
        while i > lo:
            p = toks[i - 1]
            if p.kind == 'ident' and p.text in MODIFIERS:
                i -= 1
                continue
            if p.kind == 'str' and i - 2 >= lo and toks[i - 2].text == 'extern':
                i -= 1
                continue
            if p.kind == 'punct' and p.text == ')':
                # pub(crate)
                j = i - 1
                depth = 0
                while j >= lo:
                    if toks[j].text == ')':
                        depth += 1
                    elif toks[j].text == '(':
                        depth -= 1
                        if depth == 0:
                            break
                    j -= 1
                if j - 1 >= lo and toks[j - 1].text == 'pub':
                    i = j
                    continue
                break
            if p.kind == 'punct' and p.text == ']':
                j = i - 1
                depth = 0
                while j >= lo:
                    if toks[j].text == ']':
                        depth += 1
                    elif toks[j].text == '[':
                        depth -= 1
                        if depth == 0:
                            break
                    j -= 1
                if j - 1 >= lo and toks[j - 1].text == '#':
                    i = j - 1
                    continue
                break
            break
        return i

    def find(self, path):
        """path: list of steps, each 'fn name' | 'enum X' | 'impl <header>' | ...
        Returns (lo, hi) token index range (inclusive) of the innermost item, plus the
        list of enclosing (kw_index, body_open_index, body_close_index) wrappers."""
        toks = self.toks
        lo, hi = 0, len(toks)
        wrappers = []
        found = None
        for step_no, step in enumerate(path):
            if step.startswith('impl'):
                kw, name = 'impl', step[4:]
            else:
                kw, _, name = step.partition(' ')
            name = ' '.join(name.split())
            nth = 0
            m = re.match(r'^(.*)#(\d+)$', name)
            if m:
                name, nth = m.group(1).strip(), int(m.group(2))
            hits = []
            prefix_hits = []
            for idx, k, nm in self._scan_items(lo, hi):
                if k != kw:
                    continue
                if kw == 'impl':
                    if _norm_header(nm) == _norm_header('impl' + name):
                        hits.append(idx)
                    elif _norm_header(nm).startswith(_norm_header('impl' + name) + 'where'):
                        prefix_hits.append(idx)
                elif nm == name:
                    hits.append(idx)
            if not hits:
                hits = prefix_hits
            if len(hits) <= nth:
                raise ExtractError('lost anchor: %s `%s` not found in %s (scope %s)' % (kw, name, self.path, ' / '.join(path[:step_no]) or 'file'))
            if len(hits) > 1 and not m:
                raise ExtractError('ambiguous anchor: %s `%s` occurs %d times in %s' % (kw, name, len(hits), self.path))
            kwi = hits[nth]
            end = self._item_end(kwi, hi)
            start = self._item_start(kwi, lo)
            found = (start, kwi, end)
            if step_no < len(path) - 1:
                # descend into the body
                j = kwi
                while not (toks[j].kind == 'punct' and toks[j].text == '{'):
                    j += 1
                wrappers.append((start, kwi, j, end))
                lo, hi = j + 1, end
        return found, wrappers


def _step_name(p):
    return p[4:].strip() if p.startswith('impl') else p.split(' ', 1)[1]


def _norm_header(h):
    return re.sub(r'\s+', '', h)


# ---------------------------------------------------------------------------
class Segs:
    """Segment list builder over one source."""

    def __init__(self, src):
        self.src = src
        self.edits = []  # (a, b, kind, text, tag)  with a<=b source offsets; ins has a==b

    def insert(self, pos, text, tag, order=0):
        self.edits.append((pos, pos, 'ins', text, tag, order, len(self.edits)))

    def rewrite(self, a, b, text, rule):
        self.edits.append((a, b, 'rw', text, rule, 0, len(self.edits)))

    def render(self, a, b):
        """Return list of segments covering source [a,b)."""
        eds = [e for e in self.edits if a <= e[0] and e[1] <= b]
        eds.sort(key=lambda e: (e[0], 0 if e[2] == 'ins' else 1, e[5], e[6]))
        out = []
        pos = a
        for (ea, eb, kind, text, tag, _o, _n) in eds:
            if ea < pos:
                raise ExtractError('overlapping edits at %d in %s' % (ea, self.src.path))
            if ea > pos:
                out.append(('src', pos, ea))
            if kind == 'ins':
                out.append(('ins', text, tag))
                pos = ea
            else:
                out.append(('rw', ea, eb, text, tag))
                pos = eb
        if pos < b:
            out.append(('src', pos, b))
        return out


def _clauses(kind, lst, tagbase, indent):
    """Format a clause list; returns list of (text, tag)."""
    if not lst:
        return []
    if isinstance(lst, str):
        lst = [lst]
    out = [('\n' + indent + kind + '\n', None)]
    for n, c in enumerate(lst):
        out.append((indent + '    ' + c.strip().rstrip(',') + ',\n', '%s/%s[%d]' % (tagbase, kind, n)))
    return out


class FnSplicer:
    """Applies a contract spec to one fn item (token range) of a Source."""

    def __init__(self, src, segs, name_path, counts):
        self.src = src
        self.segs = segs
        self.name_path = name_path
        self.counts = counts

    def splice(self, start, kwi, end, spec):
        toks = self.src.toks
        tag = self.name_path
        # --- signature -------------------------------------------------------
        i = kwi + 2  # after `fn name`
        if toks[i].text == '<':
            i = skip_angles(toks, i)
        if toks[i].text != '(':
            raise ExtractError('unexpected fn signature for %s' % tag)
        pclose = match_close(toks, i)
        j = pclose + 1
        ret_a = ret_b = None
        if toks[j].text == '->':
            ret_a = j + 1
            k = ret_a
            while not ((toks[k].kind == 'punct' and toks[k].text in ('{', ';')) or (toks[k].kind == 'ident' and toks[k].text == 'where')):
                if toks[k].text in ('(', '['):
                    k = match_close(toks, k)
                elif toks[k].text == '<':
                    k = skip_angles(toks, k) - 1
                k += 1
            ret_b = k
            j = k
        # skip where clause
        while not (toks[j].kind == 'punct' and toks[j].text in ('{', ';')):
            if toks[j].text in ('(', '['):
                j = match_close(toks, j)
            j += 1
        body_open = j
        has_body = toks[body_open].text == '{'
        body_close = match_close(toks, body_open) if has_body else body_open
        assert body_close == end or not has_body, (tag, body_close, end)

        # Rule 'dyn-to-generic': a parameter `&mut dyn Trait` becomes `&mut verif_T` with a new type parameter
        # `verif_T: Trait` (Verus has no trait objects; the body only calls trait methods, so the generic fn is the
        # same code for every implementor, the dyn one included).
        for trait_name, tyname in (spec.get('dyn_generic') or {}).items():
            hits = 0
            k = i + 1
            while k < pclose - 1:
                if toks[k].kind == 'ident' and toks[k].text == 'dyn' and toks[k + 1].text == trait_name:
                    self.segs.rewrite(toks[k].start, toks[k + 1].end, tyname, 'dyn-to-generic')
                    hits += 1
                k += 1
            if hits == 0:
                raise ExtractError('lost anchor: no `dyn %s` parameter in %s' % (trait_name, tag))
            if toks[kwi + 2].text == '<':
                self.segs.insert(toks[kwi + 2].end, '%s: %s, ' % (tyname, trait_name), tag + '/dyn-to-generic', order=0)
            else:
                self.segs.insert(toks[kwi + 1].end, '<%s: %s>' % (tyname, trait_name), tag + '/dyn-to-generic', order=0)
            self.counts['dyn-to-generic'] = self.counts.get('dyn-to-generic', 0) + 1
        # Rule 'sig-tokens': exact token sequences of the SIGNATURE (between `fn name` and the body) replaced by given text,
        # each exactly once: [(tokens, replacement)] - e.g. a generic `I: IntoIterator<Item = &T>` parameter checked at `&[T]`
        for pattern, replacement in (spec.get('sig_token_rewrites') or []):
            want = [t.text for t in lex(pattern) if t.kind not in ('comment', 'doc')]
            bo = pclose
            while toks[bo].text != '{':
                bo += 1
            hits = [k for k in range(kwi, bo - len(want) + 1) if all(toks[k + o].text == w for o, w in enumerate(want))]
            if len(hits) != 1:
                raise ExtractError('lost anchor: `%s` occurs %d times in the signature of %s' % (pattern, len(hits), tag))
            h = hits[0]
            self.segs.rewrite(toks[h].start, toks[h + len(want) - 1].end, replacement, 'sig-tokens')
            self.counts['sig-tokens'] = self.counts.get('sig-tokens', 0) + 1
        # Rule 'param-tuple': a function parameter written as a tuple pattern, `(a, b): T`, becomes `verif_pN: T` with
        # `let (a, b) = verif_pN;` first in the body (Verus accepts only plain parameter names; the same destructuring, under
        # the same default binding modes)
        if has_body:
            k = i + 1
            n_param = 0
            depth0_start = True
            while k < pclose:
                if depth0_start and toks[k].text == '(':
                    pe = match_close(toks, k)
                    if toks[pe + 1].text == ':':
                        pat = self.src.text[toks[k].start:toks[pe].end]
                        nm = 'verif_p%d' % n_param
                        self.segs.rewrite(toks[k].start, toks[pe].end, nm, 'param-tuple')
                        self.segs.insert(toks[body_open].end, '\n    let %s = %s;' % (pat, nm), tag + '/param-tuple', order=0)
                        self.counts['param-tuple'] = self.counts.get('param-tuple', 0) + 1
                    k = pe
                depth0_start = False
                if toks[k].text in ('(', '[') :
                    k = match_close(toks, k)
                elif toks[k].text == '<':
                    k = skip_angles(toks, k) - 1
                elif toks[k].text == ',':
                    depth0_start = True
                    n_param += 1
                k += 1
        for a in spec.get('attrs', []):
            self.segs.insert(toks[start].start, a + '\n', tag + '/attr')
        if spec.get('ret'):
            if ret_a is None:
                raise ExtractError('%s: named return requested but fn has no return type' % tag)
            self.segs.insert(toks[ret_a].start, '(' + spec['ret'] + ': ', tag + '/ret', order=0)
            self.segs.insert(toks[ret_b - 1].end, ')', tag + '/ret', order=0)
        pos = toks[body_open].start
        # where-clause must come before requires in Verus; we insert right before `{` / `;`
        order = 1
        for kind in ('requires', 'ensures', 'decreases'):
            for text, ctag in _clauses(kind, spec.get(kind), tag, '    '):
                self.segs.insert(pos, text, ctag or tag + '/kw', order=order)
                order += 1
        if spec.get('opens_invariants'):
            self.segs.insert(pos, '\n    opens_invariants ' + spec['opens_invariants'] + '\n', tag + '/kw', order=order)
        if not has_body:
            return
        if 'ref-pattern-deref' in (spec.get('rewrites') or []):
            self._ref_pattern_deref(body_open, body_close)
        for ctor, rty in (spec.get('eta_expand') or {}).items():
            self._eta_expand(body_open, body_close, ctor, rty)
        if 'strip-async' in (spec.get('rewrites') or []):
            self._strip_async(start, kwi, body_open, body_close)
        for pname in (spec.get('mut_params') or []):
            self._param_shared_to_mut(kwi, pclose, pname)
        if 'match-guard-to-if' in (spec.get('rewrites') or []):
            self._match_guard_to_if(body_open, body_close)
        if 'let-chain-last' in (spec.get('rewrites') or []):
            self._let_chain_last(body_open, body_close)
        if 'bool-or-assign' in (spec.get('rewrites') or []):
            self._bool_or_assign(body_open, body_close)
        if 'let-chain-first' in (spec.get('rewrites') or []):
            self._let_chain_first(body_open, body_close)
        if 'let-chain-nest' in (spec.get('rewrites') or []):
            self._let_chain_nest(body_open, body_close)
        # `let-chain-nest?`: the same rule applied wherever its shape occurs, possibly nowhere (a contract that does not
        # depend on the chain being there: if the function is restructured it is judged as it stands)
        if 'let-chain-nest?' in (spec.get('rewrites') or []):
            try:
                self._let_chain_nest(body_open, body_close)
            except ExtractError as e:
                if 'lost anchor' not in str(e):
                    raise
        if 'mut-self-to-local' in (spec.get('rewrites') or []):
            self._mut_self_to_local(kwi, pclose, body_open, body_close)
        # an annotation set can name statements it relies on; if one is missing the set does not apply (lost anchor)
        for anchor in (spec.get('needs') or []):
            want = anchor.split()
            if not any([t.text for t in toks[k:k + len(want)]] == want for k in range(body_open + 1, body_close - len(want) + 1)):
                raise ExtractError('lost anchor: `%s` in %s' % (anchor, tag))
        # ... and tokens it is NOT written for (say a loop-free annotation set: `loop`, `while`, `for`)
        for word in (spec.get('forbids') or []):
            if any(t.text == word and t.kind == 'ident' for t in toks[body_open + 1:body_close]):
                raise ExtractError('lost anchor: `%s` present in %s (annotation set not written for it)' % (word, tag))
        # 'ghost-entry-snapshot': `let ghost verif_entry_<p> = <p>;` at the start of the body names the entry value
        # of a by-value `mut` parameter for loop invariants (ghost code: erased, no effect on execution)
        for pname in (spec.get('entry_snapshots') or []):
            self.segs.insert(toks[body_open].end, '\n        let ghost verif_entry_%s = %s;' % (pname, pname), tag + '/ghost-entry-snapshot', order=0)
            self.counts['ghost-entry-snapshot'] = self.counts.get('ghost-entry-snapshot', 0) + 1
        if spec.get('entry_ghost'):
            # ghost statements first thing in the body (names for entry values when a parameter is shadowed later); erased
            self.segs.insert(toks[body_open].end, '\n        ' + spec['entry_ghost'], tag + '/ghost-entry-snapshot', order=0)
            self.counts['ghost-entry-snapshot'] = self.counts.get('ghost-entry-snapshot', 0) + 1
        if 'or-arm-split' in (spec.get('rewrites') or []):
            self._or_arm_split(body_open, body_close)
        if 'or-pattern-guard-split' in (spec.get('rewrites') or []):
            self._or_pattern_guard_split(body_open, body_close)
        if 'iter-rposition-to-helper' in (spec.get('rewrites') or []):
            self._iter_rposition(body_open, body_close)
        if 'drain-from-next-back-to-helper' in (spec.get('rewrites') or []):
            self._drain_from_next_back(body_open, body_close)
        # --- body: nested fns, loops, closures ---------------------------------
        nested = {}  # name -> (start,kwi,end)
        excl = []
        i = body_open + 1
        depth_stack = []
        while i < body_close:
            t = toks[i]
            if t.kind == 'ident' and t.text == 'fn' and toks[i + 1].kind == 'ident' and toks[i - 1].text in (';', '}', '{', 'pub', 'const', 'unsafe', 'async', ']'):
                e = self.src._item_end(i, body_close)
                s = self.src._item_start(i, body_open + 1)
                nested[toks[i + 1].text] = (s, i, e)
                excl.append((s, e))
                i = e + 1
                continue
            i += 1
        for nm, nspec in (spec.get('nested') or {}).items():
            if nm not in nested:
                raise ExtractError('lost anchor: nested fn `%s` in %s' % (nm, tag))
            s, k, e = nested[nm]
            FnSplicer(self.src, self.segs, tag + '::' + nm, self.counts).splice(s, k, e, nspec)

        tr_excl = []

        def excluded(idx):
            return any(s <= idx <= e for s, e in excl)

        def in_rewritten(idx):
            return any(s <= idx <= e for s, e in tr_excl)

        # Rule 'tokens-to-helper': an exact token sequence (a std call chain Verus cannot take) is replaced by a call of a
        # helper function whose body is that very expression behind an assumed contract: [(tokens, replacement)]
        captures = {}
        for n_tr, tr_item in enumerate(spec.get('token_rewrites') or []):
            pattern, replacement = tr_item[0], tr_item[1]
            tr_expected = tr_item[2] if len(tr_item) > 2 else 1      # exact number of occurrences the rule is written for
            # a pattern token `$name` stands for any identifier; what it matched is substituted for `$name` in the
            # replacement and in the ghost annotations of this function (so that an annotation follows a renamed local)
            pattern_l = pattern.replace('$', 'verif_capture_')
            want = [t.text for t in lex(pattern_l) if t.kind not in ('comment', 'doc')]

            def tr_match(at):
                caps = {}
                for off, w in enumerate(want):
                    tk = toks[at + off]
                    if w.startswith('verif_capture_'):
                        if tk.kind != 'ident' or caps.get(w, tk.text) != tk.text:
                            return None
                        caps[w] = tk.text
                    elif tk.text != w:
                        return None
                return caps
            hits = []
            i = body_open + 1
            while i < body_close - len(want) + 1:
                caps = None if excluded(i) else tr_match(i)
                if caps is not None:
                    hits.append(i)
                    for cname, cval in caps.items():
                        captures['$' + cname[len('verif_capture_'):]] = cval
                i += 1
            for cname, cval in captures.items():
                replacement = replacement.replace(cname, cval)
            if tr_expected == '*':
                pass        # a rewrite that is applied wherever its shape occurs (possibly nowhere)
            elif len(hits) != tr_expected:
                raise ExtractError('lost anchor: `%s` occurs %d times in %s' % (pattern, len(hits), tag))
            for h in hits:
                # edits of earlier rules (strip-await ...) that lie inside the replaced text concern text that no longer exists
                ra, rb = toks[h].start, toks[h + len(want) - 1].end
                self.segs.edits = [e for e in self.segs.edits if not (ra <= e[0] and e[1] <= rb and (e[0], e[1]) != (ra, rb) and e[2] == 'rw')]
                self.segs.rewrite(toks[h].start, toks[h + len(want) - 1].end, replacement, 'tokens-to-helper')
                tr_excl.append((h, h + len(want) - 1))   # loops and closures inside the replaced text no longer exist
                self.counts['tokens-to-helper'] = self.counts.get('tokens-to-helper', 0) + 1


        # loops
        loops = []
        closures = []
        i = body_open + 1
        while i < body_close:
            if excluded(i):
                i += 1
                continue
            t = toks[i]
            if t.kind == 'ident' and t.text in ('while', 'loop', 'for'):
                if t.text == 'for' and toks[i + 1].text == '<':
                    i += 1
                    continue
                j = i + 1
                if t.text != 'loop':
                    if toks[j].kind == 'ident' and toks[j].text == 'let':
                        while not (toks[j].kind == 'punct' and toks[j].text == '='):
                            if toks[j].text in OPEN:
                                j = match_close(toks, j)
                            j += 1
                    if t.text == 'for':
                        # the pattern of a `for` may contain braces (`for Field { a, b } in v {`): the body opens after `in`
                        while not (toks[j].kind == 'ident' and toks[j].text == 'in'):
                            if toks[j].text in OPEN:
                                j = match_close(toks, j)
                            j += 1
                    while not (toks[j].kind == 'punct' and toks[j].text == '{'):
                        if toks[j].text in ('(', '['):
                            j = match_close(toks, j)
                        j += 1
                if not (in_rewritten(i) and in_rewritten(j)):
                    loops.append((i, j))
            elif t.kind == 'punct' and t.text == '|' and not in_rewritten(i):
                p = toks[i - 1]
                starts = (p.kind == 'punct' and p.text in ('(', ',', '=', '{', ';', '=>', '[', ':')) or \
                         (p.kind == 'ident' and p.text in ('move', 'return', 'else'))
                if starts:
                    # parameter list
                    if toks[i + 1].text == '|' and toks[i + 1].start == t.end:
                        pend = i + 1
                    else:
                        j = i + 1
                        while not (toks[j].kind == 'punct' and toks[j].text == '|'):
                            if toks[j].text in OPEN:
                                j = match_close(toks, j)
                            elif toks[j].text == '<':
                                j = skip_angles(toks, j) - 1
                            j += 1
                        pend = j
                    # body
                    b0 = pend + 1
                    has_ret = toks[b0].text == '->'
                    if has_ret:
                        j = b0
                        while toks[j].text != '{':
                            j += 1
                        b0 = j
                    if toks[b0].text == '{' :
                        b1 = match_close(toks, b0)
                        is_block = True
                    else:
                        j = b0
                        while True:
                            tj = toks[j]
                            if tj.kind == 'punct':
                                if tj.text in OPEN:
                                    j = match_close(toks, j)
                                elif tj.text in CLOSE or tj.text in (',', ';'):
                                    break
                            j += 1
                        b1 = j - 1
                        is_block = False
                    closures.append((i, pend, b0, b1, is_block, has_ret))
                    i = pend  # continue scanning inside the body for nested closures/loops
            i += 1

        for k, lspec in (spec.get('loops') or {}).items():
            k = int(k)
            if k >= len(loops):
                raise ExtractError('lost anchor: loop #%d of %s (found %d loops)' % (k, tag, len(loops)))
            kw, bopen = loops[k]
            pos = toks[bopen].start
            order = 0
            ltag = '%s/loop%d' % (tag, k)
            for kind in ('invariant_except_break', 'invariant', 'ensures', 'decreases'):
                for text, ctag in _clauses(kind, lspec.get(kind), ltag, '        '):
                    self.segs.insert(pos, text, ctag or ltag + '/kw', order=order)
                    order += 1
            # ghost annotations inside the loop body (checked, erased): snapshots at its start, a proof block at its end
            if lspec.get('body_start'):
                self.segs.insert(toks[bopen].end, '\n' + lspec['body_start'].rstrip() + '\n', ltag + '/ghost-body-start', order=0)
                self.counts['ghost-annotation'] = self.counts.get('ghost-annotation', 0) + 1
            if lspec.get('body_end'):
                bclose = match_close(toks, bopen)
                self.segs.insert(toks[bclose].start, '\n' + lspec['body_end'].rstrip() + '\n', ltag + '/ghost-body-end', order=0)
                self.counts['ghost-annotation'] = self.counts.get('ghost-annotation', 0) + 1

        # ghost annotations before a statement identified by its leading tokens: [(token texts, ghost code)]
        for n_anchor, gb_item in enumerate(spec.get('ghost_before') or []):
            anchor, code = gb_item[0], gb_item[1]
            for cname, cval in captures.items():
                code = code.replace(cname, cval)
            gb_expected = gb_item[2] if len(gb_item) > 2 else 1      # exact number of occurrences the annotation is written for
            want = anchor.split()
            hits = []
            i = body_open + 1
            while i <= body_close - len(want):
                if [t.text for t in toks[i:i + len(want)]] == want and not excluded(i):
                    hits.append(i)
                i += 1
            if len(hits) > gb_expected:
                raise ExtractError('ambiguous anchor: `%s` occurs more than %d time(s) in %s' % (anchor, gb_expected, tag))
            if len(hits) < gb_expected:
                raise ExtractError('lost anchor: statement `%s` in %s' % (anchor, tag))
            for n_hit, hit in enumerate(hits):
                self.segs.insert(toks[hit].start, code.rstrip() + '\n            ', '%s/ghost-before%d%s' % (tag, n_anchor, ('.%d' % n_hit) if n_hit else ''), order=0)
                self.counts['ghost-annotation'] = self.counts.get('ghost-annotation', 0) + 1

        # Rule 'labeled-block-to-loop': `'l: { BODY }` (a unit-valued labeled block, which Verus does not support)
        # becomes `'l: loop <clauses> decreases 0int { BODY break 'l; }`: one pass through BODY, every `break 'l`
        # keeps its meaning.  The clauses of the synthetic loop come from spec['labeled_blocks'][ordinal].
        lblocks = []
        i = body_open + 1
        while i < body_close - 2:
            if toks[i].kind == 'lifetime' and toks[i + 1].text == ':' and toks[i + 2].text == '{' and not excluded(i) and not in_rewritten(i):
                lblocks.append(i)
            i += 1
        lbspecs = spec.get('labeled_blocks') or {}
        for k in lbspecs:
            if int(k) >= len(lblocks):
                raise ExtractError('lost anchor: labeled block #%s of %s (found %d)' % (k, tag, len(lblocks)))
        for k, li in enumerate(lblocks):
            lspec = lbspecs.get(k, lbspecs.get(str(k))) or {}
            bopen = li + 2
            bclose = match_close(toks, bopen)
            # the block must be used as a statement-like unit block: last token before `}` is `;` or `}`
            if toks[bclose - 1].text not in (';', '}'):
                raise ExtractError('unsupported construct: labeled block with a value in %s' % tag)
            ltag = '%s/lblock%d' % (tag, k)
            pos = toks[bopen].start
            self.segs.insert(pos, 'loop\n', ltag + '/labeled-block-to-loop', order=0)
            order = 1
            for kind in ('invariant_except_break', 'invariant', 'ensures'):
                for text, ctag in _clauses(kind, lspec.get(kind), ltag, '        '):
                    self.segs.insert(pos, text, ctag or ltag + '/kw', order=order)
                    order += 1
            self.segs.insert(pos, '        decreases 0int\n', ltag + '/kw', order=order)
            self.segs.insert(toks[bclose].start, 'break %s;\n' % toks[li].text, ltag + '/labeled-block-to-loop', order=0)
            self.counts['labeled-block-to-loop'] = self.counts.get('labeled-block-to-loop', 0) + 1

        cspecs = spec.get('closures') or {}
        for k, c in enumerate(closures):
            cspec = cspecs.get(k, cspecs.get(str(k)))
            if cspec is None and (spec.get('ensures') or spec.get('requires')) and 'external_body' not in str(spec.get('attrs')):
                # a closure nobody wrote a contract for makes every proof about its result fail for no semantic reason:
                # undecided, never an alarm
                raise ExtractError('unsupported construct: closure #%d of %s has no contract (the function has %d closures, %d with contracts)' % (k, tag, len(closures), len(cspecs)))
            self._closure(k, c, cspec, tag)
        for k in cspecs:
            if int(k) >= len(closures):
                raise ExtractError('lost anchor: closure #%s of %s (found %d closures)' % (k, tag, len(closures)))

    def _or_arm_split(self, body_open, body_close):
        """Rule 'or-arm-split': a match arm `P1 | P2 => { BODY }` whose alternatives are struct patterns with bindings
        becomes `P1 => { BODY } P2 => { BODY }` (Verus does not support an or-pattern that binds by mutable
        reference).  Same arms in the same order; BODY is duplicated.  Only arms with a block body and no guard."""
        toks = self.src.toks
        text = self.src.text
        i = body_open + 1
        n = 0
        while i < body_close:
            if toks[i].text == '=>' :
                # pattern start: after the previous arm (`,` or the `}` of a block body) or the `{` of the match
                j = i - 1
                while j > body_open:
                    tj = toks[j]
                    if tj.kind == 'punct' and tj.text in CLOSE:
                        # find the matching opener
                        depth = 0
                        k = j
                        while True:
                            if toks[k].text in CLOSE:
                                depth += 1
                            elif toks[k].text in OPEN:
                                depth -= 1
                                if depth == 0:
                                    break
                            k -= 1
                        if tj.text == '}' and toks[k - 1].text == '=>':
                            break          # the block body of the previous arm
                        j = k - 1
                        continue
                    if tj.kind == 'punct' and (tj.text in OPEN or tj.text == ','):
                        break
                    j -= 1
                ps = j + 1
                # top-level `|` separators between struct patterns `Path { .. } | Path { .. }`
                bars = []
                k = ps
                has_if = False
                while k < i:
                    if toks[k].text in OPEN:
                        k = match_close(toks, k)
                    elif toks[k].text == '|':
                        bars.append(k)
                    elif toks[k].kind == 'ident' and toks[k].text == 'if':
                        has_if = True
                    k += 1
                if bars and not has_if and toks[bars[0] - 1].text == '}' and toks[i + 1].text == '{':
                    bclose = match_close(toks, i + 1)
                    body = text[toks[i].start:toks[bclose].end]
                    alts = []
                    prev = ps
                    for b in bars + [i]:
                        alts.append(text[toks[prev].start:toks[b - 1].end])
                        prev = b + 1
                    new = ('\n            '.join('%s %s' % (a, body) for a in alts))
                    # the body may contain further spliced text (none supported here): rewrite the whole arm
                    self.segs.rewrite(toks[ps].start, toks[bclose].end, new, 'or-arm-split')
                    self.counts['or-arm-split'] = self.counts.get('or-arm-split', 0) + 1
                    n += 1
                    i = bclose
            i += 1
        if n == 0:
            raise ExtractError('lost anchor: no `P1 {..} | P2 {..} => { .. }` arm in %s' % self.name_path)

    def _or_pattern_guard_split(self, body_open, body_close):
        """Rule 'or-pattern-guard-split': a match arm `HEAD(L1 | L2) if G => BODY` (HEAD a path, L1/L2 literals)
        becomes the two arms `HEAD(L1) if G => BODY, HEAD(L2) if G => BODY,` (Verus supports neither an or-pattern
        with a guard).  Same arms tried in the same order with the same guard; BODY is duplicated."""
        toks = self.src.toks
        text = self.src.text
        i = body_open + 1
        n = 0
        while i < body_close - 6:
            if toks[i].text == '(' and toks[i + 1].kind in ('char', 'num', 'str') and toks[i + 2].text == '|' \
                    and toks[i + 3].kind in ('char', 'num', 'str') and toks[i + 4].text == ')' \
                    and toks[i + 5].kind == 'ident' and toks[i + 5].text == 'if':
                # head start: path tokens before '('
                h = i - 1
                while toks[h].kind == 'ident' or toks[h].text == '::':
                    h -= 1
                h += 1
                # arrow and arm end
                k = i + 6
                while toks[k].text != '=>':
                    if toks[k].text in OPEN:
                        k = match_close(toks, k)
                    k += 1
                arrow = k
                b = arrow + 1
                if toks[b].text == '{':
                    e = match_close(toks, b)
                    arm_end = e
                    if toks[e + 1].text == ',':
                        arm_end = e + 1
                else:
                    e = b
                    while not (toks[e].kind == 'punct' and toks[e].text == ','):
                        if toks[e].text in OPEN:
                            e = match_close(toks, e)
                        e += 1
                    arm_end = e
                head = text[toks[h].start:toks[i].start]
                guard_body = text[toks[i + 5].start:toks[arm_end].end]
                if not guard_body.rstrip().endswith(','):
                    guard_body += ','
                new = '%s(%s) %s\n                %s(%s) %s' % (head, toks[i + 1].text, guard_body, head, toks[i + 3].text, guard_body)
                self.segs.rewrite(toks[h].start, toks[arm_end].end, new, 'or-pattern-guard-split')
                self.counts['or-pattern-guard-split'] = self.counts.get('or-pattern-guard-split', 0) + 1
                n += 1
                i = arm_end
            i += 1
        if n == 0:
            raise ExtractError('lost anchor: no `HEAD(L1 | L2) if G =>` arm in %s' % self.name_path)

    def _iter_rposition(self, body_open, body_close):
        """Rule 'iter-rposition-to-helper': `RECV.iter().rposition(P)` -> `verif_rposition(&RECV, P)`.
        `Iterator::rposition` is a provided method of a trait vstd specifies externally, so no contract can be
        attached to it; the helper `verif_rposition(s, p)` is `s.iter().rposition(p)` behind an assumed contract."""
        toks = self.src.toks
        i = body_open + 1
        n = 0
        while i < body_close - 6:
            if [t.text for t in toks[i:i + 7]] == ['.', 'iter', '(', ')', '.', 'rposition', '(']:
                # receiver: postfix chain ending at i-1
                j = i - 1
                while True:
                    if toks[j].text in (')', ']'):
                        k = j
                        depth = 0
                        while True:
                            if toks[k].text in (')', ']', '}'):
                                depth += 1
                            elif toks[k].text in ('(', '[', '{'):
                                depth -= 1
                                if depth == 0:
                                    break
                            k -= 1
                        j = k - 1
                        if toks[j].kind == 'ident' or toks[j].text in (')', ']'):
                            continue
                        j += 1
                        break
                    elif toks[j].kind == 'ident':
                        if toks[j - 1].text in ('.', '::'):
                            j -= 2
                            continue
                        break
                    else:
                        raise ExtractError('unsupported construct: receiver of .iter().rposition() in %s' % self.name_path)
                self.segs.insert(toks[j].start, 'verif_rposition(&', 'iter-rposition-to-helper/open', order=0)
                self.segs.rewrite(toks[i].start, toks[i + 6].end, ', ', 'iter-rposition-to-helper')
                self.counts['iter-rposition-to-helper'] = self.counts.get('iter-rposition-to-helper', 0) + 1
                n += 1
                i += 7
                continue
            i += 1
        if n == 0:
            raise ExtractError('lost anchor: no `.iter().rposition(` in %s' % self.name_path)

    def _drain_from_next_back(self, body_open, body_close):
        """Rule 'drain-from-next-back-to-helper': `RECV.drain(E..).next_back()` -> `verif_drain_from_next_back(RECV, E)`
        where RECV is a plain identifier (a `&mut Vec`).  Verus cannot declare `std::vec::Drain` (its outlives
        bounds); the helper is the same two calls behind an assumed contract."""
        toks = self.src.toks
        i = body_open + 1
        n = 0
        while i < body_close - 8:
            if toks[i].kind == 'ident' and [t.text for t in toks[i + 1:i + 4]] == ['.', 'drain', '('] and toks[i - 1].text not in ('.', '::'):
                close = match_close(toks, i + 3)
                if toks[close - 1].text == '.' and toks[close - 2].text == '.' and [t.text for t in toks[close + 1:close + 5]] == ['.', 'next_back', '(', ')']:
                    self.segs.insert(toks[i].start, 'verif_drain_from_next_back(', 'drain-from-next-back-to-helper/open', order=0)
                    self.segs.rewrite(toks[i + 1].start, toks[i + 3].end, ', ', 'drain-from-next-back-to-helper')
                    self.segs.rewrite(toks[close - 2].start, toks[close + 4].end, ')', 'drain-from-next-back-to-helper/close')
                    self.counts['drain-from-next-back-to-helper'] = self.counts.get('drain-from-next-back-to-helper', 0) + 1
                    n += 1
                    i = close + 5
                    continue
            i += 1
        if n == 0:
            raise ExtractError('lost anchor: no `<ident>.drain(E..).next_back()` in %s' % self.name_path)

    def _ref_pattern_deref(self, body_open, body_close):
        """Rule 'ref-pattern-deref': `while let &PAT = EXPR {` / `if let &PAT = EXPR {` -> `... let PAT = *(EXPR) {`
        (Verus has no reference patterns; the two forms are the same match on the same place, and the result
        only compiles when every binding of PAT is Copy)."""
        toks = self.src.toks
        i = body_open + 1
        while i < body_close:
            if toks[i].kind == 'ident' and toks[i].text == 'let' and toks[i + 1].text == '&' and toks[i - 1].kind == 'ident' and toks[i - 1].text in ('while', 'if'):
                j = i + 2
                while not (toks[j].kind == 'punct' and toks[j].text == '='):
                    if toks[j].text in OPEN:
                        j = match_close(toks, j)
                    j += 1
                k = j + 1
                while not (toks[k].kind == 'punct' and toks[k].text == '{'):
                    if toks[k].text in ('(', '['):
                        k = match_close(toks, k)
                    k += 1
                self.segs.rewrite(toks[i + 1].start, toks[i + 1].end, '', 'ref-pattern-deref')
                self.segs.insert(toks[j + 1].start, '*(', 'ref-pattern-deref/open', order=0)
                self.segs.insert(toks[k - 1].end, ')', 'ref-pattern-deref/close', order=0)
                self.counts['ref-pattern-deref'] = self.counts.get('ref-pattern-deref', 0) + 1
                i = k
            i += 1

    def _eta_expand(self, body_open, body_close, ctor, rty):
        """Rule 'eta-expand-ctor': a tuple-variant constructor passed as a function value, `f(Path::Ctor)`,
        becomes the closure `f(|verif_x| Path::Ctor(verif_x))` with the obvious `ensures` (Verus does not
        support constructors as function values)."""
        toks = self.src.toks
        want = [t for t in re.split(r'(::)', ctor) if t]
        n = len(want)
        i = body_open + 1
        while i < body_close - n:
            if toks[i].text == '(' and [t.text for t in toks[i + 1:i + 1 + n]] == want and toks[i + 1 + n].text == ')' \
                    and toks[i - 1].kind == 'ident':
                a, b = toks[i + 1].start, toks[i + n].end
                self.segs.rewrite(a, b, '|verif_x| -> (verif_r: %s) ensures verif_r == %s(verif_x) { %s(verif_x) }' % (rty, ctor, ctor), 'eta-expand-ctor')
                self.counts['eta-expand-ctor'] = self.counts.get('eta-expand-ctor', 0) + 1
                i += n
            i += 1

    def _strip_async(self, start, kwi, body_open, body_close):
        """Rule 'strip-async': drop the `async` modifier and every `.await` of the body.  Verus has no
        async; what is dropped is the possibility of other tasks running at the await points (the awaited
        futures are taken to complete immediately)."""
        toks = self.src.toks
        for i in range(start, kwi):
            if toks[i].kind == 'ident' and toks[i].text == 'async':
                self.segs.rewrite(toks[i].start, toks[i].end, '', 'strip-async')
                self.counts['strip-async'] = self.counts.get('strip-async', 0) + 1
        i = body_open + 1
        while i < body_close:
            if toks[i].text == '.' and toks[i + 1].kind == 'ident' and toks[i + 1].text == 'await':
                self.segs.rewrite(toks[i].start, toks[i + 1].end, '', 'strip-await')
                self.counts['strip-await'] = self.counts.get('strip-await', 0) + 1
                i += 1
            i += 1

    def _param_shared_to_mut(self, kwi, pclose, pname):
        """Rule 'param-shared-to-mut': `NAME: &T` -> `NAME: &mut T` for a named parameter, so that the
        effect of the callee on the system can be specified (Verus has no interior mutability)."""
        toks = self.src.toks
        i = kwi
        if pname == 'self':
            # `&self` -> `&mut self`
            while i < pclose:
                if toks[i].text == '&' and toks[i + 1].text == 'self':
                    self.segs.insert(toks[i + 1].start, 'mut ', 'param-shared-to-mut', order=3)
                    self.counts['param-shared-to-mut'] = self.counts.get('param-shared-to-mut', 0) + 1
                    return
                i += 1
            raise ExtractError('param-shared-to-mut: `&self` not found')
        while i < pclose:
            if toks[i].kind == 'ident' and toks[i].text == pname and toks[i + 1].text == ':' and toks[i + 2].text == '&':
                j = i + 3
                if toks[j].kind == 'lifetime':
                    j += 1
                if toks[j].text == 'mut':
                    return
                self.segs.insert(toks[j].start, 'mut ', 'param-shared-to-mut', order=3)
                self.counts['param-shared-to-mut'] = self.counts.get('param-shared-to-mut', 0) + 1
                return
            i += 1
        raise ExtractError('param-shared-to-mut: parameter `%s` not found' % pname)

    def _match_guard_to_if(self, body_open, body_close):
        """Rule 'match-guard-to-if' (works around a Verus defect: a match arm with an `if` guard loses
        the final value of `&mut self`):
            Some(LIT) if G => A, Some(_) => B      ->      Some(LIT) => if G { A } else { B }, Some(_) => B
        Applied only to exactly this shape: the next arm's pattern is `Some(_)` (binds nothing and covers
        every value the guarded pattern matches), so falling through to it is the `else` branch.
        B's text is duplicated."""
        toks = self.src.toks
        text = self.src.text
        sites = []
        i = body_open + 1
        while i < body_close:
            if toks[i].text == '=>':
                # pattern start: previous ',' '{' or '}' at same depth
                j = i - 1
                depth = 0
                while j > body_open:
                    tj = toks[j]
                    if tj.kind == 'punct' and tj.text in CLOSE:
                        depth += 1
                    elif tj.kind == 'punct' and tj.text in OPEN:
                        if depth == 0:
                            break
                        depth -= 1
                    elif depth == 0 and tj.kind == 'punct' and tj.text == ',':
                        break
                    j -= 1
                ps = j + 1
                g = None
                k = ps
                while k < i:
                    if toks[k].text in OPEN:
                        k = match_close(toks, k)
                    elif toks[k].kind == 'ident' and toks[k].text == 'if':
                        g = k
                        break
                    k += 1
                if g is not None:
                    sites.append((ps, g, i))
            i += 1
        for (ps, g, arrow) in reversed(sites):
            pat = [t.text for t in toks[ps:g]]
            if not (len(pat) == 4 and pat[0] == 'Some' and pat[1] == '(' and pat[3] == ')' and
                    (toks[ps + 2].kind in ('num', 'str', 'char') or pat[2] in ('true', 'false'))):
                raise ExtractError('match-guard-to-if: guarded pattern is not `Some(<literal>)`')

            def arm_end(start):
                k = start
                while True:
                    tk = toks[k]
                    if tk.kind == 'punct' and tk.text in OPEN:
                        k = match_close(toks, k)
                    elif tk.kind == 'punct' and (tk.text == ',' or tk.text in CLOSE):
                        return k
                    k += 1
            a_end = arm_end(arrow + 1)          # index of ',' after A
            if toks[a_end].text != ',':
                raise ExtractError('match-guard-to-if: guarded arm is the last arm')
            q = a_end + 1
            if [t.text for t in toks[q:q + 5]] != ['Some', '(', '_', ')', '=>']:
                raise ExtractError('match-guard-to-if: next arm is not `Some(_) =>`')
            b_start = q + 5
            b_end = arm_end(b_start)            # ',' or '}' after B
            b_text = ''.join(seg_text(self.src, sg) for sg in self.segs.render(toks[b_start].start, toks[b_end - 1].end))
            g_text = text[toks[g + 1].start:toks[arrow - 1].end]
            self.segs.rewrite(toks[g].start, toks[arrow - 1].end, '', 'match-guard-to-if')
            self.segs.insert(toks[arrow].end, ' if ' + g_text + ' {', 'match-guard-to-if/if', order=0)
            self.segs.insert(toks[a_end - 1].end, ' } else { ' + b_text + ' }', 'match-guard-to-if/else-copy', order=9)
            self.counts['match-guard-to-if'] = self.counts.get('match-guard-to-if', 0) + 1

    def _mut_self_to_local(self, kwi, pclose, body_open, body_close):
        """Rule 'mut-self-to-local' (Verus does not support a `mut self` parameter): `fn f(mut self, ..) { B }` ->
        `fn f(self, ..) { let mut verif_self = self; B' }` where B' is B with every `self` replaced by `verif_self`.
        A by-value `mut` parameter is a local variable initialised with the argument; the rule spells that out."""
        toks = self.src.toks
        i = kwi
        hit = None
        while i < pclose:
            if toks[i].kind == 'ident' and toks[i].text == 'mut' and toks[i + 1].text == 'self':
                hit = i
                break
            i += 1
        if hit is None:
            raise ExtractError('mut-self-to-local: no `mut self` parameter')
        self.segs.rewrite(toks[hit].start, toks[hit + 1].end, 'self', 'mut-self-to-local')
        self.segs.insert(toks[body_open].end, '\n        let mut verif_self = self;', 'mut-self-to-local/let', order=1)
        n = 0
        for k in range(body_open + 1, body_close):
            if toks[k].kind == 'ident' and toks[k].text == 'self':
                self.segs.rewrite(toks[k].start, toks[k].end, 'verif_self', 'mut-self-to-local')
                n += 1
        self.counts['mut-self-to-local'] = self.counts.get('mut-self-to-local', 0) + 1

    def _let_chain_first(self, body_open, body_close):
        """Rule 'let-chain-first': `if let P = E && A { B }` (the `let` is the FIRST conjunct, one more conjunct, no
        `else`) -> `if let P = E { if A { B } }`.  Same evaluation order, same scopes."""
        toks = self.src.toks
        i = body_open + 1
        n = 0
        while i < body_close:
            if toks[i].kind == 'ident' and toks[i].text == 'if' and toks[i + 1].kind == 'ident' and toks[i + 1].text == 'let':
                j = i + 2
                while not (toks[j].kind == 'punct' and toks[j].text == '='):
                    if toks[j].text in OPEN:
                        j = match_close(toks, j)
                    j += 1
                k = j + 1
                amp = None
                while not (toks[k].kind == 'punct' and toks[k].text == '{'):
                    if toks[k].text in ('(', '['):
                        k = match_close(toks, k)
                    elif toks[k].text == '&' and toks[k + 1].text == '&' and toks[k + 1].start == toks[k].end:
                        if amp is not None:
                            raise ExtractError('let-chain-first: more than two conjuncts')
                        amp = k
                        k += 1
                    k += 1
                if amp is not None:
                    if toks[amp + 2].kind == 'ident' and toks[amp + 2].text == 'let':
                        raise ExtractError('let-chain-first: second conjunct is a let')
                    bclose = match_close(toks, k)
                    if toks[bclose + 1].kind == 'ident' and toks[bclose + 1].text == 'else':
                        raise ExtractError('let-chain-first: the if has an else branch')
                    self.segs.rewrite(toks[amp].start, toks[amp + 1].end, '{ if', 'let-chain-first')
                    self.segs.insert(toks[bclose].end, ' }', 'let-chain-first/close')
                    self.counts['let-chain-first'] = self.counts.get('let-chain-first', 0) + 1
                    n += 1
                i = k
            i += 1
        if n == 0:
            raise ExtractError('lost anchor: no `if let P = E && A {` in %s' % self.name_path)

    def _let_chain_nest(self, body_open, body_close):
        """Rule 'let-chain-nest': `if C1 && C2 && ... && Cn { B }` in which some Ci is a `let P = E`, and the `if` has no
        `else`, -> `if C1 { if C2 { ... if Cn { B } ... } }`.  Same evaluation order, same short-circuiting, same scopes
        (a binding of Ci is visible in the later conjuncts and in B).  Only `&&` at depth 0 of the condition separate
        conjuncts."""
        toks = self.src.toks
        i = body_open + 1
        n = 0
        while i < body_close:
            if toks[i].kind == 'ident' and toks[i].text == 'if' and not (toks[i - 1].kind == 'ident' and toks[i - 1].text == 'else'):
                k = i + 1
                amps = []
                has_let = False
                ok = True
                while k < body_close and not (toks[k].kind == 'punct' and toks[k].text == '{'):
                    if toks[k].text in ('(', '['):
                        k = match_close(toks, k)
                    elif toks[k].text == '&' and toks[k + 1].text == '&' and toks[k + 1].start == toks[k].end:
                        amps.append(k)
                        k += 1
                    elif toks[k].kind == 'ident' and toks[k].text == 'let':
                        has_let = True
                        # skip the pattern (it may contain braces) up to the `=`
                        k += 1
                        while not (toks[k].kind == 'punct' and toks[k].text == '='):
                            if toks[k].text in OPEN:
                                k = match_close(toks, k)
                            k += 1
                    elif toks[k].text == '|' and toks[k + 1].text == '|' and toks[k + 1].start == toks[k].end:
                        ok = False
                    k += 1
                if has_let and amps and ok and k < body_close:
                    bclose = match_close(toks, k)
                    if toks[bclose + 1].kind == 'ident' and toks[bclose + 1].text == 'else':
                        raise ExtractError('let-chain-nest: the if has an else branch')
                    for a in amps:
                        self.segs.rewrite(toks[a].start, toks[a + 1].end, '{ if', 'let-chain-nest')
                    self.segs.insert(toks[bclose].end, ' }' * len(amps), 'let-chain-nest/close')
                    self.counts['let-chain-nest'] = self.counts.get('let-chain-nest', 0) + 1
                    n += 1
                    i = k
            i += 1
        if n == 0:
            raise ExtractError('lost anchor: no `if ... && let P = E ... {` in %s' % self.name_path)

    def _let_chain_last(self, body_open, body_close):
        """Rule 'let-chain-last': `if A && let P = E { B }` (the `let` is the LAST conjunct and the
        `if` has no `else`) -> `if A { if let P = E { B } }`.  Same evaluation order, same scopes."""
        toks = self.src.toks
        i = body_open + 1
        while i < body_close:
            t = toks[i]
            if t.text == '&' and toks[i + 1].text == '&' and toks[i + 1].start == t.end \
                    and toks[i + 2].kind == 'ident' and toks[i + 2].text == 'let':
                # find `=` then the block `{` at depth 0
                j = i + 3
                while not (toks[j].kind == 'punct' and toks[j].text == '='):
                    if toks[j].text in OPEN:
                        j = match_close(toks, j)
                    j += 1
                k = j + 1
                while not (toks[k].kind == 'punct' and toks[k].text == '{'):
                    if toks[k].text in ('(', '['):
                        k = match_close(toks, k)
                    if toks[k].text == '&' and toks[k + 1].text == '&' and toks[k + 1].start == toks[k].end:
                        raise ExtractError('let-chain-last: the let conjunct is not the last one')
                    k += 1
                bclose = match_close(toks, k)
                if toks[bclose + 1].kind == 'ident' and toks[bclose + 1].text == 'else':
                    raise ExtractError('let-chain-last: the if has an else branch')
                self.segs.rewrite(t.start, toks[i + 1].end, '{ if', 'let-chain-last')
                self.segs.insert(toks[bclose].end, ' }', 'let-chain-last/close')
                self.counts['let-chain-last'] = self.counts.get('let-chain-last', 0) + 1
                i = k
            i += 1

    def _bool_or_assign(self, body_open, body_close):
        """Rule 'bool-or-assign': `X |= E;` -> `{ let verif_rhs = E; X = X || verif_rhs; }`
        (Verus has no non-short-circuit `|` on bool; E is still evaluated exactly once and
        before the store; the result only type-checks when X is bool)."""
        toks = self.src.toks
        text = self.src.text
        i = body_open + 1
        while i < body_close:
            t = toks[i]
            if t.text == '|' and toks[i + 1].text == '=' and toks[i + 1].start == t.end and toks[i - 1].end <= t.start:
                # statement start
                j = i - 1
                while not (toks[j].kind == 'punct' and toks[j].text in (';', '{', '}')):
                    j -= 1
                lhs_a, lhs_b = toks[j + 1].start, toks[i - 1].end
                lhs = text[lhs_a:lhs_b]
                k = i + 2
                while not (toks[k].kind == 'punct' and toks[k].text == ';'):
                    if toks[k].text in OPEN:
                        k = match_close(toks, k)
                    k += 1
                self.segs.rewrite(lhs_a, toks[i + 1].end, '{ let verif_rhs =', 'bool-or-assign')
                self.segs.rewrite(toks[k].start, toks[k].end, '; %s = %s || verif_rhs; }' % (lhs, lhs), 'bool-or-assign')
                self.counts['bool-or-assign'] = self.counts.get('bool-or-assign', 0) + 1
                i = k
            i += 1

    def _closure_to_match(self, k, c, rule, ctag):
        """Rules 'option-map-to-match' and 'unwrap-or-else-to-match' (Verus cannot resolve `final(self)`
        when a closure captures a `&mut` parameter; both rewrites are the std definitions of the methods):
            RECV.map(|PAT| BODY)            -> match RECV { Some(PAT) => Some(BODY), None => None }
            RECV.unwrap_or_else(|| BODY)    -> match RECV { Some(verif_v) => verif_v, None => (BODY) }
            RECV.and_then(|PAT| BODY)       -> match RECV { Some(PAT) => (BODY), None => None }
        The result only type-checks when RECV is an Option."""
        toks = self.src.toks
        text = self.src.text
        (p0, p1, b0, b1, is_block, has_ret) = c
        meth = {'option-map-to-match': 'map', 'unwrap-or-else-to-match': 'unwrap_or_else', 'and-then-to-match': 'and_then'}[rule]
        if not (toks[p0 - 1].text == '(' and toks[p0 - 2].text == meth and toks[p0 - 3].text == '.'):
            raise ExtractError('%s: rule %s expects `.%s(` before the closure' % (ctag, rule, meth))
        if toks[b1 + 1].text != ')':
            raise ExtractError('%s: rule %s expects `)` right after the closure' % (ctag, rule))
        dot = p0 - 3
        # receiver start: walk back over a postfix expression
        j = dot - 1
        while j > 0:
            t = toks[j]
            if t.kind == 'punct' and t.text in CLOSE:
                depth = 0
                while True:
                    if toks[j].text in CLOSE:
                        depth += 1
                    elif toks[j].text in OPEN:
                        depth -= 1
                        if depth == 0:
                            break
                    j -= 1
                j -= 1
                continue
            if t.kind in ('ident', 'num', 'str', 'char') or (t.kind == 'punct' and t.text in ('.', '::', '?')):
                if t.kind == 'ident' and t.text in ('return', 'let', 'else', 'in', 'match', 'if', 'while'):
                    break
                j -= 1
                continue
            break
        recv_start = j + 1
        self.segs.insert(toks[recv_start].start, 'match ', ctag + '/match', order=-1)
        if rule == 'option-map-to-match':
            pat = text[toks[p0 + 1].start:toks[p1 - 1].end] if p1 > p0 + 1 else '_'
            self.segs.rewrite(toks[dot].start, toks[p1].end, ' { Some(%s) => Some(' % pat, rule)
            self.segs.rewrite(toks[b1 + 1].start, toks[b1 + 1].end, '), None => None }', rule)
        elif rule == 'and-then-to-match':
            pat = text[toks[p0 + 1].start:toks[p1 - 1].end] if p1 > p0 + 1 else '_'
            self.segs.rewrite(toks[dot].start, toks[p1].end, ' { Some(%s) => (' % pat, rule)
            self.segs.rewrite(toks[b1 + 1].start, toks[b1 + 1].end, '), None => None }', rule)
        else:
            self.segs.rewrite(toks[dot].start, toks[p1].end, ' { Some(verif_v) => verif_v, None => (', rule)
            self.segs.rewrite(toks[b1 + 1].start, toks[b1 + 1].end, ') }', rule)
        self.counts[rule] = self.counts.get(rule, 0) + 1

    def _closure(self, k, c, cspec, tag):
        toks = self.src.toks
        text = self.src.text
        (p0, p1, b0, b1, is_block, has_ret) = c
        ctag = '%s/closure%d' % (tag, k)
        if cspec and cspec.get('rewrite'):
            return self._closure_to_match(k, c, cspec['rewrite'], ctag)
        lets = []
        # split params at depth-0 commas
        params = []
        if p1 > p0 + 1 or not (toks[p1].start == toks[p0].end):
            j = p0 + 1
            cur = j
            while j < p1:
                if toks[j].text in OPEN:
                    j = match_close(toks, j)
                elif toks[j].text == '<':
                    j = skip_angles(toks, j) - 1
                elif toks[j].text == ',':
                    params.append((cur, j - 1))
                    cur = j + 1
                j += 1
            if cur <= p1 - 1:
                params.append((cur, p1 - 1))
        ptypes = (cspec or {}).get('param_types') or []
        for n, (a, b) in enumerate(params):
            first = toks[a]
            # find ':' type annotation at depth 0
            has_type = False
            j = a
            while j <= b:
                if toks[j].text in OPEN:
                    j = match_close(toks, j)
                elif toks[j].text == ':':
                    has_type = True
                    break
                j += 1
            pat_end = (j - 1) if has_type else b
            pat_a, pat_b = toks[a].start, toks[pat_end].end
            pat = text[pat_a:pat_b]
            new = None
            if pat == '_':
                new = '_v%d' % n
                self.counts['closure-param-underscore'] = self.counts.get('closure-param-underscore', 0) + 1
                self.segs.rewrite(pat_a, pat_b, new, 'closure-param-underscore')
            elif first.text == '&' and pat_end == a + 1 and toks[a + 1].kind == 'ident':
                nm = toks[a + 1].text
                new = nm + '_r'
                lets.append('let %s = *%s_r;' % (nm, nm))
                self.counts['closure-param-deref'] = self.counts.get('closure-param-deref', 0) + 1
                self.segs.rewrite(pat_a, pat_b, new, 'closure-param-deref')
            elif first.text == '(':
                new = 'p%d_t' % n
                lets.append('let %s = %s;' % (pat, new))
                self.counts['closure-param-tuple'] = self.counts.get('closure-param-tuple', 0) + 1
                self.segs.rewrite(pat_a, pat_b, new, 'closure-param-tuple')
            elif first.text == '&' and toks[a + 1].text == '(':
                new = 'p%d_r' % n
                lets.append('let %s = *%s;' % (text[toks[a + 1].start:pat_b], new))
                self.counts['closure-param-tuple'] = self.counts.get('closure-param-tuple', 0) + 1
                self.segs.rewrite(pat_a, pat_b, new, 'closure-param-tuple')
            if not has_type and n < len(ptypes) and ptypes[n]:
                self.segs.insert(pat_b, ': ' + ptypes[n], ctag + '/param-type', order=5)
        need_wrap = bool(lets) or bool(cspec and (cspec.get('ret') or cspec.get('requires') or cspec.get('ensures')))
        if not need_wrap:
            return
        if has_ret:
            raise ExtractError('%s: closure already has a return type; unsupported' % ctag)
        pos = toks[b0].start
        head = ''
        pieces = []
        if cspec and cspec.get('ret'):
            pieces.append((' -> (%s) ' % cspec['ret'], ctag + '/ret'))
        for kind in ('requires', 'ensures'):
            for t_, tg in _clauses(kind, (cspec or {}).get(kind), ctag, '            '):
                pieces.append((t_, tg or ctag + '/kw'))
        pieces.append(('{ ' + ' '.join(lets) + ' ', ctag + '/wrap'))
        order = 0
        for t_, tg in pieces:
            self.segs.insert(pos, t_, tg, order=order)
            order += 1
        self.segs.insert(toks[b1].end, ' }', ctag + '/wrap')


def _attr_edits(src, segs, start, kwi, counts, drop_all_derives=False, drop_names=()):
    """Drop attribute macros of crates unavailable in a single-file build."""
    toks = src.toks
    i = start
    while i < kwi:
        if toks[i].text == '#' and toks[i + 1].text == '[':
            e = match_close(toks, i + 1)
            atext = src.text[toks[i].start:toks[e].end]
            if DROP_ATTR_RE.match(atext):
                segs.rewrite(toks[i].start, toks[e].end, '', 'drop-attr')
                counts['drop-attr'] = counts.get('drop-attr', 0) + 1
            elif re.match(r'^#\s*\[\s*derive\b', atext):
                inner_open = i + 3
                # tokens: # [ derive ( ... ) ]
                if toks[i + 3].text == '(':
                    ic = match_close(toks, i + 3)
                    names = []
                    j = i + 4
                    cur = []
                    while j < ic:
                        if toks[j].text == ',':
                            names.append(cur)
                            cur = []
                        else:
                            cur.append(toks[j])
                        j += 1
                    if cur:
                        names.append(cur)
                    keep = [''.join(t.text for t in nm) for nm in names if nm[-1].text not in DROP_DERIVES and nm[-1].text not in drop_names and not drop_all_derives]
                    if len(keep) != len(names):
                        newt = ('#[derive(' + ', '.join(keep) + ')]') if keep else ''
                        segs.rewrite(toks[i].start, toks[e].end, newt, 'drop-derive')
                        counts['drop-derive'] = counts.get('drop-derive', 0) + 1
            i = e + 1
        else:
            i += 1


def _inner_attr_edits(src, segs, lo, hi, counts):
    """Inside an enum/struct body: drop #[error(..)], #[from] etc. on variants/fields."""
    toks = src.toks
    i = lo
    while i < hi:
        if toks[i].text == '#' and toks[i + 1].text == '[':
            e = match_close(toks, i + 1)
            atext = src.text[toks[i].start:toks[e].end]
            if DROP_ATTR_RE.match(atext):
                segs.rewrite(toks[i].start, toks[e].end, '', 'drop-attr')
                counts['drop-attr'] = counts.get('drop-attr', 0) + 1
            i = e + 1
        else:
            i += 1


def _pub_fields(src, segs, kwi, end, counts, name):
    """struct body: every named or tuple field without a visibility gets `pub` (specifications of one unit
    live in one flat module; nothing executable changes)."""
    toks = src.toks
    b = kwi
    while b < end and toks[b].text not in ('{', '('):
        b += 1
    if b >= end:
        return
    close = match_close(toks, b)
    tuple_struct = toks[b].text == '('
    i = b + 1
    at_field_start = True
    depth = 0
    while i < close:
        t = toks[i]
        if at_field_start:
            # skip attributes
            while toks[i].text == '#' and toks[i + 1].text == '[':
                i = match_close(toks, i + 1) + 1
            if i >= close:
                break
            t = toks[i]
            if t.text != 'pub':
                segs.insert(t.start, 'pub ', name + '/field-vis', order=9)
                counts['widen-visibility'] = counts.get('widen-visibility', 0) + 1
            at_field_start = False
            continue
        if t.text in ('(', '[', '{', '<'):
            depth += 1
        elif t.text in (')', ']', '}', '>'):
            depth -= 1
        elif t.text == ',' and depth == 0:
            at_field_start = True
        i += 1


def decode_str_literal(tok_text):
    """Characters of a Rust string literal token (plain or raw)."""
    t = tok_text
    if t.startswith('r'):
        h = 0
        while t[1 + h] == '#':
            h += 1
        return list(t[2 + h:len(t) - 1 - h])
    assert t[0] == '"' and t[-1] == '"', t
    body = t[1:-1]
    out = []
    i = 0
    simple = {'n': '\n', 't': '\t', 'r': '\r', '0': '\0', '\\': '\\', '"': '"', "'": "'"}
    while i < len(body):
        c = body[i]
        if c != '\\':
            out.append(c)
            i += 1
            continue
        e = body[i + 1]
        if e in simple:
            out.append(simple[e])
            i += 2
        elif e == 'x':
            out.append(chr(int(body[i + 2:i + 4], 16)))
            i += 4
        elif e == 'u':
            j = body.index('}', i)
            out.append(chr(int(body[i + 3:j].replace('_', ''), 16)))
            i = j + 1
        else:
            raise ExtractError('unsupported construct: string escape \\%s' % e)
    return out


def rust_char(c):
    if c == '\\':
        return "'\\\\'"
    if c == "'":
        return "'\\''"
    if c == '\n':
        return "'\\n'"
    if c == '\t':
        return "'\\t'"
    if c == '\r':
        return "'\\r'"
    if c == '\0':
        return "'\\0'"
    if ord(c) < 0x20 or ord(c) == 0x7f:
        return "'\\u{%x}'" % ord(c)
    return "'" + c + "'"


class Extractor:
    def __init__(self, repo_root):
        self.repo = repo_root
        self.sources = {}
        self.counts = {}
        self.items = []  # report: dicts
        self.out = []    # list of (segments, src) per emitted item, with wrappers

    def source(self, rel):
        if rel not in self.sources:
            import os
            p = os.path.join(self.repo, rel)
            try:
                text = open(p, encoding='utf-8').read()
            except OSError as e:
                raise ExtractError('lost anchor: cannot read %s: %s' % (p, e))
            try:
                self.sources[rel] = Source(rel, text)
            except LexError as e:
                raise ExtractError('cannot lex %s: %s' % (rel, e))
        return self.sources[rel]

    def strlit_lemma(self, rel, const_name, lemma_name):
        """Generated from the source on every run: a proved (reveal_strlit) broadcast lemma giving the characters
        of the string literal that initialises `const NAME: &str = LITERAL;`."""
        src = self.source(rel)
        (start, kwi, end), _w = src.find(['const ' + const_name])
        toks = src.toks
        lit = None
        for k in range(kwi, end + 1):
            if toks[k].kind == 'str':
                lit = toks[k].text
        if lit is None:
            raise ExtractError('lost anchor: string literal of const %s in %s' % (const_name, rel))
        chars = decode_str_literal(lit)
        seq = 'seq![' + ', '.join(rust_char(c) for c in chars) + ']' if chars else 'Seq::<char>::empty()'
        return ('pub broadcast proof fn %s()\n    ensures #[trigger] %s@ == %s,\n{\n    reveal_strlit(%s);\n    assert(%s@ =~= %s);\n}\n'
                % (lemma_name, const_name, seq, lit, const_name, seq))

    def extract(self, rel, path, spec=None, keep_attrs=False):
        """Extract one item. `path` like ['impl Operator', 'fn precedence'] or ['fn eval'].
        Returns the rendered text plus a map of inserted clause ranges."""
        src = self.source(rel)
        (start, kwi, end), wrappers = src.find(path)
        toks = src.toks
        segs = Segs(src)
        kind = toks[kwi].text
        name = ' / '.join(path)
        if not keep_attrs:
            _attr_edits(src, segs, start, kwi, self.counts, bool((spec or {}).get('drop_derives')), tuple((spec or {}).get('drop_derive_names') or ()))
        if kind in ('enum', 'struct'):
            _inner_attr_edits(src, segs, kwi, end, self.counts)
        spec = spec or {}
        # per-item extension of rule 'drop-attr': inner attributes named in spec['drop_inner_attrs'] (e.g. `#[default]`, the marker of
        # a `derive(Default)` that the item drops) are dropped from the variants / fields of this enum / struct
        if kind in ('enum', 'struct') and spec.get('drop_inner_attrs'):
            k = kwi
            while k < end:
                if toks[k].text == '#' and toks[k + 1].text == '[' and toks[k + 2].text in spec['drop_inner_attrs']:
                    e = match_close(toks, k + 1)
                    segs.rewrite(toks[k].start, toks[e].end, '', 'drop-attr')
                    self.counts['drop-attr'] = self.counts.get('drop-attr', 0) + 1
                    k = e + 1
                else:
                    k += 1
        # Rule 'raw-ident-rename': a raw identifier such as `r#type` is renamed consistently in every extracted item of the
        # unit (Verus 0.2026.09.13 aborts in its SMT encoding on a field or parameter called `r#type`); a pure renaming
        for old_id, new_id in (spec.get('rename_idents') or {}).items():
            for k in range(start, end + 1):
                if toks[k].kind == 'ident' and toks[k].text == old_id:
                    segs.rewrite(toks[k].start, toks[k].end, new_id, 'raw-ident-rename')
                    self.counts['raw-ident-rename'] = self.counts.get('raw-ident-rename', 0) + 1
        if kind == 'const' and spec.get('static_str'):
            # Rule 'const-str-static': `const X: &str` -> `const X: &'static str` (the elided lifetime of a const IS 'static)
            k = kwi
            done = False
            while k < end:
                if toks[k].text == '&' and toks[k + 1].kind == 'ident' and toks[k + 1].text == 'str':
                    segs.insert(toks[k + 1].start, "'static ", name + '/const-str-static', order=0)
                    self.counts['const-str-static'] = self.counts.get('const-str-static', 0) + 1
                    done = True
                    break
                k += 1
            if not done:
                raise ExtractError('lost anchor: `&str` in const %s' % name)
        if kind == 'struct' and spec.get('pub_fields'):
            _pub_fields(src, segs, kwi, end, self.counts, name)
        if spec.get('vis'):
            m = kwi
            while m > start and toks[m - 1].kind == 'ident' and toks[m - 1].text in MODIFIERS:
                m -= 1
            if toks[m].text != 'pub' and not (m > start and toks[m - 1].text == ')'):
                segs.insert(toks[m].start, spec['vis'] + ' ', name + '/vis', order=9)
                self.counts['widen-visibility'] = self.counts.get('widen-visibility', 0) + 1
        if kind == 'fn':
            FnSplicer(src, segs, rel + '::' + '::'.join(_step_name(p) for p in path), self.counts).splice(start, kwi, end, spec)
        elif kind in ('trait', 'impl') and spec.get('methods'):
            # spec for trait method declarations
            bopen = kwi
            while toks[bopen].text != '{':
                bopen += 1
            for mname, mspec in spec['methods'].items():
                hit = None
                for idx, k, nm in src._scan_items(bopen + 1, end):
                    if k == 'fn' and nm == mname:
                        hit = idx
                if hit is None:
                    raise ExtractError('lost anchor: trait method %s in %s' % (mname, name))
                ms = src._item_start(hit, bopen + 1)
                me = src._item_end(hit, end)
                FnSplicer(src, segs, rel + '::' + name + '::' + mname, self.counts).splice(ms, hit, me, mspec)
            if spec.get('trait_extra'):
                segs.insert(toks[bopen].end, '\n' + spec['trait_extra'] + '\n', name + '/trait-extra')
        else:
            for a in spec.get('attrs', []):
                segs.insert(toks[start].start, a + '\n', name + '/attr')
        a, b = toks[start].start, toks[end].end
        body = segs.render(a, b)
        pre = []
        post = []
        for (ws, wk, wopen, wend) in wrappers:
            pre.append(('src', toks[wk].start, toks[wopen].end))
            pre.append(('ins', '\n', 'wrap'))
            if spec.get('keep_assoc_types'):
                # the associated types of the enclosing trait impl (`type Error = ..;`) come along, verbatim from the source:
                # without them the impl is not an impl of the trait
                k = wopen + 1
                while k < wend:
                    if toks[k].text in OPEN:
                        k = match_close(toks, k)
                    elif toks[k].kind == 'ident' and toks[k].text == 'type' and toks[k - 1].text in ('{', ';', '}', ']'):
                        k2 = k
                        while toks[k2].text != ';':
                            k2 += 1
                        pre.append(('src', toks[k].start, toks[k2].end))
                        pre.append(('ins', '\n', 'wrap'))
                        k = k2
                    k += 1
            post.insert(0, ('ins', '\n', 'wrap'))
            post.insert(0, ('src', toks[wend].start, toks[wend].end))
        if spec.get('lift') and wrappers:
            # Rule 'nested-item-lifted': an item declared inside a function body (a local struct / impl) is emitted at
            # module level; items do not capture anything from the enclosing function, so this changes visibility only
            pre = []
            post = []
            self.counts['nested-item-lifted'] = self.counts.get('nested-item-lifted', 0) + 1
        if spec.get('wrapper'):
            # the enclosing impl header is replaced by the given one (e.g. a trait impl checked as an inherent impl)
            pre = [('ins', spec['wrapper'] + ' {\n', name + '/impl-header-override')]
            post = [('ins', '\n}', name + '/impl-header-override')]
            self.counts['impl-header-override'] = self.counts.get('impl-header-override', 0) + 1
        # reorder: wrappers outermost first
        allsegs = pre + body + post
        self.items.append({'file': rel, 'item': name, 'kind': kind,
                           'src_bytes': b - a,
                           'line': src.text.count('\n', 0, toks[kwi].start) + 1})
        self._check_verbatim(src, body, a, b)
        return src, allsegs

    @staticmethod
    def _check_verbatim(src, segs, a, b):
        rebuilt = []
        for s in segs:
            if s[0] == 'src':
                rebuilt.append(src.text[s[1]:s[2]])
            elif s[0] == 'rw':
                rebuilt.append(src.text[s[1]:s[2]])
        if ''.join(rebuilt) != src.text[a:b]:
            raise ExtractError('verbatim check failed for an item of %s' % src.path)


def seg_text(src, s):
    if s[0] == 'src':
        return src.text[s[1]:s[2]]
    if s[0] == 'ins':
        return s[1]
    return s[3]


def render(src, segs, base_offset, clause_map, item_name):
    """Concatenate segments; record output ranges of inserted clauses."""
    out = []
    pos = base_offset
    for s in segs:
        if s[0] == 'src':
            t = src.text[s[1]:s[2]]
            clause_map.append((pos, pos + len(t), 'src', item_name, s[1]))
        elif s[0] == 'ins':
            t = s[1]
            clause_map.append((pos, pos + len(t), 'ins', s[2], None))
        else:
            t = s[3]
            clause_map.append((pos, pos + len(t), 'rw', s[4], s[1]))
        out.append(t)
        pos += len(t)
    return ''.join(out)
