# Unit paramexp: how one parameter expansion is put together (kernel of C01).
PM = 'yash-semantics/src/expansion/initial/param.rs'
MOD_HEAD = '''    use vstd::prelude::*;
'''
L0 = 'old(env).log@'
L1 = 'final(env).log@'
N0 = L0 + '.len() as int'
RES = L1 + '[' + N0 + ']'
UNIT = {
    'name': 'paramexp',
    'property': 'C01',
    'rlimit': 80,
    'verus_args': ['--edition=2024'],
    'vacuity_floor': 1,
    'rename_idents': {'r#type': 'verif_type'},
    'items': [
        ('@raw', 'pub mod pe {\n' + MOD_HEAD),
        ('yash-env/src/option.rs', ['enum State']),
        ('@raw', 'pub use State::Off;\n'),
        ('@file', 'prelude.rs'),
        (PM, ['struct ParamRef'], {}),
        (PM, ["impl<S: Runtime + 'static> Expand<S> for ParamRef<'_>", 'fn expand'], {'ret': 'r', 'rewrites': ['strip-async'],
            'token_rewrites': [
                ('let resolve = resolve :: resolve ( env . inner , self . param , self . location ) ; let mut value = resolve . into_owned ( ) ;', 'let mut value = verif_resolve(env, self.param, self.location);'),
                ('value . as_ref ( )', 'verif_as_ref(&value)'),
                ('match & mut value { None => value = Some ( Value :: scalar ( "0" ) ) , Some ( Value :: Scalar ( v ) ) => to_length ( v ) , Some ( Value :: Array ( vs ) ) => vs . iter_mut ( ) . for_each ( to_length ) , }', 'verif_to_lengths(&mut value)'),
            ],
            'ensures': [
                'final(env).will_split == old(env).will_split',
                # the parameter is resolved exactly once, first
                L1 + '.len() >= ' + N0 + ' + 1', L1 + '.subrange(0, ' + N0 + ') =~= ' + L0, RES + ' is Resolved', '(' + RES + '->Resolved_param) == self.param.verif_id',
                # no switch: an unset parameter under nounset is the error UnsetParameter, and nothing else happens
                '!(self.modifier is Switch) && (' + RES + '->Resolved_value) is None && old(env).inner.options.verif_nounset ==> ' + L1 + '.len() == ' + N0 + ' + 1 && (r is Err && (r->Err_0).cause is UnsetParameter)',
                # a switch is consulted exactly once, with the resolved value; when it answers, that is the expansion (so `${x-}`
                # is no nounset error); nothing is trimmed or measured
                'self.modifier is Switch ==> ' + L1 + '.len() == ' + N0 + ' + 2 && (' + L1 + '[' + N0 + ' + 1] matches Ev::SwitchApplied { switch, param, value, answered } && switch == (self.modifier->Switch_0).verif_id && param == self.param.verif_id && value == (' + RES + '->Resolved_value))',
                # `${#x}`: the length of the value (0 for an unset one, when that is no error)
                '(self.modifier is Length && r is Ok && !(' + RES + '->Resolved_value is None && old(env).inner.options.verif_nounset)) ==> ' + L1 + '.len() == ' + N0 + ' + 1',
                # a trim modifier is applied once, to a set value only
                '(self.modifier is Trim && (' + RES + '->Resolved_value) is Some) ==> ' + L1 + '.len() == ' + N0 + ' + 2 && (' + L1 + '[' + N0 + ' + 1] matches Ev::Trimmed { trim, before, after, ok } && trim == (self.modifier->Trim_0).verif_id && before == ((' + RES + '->Resolved_value)->0) && (r is Ok ==> ok))',
                # the result without modifier: the fields of the value; `$*` in a non-splitting context: ONE field joined with IFS
                '(self.modifier is None && r is Ok && !(self.param.verif_type == ParamType::Special(SpecialParam::Asterisk) && !old(env).will_split)) ==> (r->Ok_0).verif_p == phrase_of(' + RES + '->Resolved_value)',
                '(self.modifier is None && r is Ok && self.param.verif_type == ParamType::Special(SpecialParam::Asterisk) && !old(env).will_split) ==> (r->Ok_0).verif_p == joined(phrase_of(' + RES + '->Resolved_value), old(env).inner.variables.verif_ifs)',
                '(self.modifier is Length && r is Ok && !(self.param.verif_type == ParamType::Special(SpecialParam::Asterisk) && !old(env).will_split)) ==> (r->Ok_0).verif_p == phrase_of(Some(match ' + RES + '->Resolved_value { Some(v) => length_of(v), None => zero_value() }))',
            ]}),
        ('@raw', '}\n'),
    ],
}
