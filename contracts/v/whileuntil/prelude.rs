// ---------------------------------------------------------------------------
// Prelude of unit whileuntil (property C02, kernel): yash-semantics/src/command/compound_command/while_loop.rs execute_while /
// execute_until - the two entries of the loop executor.
// C02 "while/until": a `while` loop goes on while its condition SUCCEEDS, an `until` loop while it FAILS: the two entries hand
// exactly their condition and body to the common loop (execute_common -> Loop::execute / iterate: unit whileloop), once, with the
// expected outcome of the condition `true` for while and `false` for until; the result is the loop's.
//
// Hand-written model text (ASSUMED): execute_common is an opaque call recorded in a ghost log (its frame handling and the
// transfer of the loop's status to `$?` are NOT under contract here).
// ---------------------------------------------------------------------------
pub trait Runtime {}
pub struct List { pub verif_id: int }
pub struct Divert { pub verif_opaque: u8 }
pub type Result = std::ops::ControlFlow<Divert, ()>;
pub struct LoopRun { pub condition: int, pub expected: bool, pub body: int, pub result: Result }
pub struct Env<S> { pub log: Ghost<Seq<LoopRun>>, pub system: S }
#[verifier::external_body]
pub fn execute_common<S>(env: &mut Env<S>, condition_command: &List, expected_condition: bool, body: &List) -> (r: Result)
    ensures final(env).log@ == old(env).log@.push(LoopRun { condition: condition_command.verif_id, expected: expected_condition, body: body.verif_id, result: r })
{ unimplemented!() }
