// specification module of unit typesetvars: the event type, `requests` and its push lemma (a module of its own: Verus rejects a
// module-level `broadcast use` of a lemma defined in the same module)
pub mod yash_env { pub mod variable {
    use vstd::prelude::*;
    verus! {
    #[derive(Clone, Copy, PartialEq, Eq)]
    pub enum Scope { Global, Local, Volatile }
    pub uninterp spec fn portable_ro(name: Seq<char>) -> bool;
    #[verifier::external_body]
    pub fn is_portable_readonly_variable_name(name: &String) -> (r: bool) ensures r == portable_ro(name@) { unimplemented!() }
    }
} }
pub enum VEv { Requested { name: Seq<char>, scope: yash_env::variable::Scope }, Assigned { ok: bool }, MadeReadOnly, Exported { on: bool } }
/// the requests in a log, in order
pub open spec fn requests(log: Seq<VEv>) -> Seq<(Seq<char>, yash_env::variable::Scope)> decreases log.len() {
    if log.len() == 0 { Seq::empty() } else { let r = requests(log.drop_last()); match log.last() { VEv::Requested { name, scope } => r.push((name, scope)), _ => r } }
}
pub broadcast proof fn lemma_requests_push(log: Seq<VEv>, e: VEv)
    ensures #[trigger] requests(log.push(e)) == (match e { VEv::Requested { name, scope } => requests(log).push((name, scope)), _ => requests(log) })
{ assert(log.push(e).drop_last() =~= log); }
