//! Kani harnesses for property C15 (the single-threaded executor), injected as a child module of
//! yash-executor/src/lib.rs.  Bounded stand-in: small task systems whose tasks follow SYMBOLIC scripts are run on the
//! real `Executor`; a monitor shared by the scripted futures asserts the clauses of the property on every call the
//! executor makes:
//!   * a task is never polled after it completed, and never re-entrantly;
//!   * a task woken since it last returned pending (also while it was being polled, by itself or by another task) is
//!     polled again: when the run loop stalls no unfinished task has an unconsumed wake-up and the queue is empty;
//!   * a task is queued at most once however often it is woken (queue length <= number of tasks);
//!   * FIFO: between a wake-up of a task and its poll, at most (number of tasks - 1) other polls happen;
//!   * a spawned task's result reaches its receiver exactly once.
#![allow(dead_code, unused_imports)]
use super::*;
use crate::forwarder::TryReceiveError;
use alloc::boxed::Box;
use alloc::rc::Rc;
use core::cell::RefCell;
use core::future::Future;
use core::pin::Pin;
use core::task::{Context, Poll, Waker};

const MAXN: usize = 3;

struct Monitor<'a> {
    n: usize,
    /// woken since the last time the task returned pending (a new task counts as woken: spawning queues it)
    woken: [bool; MAXN],
    done: [bool; MAXN],
    /// polls of other tasks since this task's unconsumed wake-up
    age: [usize; MAXN],
    polling: Option<usize>,
    parked: [Option<Waker>; MAXN],
    executor: Option<Executor<'a>>,
    polls: usize,
}

type Mon<'a> = Rc<RefCell<Monitor<'a>>>;

#[derive(Clone, Copy)]
enum Action {
    /// wake oneself, return pending
    Yield,
    /// park the waker, return pending (waits for a signal)
    Wait,
    /// wake the parked waker of another task (if any), then yield
    Signal(usize),
    /// wake oneself twice and the parked waker of oneself, return pending (duplicate wakes)
    WakeTwice,
    Complete,
}

fn any_action(n: usize) -> Action {
    match kani::any::<u8>() % 5 {
        0 => Action::Yield,
        1 => Action::Wait,
        2 => {
            let j: usize = kani::any();
            kani::assume(j < n);
            Action::Signal(j)
        }
        3 => Action::WakeTwice,
        _ => Action::Complete,
    }
}

struct Scripted<'a, const K: usize> {
    id: usize,
    mon: Mon<'a>,
    steps: [Action; K],
    pc: usize,
}

fn note_wake(m: &mut Monitor<'_>, j: usize) {
    if !m.done[j] && !m.woken[j] {
        m.woken[j] = true;
        m.age[j] = 0;
    }
}

impl<'a, const K: usize> Future for Scripted<'a, K> {
    type Output = ();
    fn poll(mut self: Pin<&mut Self>, cx: &mut Context<'_>) -> Poll<()> {
        let id = self.id;
        let mon = Rc::clone(&self.mon);
        {
            let mut m = mon.borrow_mut();
            assert!(!m.done[id], "a task is never polled after it completed");
            assert!(m.polling.is_none(), "a task is never polled re-entrantly");
            m.polling = Some(id);
            m.woken[id] = false;
            m.polls += 1;
            let n = m.n;
            let mut j = 0;
            while j < n {
                if j != id && m.woken[j] && !m.done[j] {
                    m.age[j] += 1;
                    assert!(m.age[j] <= n - 1, "FIFO: a woken task is not overtaken by more than the other tasks once each");
                }
                j += 1;
            }
            if let Some(e) = &m.executor {
                assert!(e.wake_count() <= n, "a task is queued at most once however often it is woken");
            }
        }
        let action = if self.pc < K { self.steps[self.pc] } else { Action::Complete };
        self.pc += 1;
        let r = match action {
            Action::Yield => {
                note_wake(&mut mon.borrow_mut(), id);
                cx.waker().wake_by_ref();
                Poll::Pending
            }
            Action::Wait => {
                mon.borrow_mut().parked[id] = Some(cx.waker().clone());
                Poll::Pending
            }
            Action::Signal(j) => {
                let w = mon.borrow_mut().parked[j].take();
                if let Some(w) = w {
                    note_wake(&mut mon.borrow_mut(), j);
                    w.wake();
                }
                note_wake(&mut mon.borrow_mut(), id);
                cx.waker().wake_by_ref();
                Poll::Pending
            }
            Action::WakeTwice => {
                note_wake(&mut mon.borrow_mut(), id);
                cx.waker().wake_by_ref();
                cx.waker().clone().wake();
                let w = mon.borrow_mut().parked[id].take();
                if let Some(w) = w {
                    w.wake();
                }
                Poll::Pending
            }
            Action::Complete => {
                mon.borrow_mut().done[id] = true;
                Poll::Ready(())
            }
        };
        {
            let mut m = mon.borrow_mut();
            if let Some(e) = &m.executor {
                assert!(e.wake_count() <= m.n, "a task is queued at most once however often it is woken");
            }
            m.polling = None;
        }
        r
    }
}

fn stalled_ok(mon: &Mon<'_>, executor: &Executor<'_>) {
    let m = mon.borrow();
    assert!(executor.wake_count() == 0, "the run loop stalls only with an empty queue");
    let mut i = 0;
    while i < m.n {
        assert!(m.done[i] || !m.woken[i], "no lost wake-up: when the loop stalls every unfinished task is waiting for a wake-up that has not happened");
        i += 1;
    }
}

fn run_system<const N: usize, const K: usize>() {
    let executor = Executor::new();
    let mon: Mon<'_> = Rc::new(RefCell::new(Monitor {
        n: N,
        woken: [true; MAXN],
        done: [false; MAXN],
        age: [0; MAXN],
        polling: None,
        parked: [None, None, None],
        executor: Some(executor.clone()),
        polls: 0,
    }));
    let mut i = 0;
    while i < N {
        let mut steps = [Action::Complete; K];
        let mut k = 0;
        while k < K {
            steps[k] = any_action(N);
            k += 1;
        }
        let task = Scripted::<K> { id: i, mon: Rc::clone(&mon), steps, pc: 0 };
        unsafe { executor.spawn_pinned(Box::pin(task)) };
        i += 1;
    }
    let completed = executor.run_until_stalled();
    stalled_ok(&mon, &executor);
    // one round of wake-ups from outside, in a symbolic choice
    let mut woke = false;
    let mut i = 0;
    while i < N {
        if kani::any() {
            let w = mon.borrow_mut().parked[i].take();
            if let Some(w) = w {
                note_wake(&mut mon.borrow_mut(), i);
                w.wake();
                woke = true;
            }
        }
        i += 1;
    }
    let completed2 = if woke { executor.run_until_stalled() } else { 0 };
    stalled_ok(&mon, &executor);
    let mut done = 0;
    let mut i = 0;
    while i < N {
        if mon.borrow().done[i] {
            done += 1;
        }
        i += 1;
    }
    assert!(completed + completed2 == done, "run_until_stalled counts the tasks that completed");
    // break the reference cycle monitor -> executor -> tasks -> monitor without running drop glue under CBMC
    core::mem::forget(mon);
    core::mem::forget(executor);
}

#[kani::proof]
#[kani::unwind(12)]
fn c15q_two_tasks_two_actions() {
    run_system::<2, 2>();
}

#[kani::proof]
#[kani::unwind(14)]
fn c15t_two_tasks_three_actions() {
    run_system::<2, 3>();
}

#[kani::proof]
#[kani::unwind(14)]
fn c15t_three_tasks_two_actions() {
    run_system::<3, 2>();
}

/// "delivers each spawned task's result to its receiver exactly once"
#[kani::proof]
#[kani::unwind(8)]
fn c15q_result_delivered_once() {
    let executor = Executor::new();
    let v: u8 = kani::any();
    let yields: bool = kani::any();
    let receiver = unsafe {
        executor.spawn(async move {
            if yields {
                YieldOnce(false).await;
            }
            v
        })
    };
    assert!(receiver.try_receive() == Err(TryReceiveError::NotSent), "nothing is delivered before the task has run");
    executor.run_until_stalled();
    assert!(receiver.try_receive() == Ok(v), "the result reaches the receiver");
    assert!(receiver.try_receive() == Err(TryReceiveError::AlreadyReceived), "and only once");
    core::mem::forget(receiver);
    core::mem::forget(executor);
}

struct YieldOnce(bool);
impl Future for YieldOnce {
    type Output = ();
    fn poll(mut self: Pin<&mut Self>, cx: &mut Context<'_>) -> Poll<()> {
        if self.0 {
            Poll::Ready(())
        } else {
            self.0 = true;
            cx.waker().wake_by_ref();
            Poll::Pending
        }
    }
}

/// negative control: must be refuted (a task that parks itself and is never signalled IS left unfinished)
#[kani::proof]
#[kani::unwind(8)]
fn c15x_control_everything_completes() {
    let executor = Executor::new();
    let mon: Mon<'_> = Rc::new(RefCell::new(Monitor {
        n: 1, woken: [true; MAXN], done: [false; MAXN], age: [0; MAXN], polling: None, parked: [None, None, None], executor: None, polls: 0,
    }));
    let task = Scripted::<1> { id: 0, mon: Rc::clone(&mon), steps: [Action::Wait], pc: 0 };
    unsafe { executor.spawn_pinned(Box::pin(task)) };
    let completed = executor.run_until_stalled();
    assert!(completed == 1, "control: a parked task completes (false)");
    core::mem::forget(mon);
    core::mem::forget(executor);
}

// native replay of a Kani counterexample (bin/vcheck replay): the generated test is included here
#[cfg(verif_playback)]
include!("/verif/work/k/playback/executor_harness.rs");
