// ---------------------------------------------------------------------------
// Prelude of unit compounddispatch (property C02, kernel): yash-semantics/src/command/compound_command.rs, `impl Command for
// CompoundCommand` - which executor runs for which compound command, and with which of its parts.
// C02 "brace groups, subshells, if/while/until/for/case": a brace group runs its list here, in the CURRENT environment, once; a
// subshell goes to the subshell executor with exactly its body; `while` and `until` go to the two different entries of the loop
// executor, each with its own condition and body (not swapped); `for`, `if`, `case` go to their executors with exactly their
// parts; exactly one executor runs, once, and its result is the result.
//
// Hand-written model text (ASSUMED): the executors (units subshellcmd, forloop, whileloop, condframe, casecmd have the real
// ones) and List::execute (unit cmdlist) are opaque calls recorded in a ghost log; the component types are opaque values with
// identities; `r#else` is renamed (rule raw-ident-rename).
// ---------------------------------------------------------------------------
use std::rc::Rc;
pub trait Runtime {}
pub struct Location { pub verif_opaque: u8 }
pub struct Word { pub verif_id: int }
pub struct List { pub verif_id: int }
pub struct ElifThen { pub verif_id: int }
pub struct CaseItem { pub verif_id: int }
pub struct Divert { pub verif_opaque: u8 }
pub type Result = std::ops::ControlFlow<Divert, ()>;
pub enum Ev {
    ListHere { list: int }, Subshell { body: int }, For { name: int, values: Option<Seq<int>>, body: int },
    While { condition: int, body: int }, Until { condition: int, body: int },
    If { condition: int, body: int, elifs: Seq<int>, else_: Option<int> }, Case { subject: int, items: Seq<int> },
}
pub struct Env<S> { pub log: Ghost<Seq<(Ev, Result)>>, pub system: S }
pub open spec fn word_ids(w: Seq<Word>) -> Seq<int> { Seq::new(w.len(), |i: int| w[i].verif_id) }
pub open spec fn elif_ids(w: Seq<ElifThen>) -> Seq<int> { Seq::new(w.len(), |i: int| w[i].verif_id) }
pub open spec fn item_ids(w: Seq<CaseItem>) -> Seq<int> { Seq::new(w.len(), |i: int| w[i].verif_id) }
impl List {
    /// command.rs List::execute (unit cmdlist): in the environment it is given
    #[verifier::external_body]
    pub fn execute<S>(&self, env: &mut Env<S>) -> (r: Result) ensures final(env).log@ == old(env).log@.push((Ev::ListHere { list: self.verif_id }, r)) { unimplemented!() }
}
impl Clone for List { #[verifier::external_body] fn clone(&self) -> (r: List) ensures r == *self { unimplemented!() } }
pub mod subshell { use super::*;
    #[verifier::external_body]
    pub fn execute<S>(env: &mut Env<S>, body: Rc<List>, location: &Location) -> (r: Result) ensures final(env).log@ == old(env).log@.push((Ev::Subshell { body: body.verif_id }, r)) { unimplemented!() }
}
pub mod for_loop { use super::*;
    #[verifier::external_body]
    pub fn execute<S>(env: &mut Env<S>, name: &Word, values: &Option<Vec<Word>>, body: &List) -> (r: Result)
        ensures final(env).log@ == old(env).log@.push((Ev::For { name: name.verif_id, values: match values { Some(v) => Some(word_ids(v@)), None => None }, body: body.verif_id }, r)) { unimplemented!() }
}
pub mod while_loop { use super::*;
    #[verifier::external_body]
    pub fn execute_while<S>(env: &mut Env<S>, condition: &List, body: &List) -> (r: Result) ensures final(env).log@ == old(env).log@.push((Ev::While { condition: condition.verif_id, body: body.verif_id }, r)) { unimplemented!() }
    #[verifier::external_body]
    pub fn execute_until<S>(env: &mut Env<S>, condition: &List, body: &List) -> (r: Result) ensures final(env).log@ == old(env).log@.push((Ev::Until { condition: condition.verif_id, body: body.verif_id }, r)) { unimplemented!() }
}
pub mod verif_if { use super::*;
    #[verifier::external_body]
    pub fn execute<S>(env: &mut Env<S>, condition: &List, body: &List, elifs: &Vec<ElifThen>, else_: &Option<List>) -> (r: Result)
        ensures final(env).log@ == old(env).log@.push((Ev::If { condition: condition.verif_id, body: body.verif_id, elifs: elif_ids(elifs@), else_: match else_ { Some(l) => Some(l.verif_id), None => None } }, r)) { unimplemented!() }
}
pub mod case { use super::*;
    #[verifier::external_body]
    pub fn execute<S>(env: &mut Env<S>, subject: &Word, items: &Vec<CaseItem>) -> (r: Result) ensures final(env).log@ == old(env).log@.push((Ev::Case { subject: subject.verif_id, items: item_ids(items@) }, r)) { unimplemented!() }
}
