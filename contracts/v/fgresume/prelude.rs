// ---------------------------------------------------------------------------
// Prelude of unit fgresume (properties C12 / C13, kernel): yash-builtin/src/fg.rs resume_job_by_index and should_interrupt.
// C12 "across every history of jobs being ... resumed, finished, reported and removed"; C13 "every child is reaped exactly
// once": `fg` resumes only a job of this shell that is under job control (otherwise nothing happens at all); a job that has
// already finished is reported and REMOVED without any signal being sent or anything being awaited; a live job is put in the
// foreground BEFORE it is sent SIGCONT (to its process group), then awaited exactly once until it halts, then the shell takes
// the terminal back; afterwards the job is removed from the table exactly when it has finished - a job that stopped again stays;
// the result handed on is the one the awaited child reported.
//
// Hand-written model text (ASSUMED): Env::get_tty, the system calls tcsetpgrp / kill / write_all, Env::wait_for_subshell_to_halt
// (unit waitsub), tcsetpgrp_with_block, JobList indexing and JobList::remove (unit joblist) are opaque calls recorded in a ghost
// log; the expansion of `#[from]` for ResumeError; `format!` + write_all of the job name is one helper.
// ---------------------------------------------------------------------------
pub mod signal { #[derive(Clone, Copy, Debug, Eq, PartialEq)] pub struct Number(pub i32); }
#[derive(Clone, Copy, Debug, Eq, PartialEq)] pub struct Pid(pub i32);
impl std::ops::Neg for Pid { type Output = Pid; #[verifier::external_body] fn neg(self) -> (r: Pid) ensures r == neg_pid(self) { unimplemented!() } }
pub uninterp spec fn neg_pid(p: Pid) -> Pid;
#[derive(Clone, Copy)] pub struct Fd(pub i32);
#[derive(Clone, Copy)] pub struct Errno(pub i32);
#[derive(Clone, Copy, Debug, Eq, PartialEq)] pub struct ExitStatus(pub i32);
pub enum ResumeError { Unowned, Unmonitored, SystemError(Errno) }
impl From<Errno> for ResumeError { fn from(e: Errno) -> (r: ResumeError) ensures r == ResumeError::SystemError(e) { ResumeError::SystemError(e) } }
impl vstd::std_specs::convert::FromSpecImpl<Errno> for ResumeError {
    open spec fn obeys_from_spec() -> bool { true }
    open spec fn from_spec(e: Errno) -> ResumeError { ResumeError::SystemError(e) }
}
pub enum Ev {
    Wrote, Foreground { tty: Fd, pgid: Pid, ok: bool }, Kill { target: Pid, cont: bool, ok: bool },
    Waited { pid: Pid, result: Option<ProcessResult> }, ShellForeground { tty: Fd, pgid: Pid, ok: bool }, Removed { index: usize },
}
pub trait Sys { const SIGCONT: signal::Number; }
pub struct System<S> { pub log: Ghost<Seq<Ev>>, pub verif_s: core::marker::PhantomData<S> }
impl<S: Sys> System<S> {
    #[verifier::external_body]
    pub fn tcsetpgrp(&mut self, tty: Fd, pgid: Pid) -> (r: Result<(), Errno>)
        ensures final(self).log@ == old(self).log@.push(Ev::Foreground { tty, pgid, ok: r is Ok }) { unimplemented!() }
    #[verifier::external_body]
    pub fn kill(&mut self, target: Pid, signal: Option<signal::Number>) -> (r: Result<(), Errno>)
        ensures final(self).log@ == old(self).log@.push(Ev::Kill { target, cont: signal == Some(S::SIGCONT), ok: r is Ok }) { unimplemented!() }
}
/// `let line = format!("{}\n", job.name); env.system.write_all(Fd::STDOUT, line.as_bytes()).await?; drop(line);` up to the `?`
#[verifier::external_body]
pub fn verif_write_name<S>(system: &mut System<S>, name: &String) -> (r: Result<(), Errno>)
    ensures final(system).log@ == old(system).log@.push(Ev::Wrote) { unimplemented!() }
/// job.rs tcsetpgrp_with_block
#[verifier::external_body]
pub fn tcsetpgrp_with_block<S>(system: &mut System<S>, tty: Fd, pgid: Pid) -> (r: Result<(), Errno>)
    ensures final(system).log@ == old(system).log@.push(Ev::ShellForeground { tty, pgid, ok: r is Ok }) { unimplemented!() }
pub struct JobList { pub jobs: Ghost<Map<usize, Job>> }
impl JobList {
    /// `&env.jobs[index]` (Index for JobList panics on a free index: the caller hands in an index JobId::find answered)
    #[verifier::external_body]
    pub fn verif_at(&self, index: usize) -> (r: &Job) requires self.jobs@.contains_key(index) ensures *r == self.jobs@[index] { unimplemented!() }
}
pub struct Env<S> { pub jobs: JobList, pub system: System<S>, pub main_pgid: Pid, pub verif_interactive: bool, pub verif_sigint_default: bool, pub verif_tty: Option<Fd> }
impl<S: Sys> Env<S> {
    /// lib.rs Env::get_tty: the terminal of the shell, if it has one (a lookup; where it is made plays no role)
    #[verifier::external_body]
    pub fn get_tty(&mut self) -> (r: Result<Fd, Errno>)
        ensures *final(self) == *old(self), (match r { Ok(fd) => Some(fd), Err(_) => None::<Fd> }) == old(self).verif_tty { unimplemented!() }
    /// lib.rs Env::wait_for_subshell_to_halt (unit waitsub): the status of the table may be updated (the job's state), no job appears or disappears
    #[verifier::external_body]
    pub fn wait_for_subshell_to_halt(&mut self, target: Pid) -> (r: Result<(Pid, ProcessResult), Errno>)
        ensures final(self).system.log@ == old(self).system.log@.push(Ev::Waited { pid: target, result: match r { Ok(p) => Some(p.1), Err(_) => None } }),
            final(self).jobs.jobs@.dom() == old(self).jobs.jobs@.dom(), final(self).main_pgid == old(self).main_pgid, final(self).verif_tty == old(self).verif_tty { unimplemented!() }
    #[verifier::external_body]
    pub fn is_interactive(&self) -> (r: bool) ensures r == self.verif_interactive { unimplemented!() }
    #[verifier::external_body]
    pub fn sigint_has_default_action(&self) -> (r: bool) ensures r == self.verif_sigint_default { unimplemented!() }
}
/// JobList::remove (unit joblist), with the removal recorded
#[verifier::external_body]
pub fn verif_remove<S>(env: &mut Env<S>, index: usize)
    ensures final(env).system.log@ == old(env).system.log@.push(Ev::Removed { index }), final(env).jobs.jobs@ == old(env).jobs.jobs@.remove(index), final(env).main_pgid == old(env).main_pgid, final(env).verif_tty == old(env).verif_tty
{ unimplemented!() }
pub trait SigInt { const SIGINT: signal::Number; }
impl vstd::std_specs::cmp::PartialEqSpecImpl for signal::Number {
    open spec fn obeys_eq_spec() -> bool { true }
    open spec fn eq_spec(&self, other: &signal::Number) -> bool { *self == *other }
}
/// the events of resuming a live job, from position n on: the report, (the terminal handed to the job,) SIGCONT, ONE wait, (the
/// terminal taken back,) and the removal exactly when the job has finished
pub open spec fn resumed(l: Seq<Ev>, n: int, has_tty: bool, pid: Pid, main_pgid: Pid, index: usize, res: ProcessResult) -> bool {
    l.len() >= n + 3 && l[n] is Wrote && ({
        let k = if has_tty { n + 2 } else { n + 1 };
        // the terminal is handed to the job BEFORE the signal
        (has_tty ==> (l[n + 1] matches Ev::Foreground { tty, pgid, ok } && pgid == pid && ok))
        && l[k] == (Ev::Kill { target: neg_pid(pid), cont: true, ok: true })
        && l[k + 1] == (Ev::Waited { pid, result: Some(res) })
        && (has_tty ==> l.len() > k + 2 && (l[k + 2] matches Ev::ShellForeground { tty, pgid, ok } && pgid == main_pgid && ok))
        && ({ let m = if has_tty { k + 3 } else { k + 2 };
              if res is Stopped { l.len() == m } else { l.len() == m + 1 && l[m] == (Ev::Removed { index }) } })
    })
}
impl vstd::std_specs::ops::NegSpecImpl for Pid {
    open spec fn obeys_neg_spec() -> bool { true }
    open spec fn neg_req(self) -> bool { true }
    open spec fn neg_spec(self) -> Pid { neg_pid(self) }
}
