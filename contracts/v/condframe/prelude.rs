// ---------------------------------------------------------------------------
// Prelude of unit condframe (properties C10 and C02): WHERE the exempt contexts of errexit are entered - the places
// that push Frame::Condition (yash-semantics/src/command/compound_command.rs evaluate_condition, pipeline.rs `!`,
// and_or.rs) - and the short-circuit step of and-or lists.
//
// Hand-written model text (ASSUMED): executing commands is an opaque call that may return any result and leave any
// exit status; every such call appends a record to a ghost log of the environment: which commands were run (an
// abstract identity), and with which runtime stack.  `Env` is reduced to `exit_status`, `options`, `stack` and that
// log; the frame guard of the code (`EnvFrameGuard`, which pops the frame when dropped) is extracted as it is, its
// implicit `Drop` at the end of a scope is NOT seen by Verus (the postconditions below speak about the stack DURING
// the calls; that push-then-drop restores the stack is the separate contract of `Drop for EnvFrameGuard`).  Await
// points are dropped.
// ---------------------------------------------------------------------------
#[derive(Clone, Debug, Eq, PartialEq)]
pub struct Field { pub verif_opaque: u8 }

/// `?` on a ControlFlow value (ASSUMED contracts of core: Continue(c) goes on with c, Break(b) returns Break(b))
pub assume_specification<B, C>[ <ControlFlow<B, C> as core::ops::Try>::branch ](cf: ControlFlow<B, C>) -> (r: ControlFlow<<ControlFlow<B, C> as core::ops::Try>::Residual, <ControlFlow<B, C> as core::ops::Try>::Output>)
    ensures match cf { ControlFlow::Continue(c) => r == ControlFlow::<ControlFlow<B, core::convert::Infallible>, C>::Continue(c), ControlFlow::Break(b) => r == ControlFlow::<ControlFlow<B, core::convert::Infallible>, C>::Break(ControlFlow::Break(b)) };
pub assume_specification<B, C>[ <ControlFlow<B, C> as core::ops::FromResidual<ControlFlow<B, core::convert::Infallible>>>::from_residual ](res: ControlFlow<B, core::convert::Infallible>) -> (r: ControlFlow<B, C>)
    ensures res matches ControlFlow::Break(b) ==> r == ControlFlow::<B, C>::Break(b);

pub trait Runtime {}
/// the trait of everything that can be executed (yash-semantics/src/command.rs; async in the code)
pub trait Command<S> { fn execute(&self, env: &mut Env<S>) -> Result; }
/// one execution of a piece of syntax: which one, with which stack, with which $? before and after, and what came out
pub struct Run { pub what: int, pub stack: Seq<Frame>, pub status_before: ExitStatus, pub status_after: ExitStatus, pub result: Result }
pub struct OptionSet { pub verif_noexec: bool }
pub enum ShellOption { Exec, Interactive, Other(u8) }
pub use ShellOption::{Exec, Interactive};
impl OptionSet {
    /// the shell is not interactive and has the noexec option (set -n)
    pub open spec fn noexec(&self) -> bool { self.verif_noexec }
    #[verifier::external_body]
    pub fn get(&self, option: ShellOption) -> (r: State)
        ensures self.noexec() ==> (option is Exec || option is Interactive ==> r == State::Off),
            !self.noexec() ==> !(self.get_spec(ShellOption::Exec) == State::Off && self.get_spec(ShellOption::Interactive) == State::Off),
            r == self.get_spec(option)
    { unimplemented!() }
    pub uninterp spec fn get_spec(&self, option: ShellOption) -> State;
}
impl vstd::std_specs::cmp::PartialEqSpecImpl for AndOr {
    open spec fn obeys_eq_spec() -> bool { true }
    open spec fn eq_spec(&self, other: &AndOr) -> bool { *self == *other }
}
impl vstd::std_specs::cmp::PartialEqSpecImpl for State {
    open spec fn obeys_eq_spec() -> bool { true }
    open spec fn eq_spec(&self, other: &State) -> bool { *self == *other }
}
pub struct Env<S> { pub exit_status: ExitStatus, pub options: OptionSet, pub stack: Stack, pub verif_log: Ghost<Seq<Run>>, pub system: S }

/// a command list / the commands of a pipeline, reduced to an identity
pub struct List { pub verif_id: int }
pub struct SyntaxCommand { pub verif_id: int }
pub struct Pipeline { pub commands: Vec<Rc<SyntaxCommand>>, pub negation: bool }
pub mod syntax { pub use super::{List, Pipeline}; pub use super::SyntaxCommand as Command; }
pub uninterp spec fn commands_id_u(c: Seq<Rc<SyntaxCommand>>) -> int;
impl List {
    #[verifier::external_body]
    pub fn execute<S>(&self, env: &mut Env<S>) -> (r: Result)
        ensures ran(*old(env), *final(env), self.verif_id, r)
    { unimplemented!() }
}
/// the commands of a pipeline (single command in the current environment, or several in subshells connected by pipes)
#[verifier::external_body]
pub fn execute_commands_in_pipeline<S>(env: &mut Env<S>, commands: &[Rc<SyntaxCommand>]) -> (r: Result)
    ensures ran(*old(env), *final(env), commands_id_u(commands@), r)
{ unimplemented!() }
/// what an opaque execution does: one more record in the log - what ran, with the stack it ran with - any exit
/// status, and the stack and options as they were
pub open spec fn ran<S>(before: Env<S>, after: Env<S>, what: int, r: Result) -> bool {
    &&& after.verif_log@ == before.verif_log@.push(Run { what, stack: before.stack.inner@, status_before: before.exit_status, status_after: after.exit_status, result: r })
    &&& after.stack.inner@ == before.stack.inner@
    &&& after.options == before.options
}
/// an elif-then clause (yash-syntax ElifThen, with the reduced List above)
pub struct ElifThen { pub condition: List, pub body: List }
/// an and-or list (yash-syntax AndOrList, with the reduced Pipeline above)
pub struct AndOrList { pub first: Pipeline, pub rest: Vec<(AndOr, Pipeline)> }
/// model of `slice.iter().peekable()` (std Peekable over a slice iterator; ASSUMED to behave like this index walk)
pub struct VerifPeek<'a, T> { pub s: &'a Vec<T>, pub k: usize }
impl<'a, T> VerifPeek<'a, T> {
    #[verifier::external_body]
    pub fn new(v: &'a Vec<T>) -> (r: Self) ensures r.s == v, r.k == 0 { unimplemented!() }
    #[verifier::external_body]
    pub fn next(&mut self) -> (r: Option<&'a T>)
        ensures final(self).s == old(self).s,
            old(self).k < old(self).s@.len() ==> r == Some(&old(self).s@[old(self).k as int]) && final(self).k == old(self).k + 1,
            old(self).k >= old(self).s@.len() ==> r is None && final(self).k == old(self).k
    { unimplemented!() }
    #[verifier::external_body]
    pub fn peek(&mut self) -> (r: Option<&&'a T>)
        ensures final(self).s == old(self).s, final(self).k == old(self).k, r is Some <==> old(self).k < old(self).s@.len()
    { unimplemented!() }
}
/// `drop(guard)`: std::mem::drop runs the destructor; the rewrite calls the destructor body (checked above) directly
/// the run happened in an exempt context directly above `base`: its stack is base, then a Condition frame, then
/// possibly more
pub open spec fn exempt_run(e: Run, base: Seq<Frame>) -> bool {
    &&& e.stack.len() > base.len()
    &&& e.stack[base.len() as int] == Frame::Condition
    &&& forall|i: int| 0 <= i < base.len() ==> e.stack[i] == base[i]
}
/// a is b without its last element
pub open spec fn popped(a: Seq<Frame>, b: Seq<Frame>) -> bool {
    a.len() + 1 == b.len() && forall|i: int| 0 <= i < a.len() ==> #[trigger] a[i] == b[i]
}
/// std::mem::drop: the value is gone (ASSUMED no other effect than its destructor, which the contract of push_frame accounts for)
pub assume_specification<T>[ core::mem::drop::<T> ](x: T);
/// the log has only grown
pub open spec fn extends_runs(new: Seq<Run>, old: Seq<Run>) -> bool {
    old.len() <= new.len() && forall|i: int| 0 <= i < old.len() ==> #[trigger] new[i] == old[i]
}
/// a condition that ran in an exempt context directly above `base`, ended normally and did not hold
pub open spec fn failed_condition(e: Run, base: Seq<Frame>) -> bool {
    exempt_run(e, base) && e.result is Continue && e.status_after.0 != 0
}
pub open spec fn plain_or_negated(e: Run, base: Seq<Frame>, negation: bool) -> bool {
    e.stack == (if negation { base.push(Frame::Condition) } else { base })
}

impl ExitStatus {
    pub const SUCCESS: ExitStatus = ExitStatus(0);
    pub const FAILURE: ExitStatus = ExitStatus(1);
}
/// ASSUMED contract of Vec::pop followed by unwrap on a non-empty vector is vstd's; `Option::unwrap` needs Some
