// ---------------------------------------------------------------------------
// Prelude of unit trapbi (property C11, kernel): yash-builtin/src/trap.rs - Command::execute and its helper set_action: what the
// `trap` built-in asks of the trap table.
// C11 "after any sequence of `trap` commands ... the disposition actually installed for each signal is the one implied by the
// user's trap action": `trap action cond...` asks the table (TrapSet::set_action: unit trap has the real one) for exactly this
// action, once per condition, in the order of the operands, for exactly these conditions and no other; an initially ignored
// signal may be overridden exactly in an interactive shell; every refusal comes back as an error naming its condition and
// operand, in order, and does not stop the remaining conditions; printing traps sets nothing.
//
// Hand-written model text (ASSUMED): TrapSet::set_action is an opaque call recorded in a ghost log; Action is an opaque value
// whose clone is equal; the display functions are opaque and set nothing; the expansion of `#[from]` of thiserror.
// ---------------------------------------------------------------------------
#[derive(Clone, Copy)] pub struct Condition(pub i32);
pub struct Location { pub verif_opaque: u8 }
impl Clone for Location { #[verifier::external_body] fn clone(&self) -> (r: Location) ensures r == *self { unimplemented!() } }
pub struct Field { pub verif_id: int, pub origin: Location }
pub struct Action { pub verif_id: int }
impl Clone for Action { #[verifier::external_body] fn clone(&self) -> (r: Action) ensures r == *self { unimplemented!() } }
#[derive(Clone, Copy)] pub struct SetActionError(pub u8);
pub enum ErrorCause { UnsupportedSignal, SetAction(SetActionError) }
impl From<SetActionError> for ErrorCause { fn from(e: SetActionError) -> (r: ErrorCause) ensures r == ErrorCause::SetAction(e) { ErrorCause::SetAction(e) } }
impl vstd::std_specs::convert::FromSpecImpl<SetActionError> for ErrorCause {
    open spec fn obeys_from_spec() -> bool { true }
    open spec fn from_spec(e: SetActionError) -> ErrorCause { ErrorCause::SetAction(e) }
}
pub struct Error { pub cause: ErrorCause, pub cond: Condition, pub field: Field }
pub trait SignalSystem {}
pub struct Asked { pub cond: Condition, pub action: Action, pub override_ignore: bool, pub refused: Option<SetActionError> }
pub struct TrapSet { pub asked: Ghost<Seq<Asked>> }
impl TrapSet {
    /// trap.rs TrapSet::set_action (unit trap)
    #[verifier::external_body]
    pub fn set_action<S: SignalSystem>(&mut self, system: &S, cond: Condition, action: Action, origin: Location, override_ignore: bool) -> (r: Result<(), SetActionError>)
        ensures final(self).asked@ == old(self).asked@.push(Asked { cond, action, override_ignore, refused: match r { Ok(_) => None, Err(e) => Some(e) } })
    { unimplemented!() }
}
pub enum ShellOption { Interactive, Other(u8) }
pub use ShellOption::Interactive;
#[derive(Clone, Copy, PartialEq, Eq)] pub enum State { On, Off }
pub use State::On;
impl vstd::std_specs::cmp::PartialEqSpecImpl for State {
    open spec fn obeys_eq_spec() -> bool { true }
    open spec fn eq_spec(&self, other: &State) -> bool { *self == *other }
}
pub struct OptionSet { pub verif_interactive: bool }
impl OptionSet {
    #[verifier::external_body]
    pub fn get(&self, o: ShellOption) -> (r: State) ensures o is Interactive ==> (r == State::On <==> self.verif_interactive) { unimplemented!() }
}
pub struct Env<S> { pub traps: TrapSet, pub options: OptionSet, pub system: S }
/// trap.rs display_all_traps / display_trap: they look at the table (peek_state) and set no action
#[verifier::external_body]
pub fn display_all_traps<S: SignalSystem>(traps: &mut TrapSet, system: &S, include_default: bool) -> (r: String) ensures final(traps).asked@ == old(traps).asked@ { unimplemented!() }
#[derive(Debug)] pub struct FmtError;
#[verifier::external_body]
pub fn display_trap<S: SignalSystem>(traps: &mut TrapSet, system: &S, cond: Condition, include_default: bool, output: &mut String) -> (r: Result<(), FmtError>)
    ensures final(traps).asked@ == old(traps).asked@, r is Ok { unimplemented!() }
/// the requests `trap action c0 c1 ...` makes, in order
pub open spec fn requests(asked: Seq<Asked>, from: int, conds: Seq<(Condition, Field)>, action: Action, ov: bool) -> bool {
    asked.len() == from + conds.len() && forall|k: int| 0 <= k < conds.len() ==> (#[trigger] asked[from + k]).cond == conds[k].0 && asked[from + k].action == action && asked[from + k].override_ignore == ov
}
/// the refusals among the first n requests, in order, as (condition, operand) pairs
pub open spec fn refusals(asked: Seq<Asked>, from: int, conds: Seq<(Condition, Field)>, n: int) -> Seq<(Condition, int)>
    decreases n
{
    if n <= 0 { Seq::empty() } else {
        let rest = refusals(asked, from, conds, n - 1);
        if asked[from + n - 1].refused is Some { rest.push((conds[n - 1].0, conds[n - 1].1.verif_id)) } else { rest }
    }
}
pub open spec fn err_ids(errors: Seq<Error>) -> Seq<(Condition, int)> { Seq::new(errors.len(), |i: int| (errors[i].cond, errors[i].field.verif_id)) }
pub proof fn lemma_refusals_prefix(a0: Seq<Asked>, a1: Seq<Asked>, from: int, conds: Seq<(Condition, Field)>, n: int)
    requires n >= 0, from >= 0, a0.len() >= from + n, a1.len() >= a0.len(), forall|k: int| 0 <= k < a0.len() ==> a1[k] == a0[k]
    ensures refusals(a1, from, conds, n) == refusals(a0, from, conds, n)
    decreases n
{ if n > 0 { lemma_refusals_prefix(a0, a1, from, conds, n - 1); } }
