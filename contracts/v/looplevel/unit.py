# Unit looplevel: how many loops break / continue leave (kernel of property C02).
SEM = 'yash-env/src/semantics.rs'
STACK = 'yash-env/src/stack.rs'
BI = 'yash-env/src/builtin.rs'
BR = 'yash-builtin/src/break/semantics.rs'
CO = 'yash-builtin/src/continue/semantics.rs'
MOD_HEAD = '''    use vstd::prelude::*;
    use std::ops::ControlFlow;
    use std::ffi::c_int;
'''
LEVELS = '(if loops_in_context(stack.inner@) < max_count.value() { loops_in_context(stack.inner@) } else { max_count.value() })'
def run_spec(variant):
    return {'ret': 'r',
        'ensures': [
            # outside any loop of the current execution environment the built-in is an error
            'r is Err <==> loops_in_context(stack.inner@) == 0',
            # otherwise it asks the interpreter to leave min(n, enclosing loops) loops: the divert counts the FURTHER loops to leave
            'r matches Ok(b) ==> b.divert == ControlFlow::<Divert, ()>::Break(Divert::%s { count: (%s - 1) as usize }) && b.exit_status == ExitStatus(0)' % (variant, LEVELS),
        ]}
UNIT = {
    'name': 'looplevel',
    'property': 'C02',
    'rlimit': 60,
    'verus_args': ['--edition=2024'],
    'vacuity_floor': 2,
    'items': [
        ('@raw', 'pub mod trap { #[derive(Clone, Debug, Eq, PartialEq)] pub struct Condition { pub verif_opaque: u8 } }\npub mod semantics { pub type Result<T = ()> = std::ops::ControlFlow<crate::ll::Divert, T>; }\npub use ll::builtin::Result;\n'),
        ('@raw', 'pub mod ll {\n' + MOD_HEAD),
        (SEM, ['struct ExitStatus']),
        (SEM, ['enum Divert']),
        (STACK, ['struct Builtin']),
        (STACK, ['enum Frame']),
        (STACK, ['struct Stack'], {'pub_fields': True}),
        ('@raw', 'pub mod builtin {\n    use super::*;\n'),
        (BI, ['struct Result'], {'pub_fields': True}),
        (BI, ['impl Result', 'fn with_exit_status_and_divert'], {'ret': 'r',
            'ensures': ['r.exit_status == exit_status', 'r.divert == divert']}),
        ('@raw', '}\n'),
        ('@file', 'prelude.rs'),
        ('@raw', 'pub mod brk {\n    use super::*;\n'),
        (BR, ['enum Error'], {}),
        (BR, ['type Result'], {}),
        (BR, ['fn run'], run_spec('Break')),
        ('@raw', '}\npub mod cont {\n    use super::*;\n    pub use super::brk::{Error, Result};\n'),
        (CO, ['fn run'], run_spec('Continue')),
        ('@raw', '}\n'),
        ('@raw', '}\n'),
    ],
}
