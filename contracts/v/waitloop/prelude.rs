// ---------------------------------------------------------------------------
// Prelude of unit waitloop (property C13, kernel): yash-builtin/src/wait/status.rs wait_while_running - the loop of the wait built-in.
// C13 "`wait` ... report each child's true exit status ... the shell terminates without deadlock": the job table is asked FIRST
// (a child that has already finished is never waited for - waiting for it would block for ever), then the shell waits for a job
// or trap event and asks again, strictly alternating; the answer is exactly the status the first conclusive look at the table
// gave; an error or a trap that interrupts the waiting ends it at once and is handed on.
//
// Hand-written model text (ASSUMED): the test of the job table (the closures of job_status / any_job_is_running: unit
// k/waitstatus, bounded) is a value with a `call` method, wait_for_any_job_or_trap (unit waitcore) an opaque call; both are
// recorded in a ghost log.  Termination is not decided (it depends on the children).
// ---------------------------------------------------------------------------
use std::ops::ControlFlow;
#[derive(Clone, Copy, Debug, Eq, PartialEq)] pub struct ExitStatus(pub i32);
pub struct Error { pub verif_opaque: u8 }
pub enum Ev { Looked { answer: Option<ExitStatus> }, Waited { ok: bool } }
pub struct JobList { pub log: Ghost<Seq<Ev>> }
pub struct Env<S> { pub jobs: JobList, pub system: S }
pub trait JobTest {
    fn call(&mut self, jobs: &mut JobList) -> (r: ControlFlow<ExitStatus>)
        ensures final(jobs).log@ == old(jobs).log@.push(Ev::Looked { answer: match r { ControlFlow::Break(s) => Some(s), ControlFlow::Continue(_) => None } });
}
/// wait/core.rs wait_for_any_job_or_trap (unit waitcore)
#[verifier::external_body]
pub fn wait_for_any_job_or_trap<S>(env: &mut Env<S>) -> (r: Result<(), Error>)
    ensures final(env).jobs.log@ == old(env).jobs.log@.push(Ev::Waited { ok: r is Ok })
{ unimplemented!() }
/// looks and waits alternate from position `from` on, beginning with a look; every look but possibly the last was inconclusive,
/// every wait but possibly the last went well
pub open spec fn alternating(l: Seq<Ev>, from: int) -> bool {
    forall|k: int| from <= k < l.len() ==> (if (k - from) % 2 == 0 { (#[trigger] l[k]) is Looked && (k + 1 < l.len() ==> l[k] == (Ev::Looked { answer: None })) } else { l[k] is Waited && (k + 1 < l.len() ==> l[k] == (Ev::Waited { ok: true })) })
}
