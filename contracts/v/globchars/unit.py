# Unit globchars: field characters -> pattern characters for pathname expansion (kernel of property C05).
GL = 'yash-semantics/src/expansion/glob.rs'
ATTR = 'yash-env/src/semantics/expansion/attr.rs'
MOD_HEAD = '''    use vstd::prelude::*;
    use vstd::std_specs::iter::IteratorSpec;
'''
UNIT = {
    'name': 'globchars',
    'property': 'C05',
    'rlimit': 60,
    'verus_args': ['--edition=2024'],
    'controls': 'auto',
    'vacuity_floor': 1,
    'items': [
        ('@raw', 'pub mod gc {\n' + MOD_HEAD),
        (ATTR, ['enum Origin']),
        (ATTR, ['struct AttrChar']),
        ('@file', 'prelude.rs'),
        (GL, ['fn to_pattern', 'struct Chars'], {'pub_fields': True, 'vis': 'pub', 'drop_derives': 'all', 'lift': True}),
        (GL, ['fn to_pattern', "impl Iterator for Chars<'_>", 'fn next'], {'ret': 'r',
            'wrapper': "impl<'a> Chars<'a>",
            'token_rewrites': [('for c in & mut self . inner {',
                'while let Some(c) = self.inner.next()\n'
                '                invariant\n'
                '                    self.inner.obeys_prophetic_iter_laws(), self.inner.decrease() is Some,\n'
                '                    self.inner.remaining().len() <= old(self).inner.remaining().len(),\n'
                '                    self.inner.remaining() == old(self).inner.remaining().skip(old(self).inner.remaining().len() - self.inner.remaining().len()),\n'
                '                    all_quoting(old(self).inner.remaining().take(old(self).inner.remaining().len() - self.inner.remaining().len())),\n'
                '                    self.inner.remaining().len() < old(self).inner.remaining().len() ==> !self.next_quoted,\n'
                '                    self.inner.remaining().len() == old(self).inner.remaining().len() ==> self.next_quoted == old(self).next_quoted,\n'
                '                ensures\n'
                '                    self.inner.remaining().len() == 0, all_quoting(old(self).inner.remaining().take(old(self).inner.remaining().len() as int)),\n'
                '                decreases self.inner.decrease()->0,\n'
                '            {')],
            'ghost_before': [('None', 'proof { assert(old(self).inner.remaining().take(old(self).inner.remaining().len() as int) =~= old(self).inner.remaining()); }')],
            'requires': ['old(self).inner.obeys_prophetic_iter_laws()', 'old(self).inner.decrease() is Some'],
            'ensures': [
                # every quoting character is skipped; the first other character is what the item stands for, and the rest is left
                'r matches Some(pc) ==> exists|k: int| 0 <= k < old(self).inner.remaining().len() && all_quoting(old(self).inner.remaining().take(k)) '
                '&& !(#[trigger] old(self).inner.remaining()[k]).is_quoting && pc.value() == old(self).inner.remaining()[k].value '
                '&& final(self).inner.remaining() == old(self).inner.remaining().skip(k + 1) '
                # C05: a quoted character, the result of a tilde expansion, and the character after an unquoted backslash are literal
                '&& (protected(*old(self).inner.remaining()[k]) ==> pc is Literal) '
                '&& (k == 0 && old(self).next_quoted ==> pc is Literal) '
                # ... and nothing else is: an unquoted character of the source or of a soft expansion keeps its special meaning
                '&& (pc is Literal ==> protected(*old(self).inner.remaining()[k]) || (k == 0 && old(self).next_quoted)) '
                # an unquoted backslash protects the next character
                '&& final(self).next_quoted == (pc is Normal && pc.value() == \'\\\\\')',
                'r is None ==> all_quoting(old(self).inner.remaining()) && final(self).inner.remaining().len() == 0',
            ]}),
        ('@raw', '}\n'),
    ],
}
