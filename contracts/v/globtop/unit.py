# Unit globtop: the top of pathname expansion (kernel of C05).
GL = 'yash-semantics/src/expansion/glob.rs'
MOD_HEAD = '''    use vstd::prelude::*;
    use std::ops::ControlFlow::{self, Break, Continue};
'''
S0 = 'old(env).searches@'
UNIT = {
    'name': 'globtop',
    'property': 'C05',
    'rlimit': 60,
    'verus_args': ['--edition=2024'],
    'vacuity_floor': 1,
    'items': [
        ('@raw', 'pub mod gt {\n' + MOD_HEAD),
        ('yash-env/src/option.rs', ['enum State']),
        ('@raw', 'pub use State::Off;\n'),
        ('@file', 'prelude.rs'),
        (GL, ['fn glob'], {'ret': 'r',
            'entry_ghost': 'let ghost verif_chars = field.chars@;',
            'token_rewrites': [
                ('env . options . get ( yash_env :: option :: Option :: Glob )', 'env.options.get(ShellOption::Glob)'),
                ('Inner :: from ( field . remove_quotes_and_strip ( ) )', 'Inner::from_field(field.remove_quotes_and_strip())', 2),
                ('Inner :: from ( interrupted )', 'Inner::from_interrupted(interrupted)'),
                ('String :: with_capacity ( 1024 )', 'verif_new_prefix()'),
                ('results . sort_unstable_by ( | a , b | a . value . cmp ( & b . value ) ) ;', 'verif_sort(&mut results);', '*'),
                ('Inner :: Many ( results . into_iter ( ) )', 'Inner::Many(results)'),
            ],
            'ensures': [
                # noglob: nothing is searched; the field itself with quotes removed
                'old(env).options.verif_noglob ==> final(env).searches@ == ' + S0 + ' && (r.inner matches Inner::One(Ok(f)) && f.verif_value == unquoted(field.chars@))',
                # otherwise one search over the characters of the field
                '!old(env).options.verif_noglob ==> final(env).searches@ == ' + S0 + '.push(field.chars@)',
                # nothing found: the field itself with quotes removed; something found: exactly those fields, sorted
                'r.inner matches Inner::One(Ok(f)) ==> f.verif_value == unquoted(field.chars@)',
                'r.inner matches Inner::Many(v) ==> v@.len() > 0 && (forall|i: int, j: int| 0 <= i < j < v@.len() ==> le_value(#[trigger] v@[i].verif_value, #[trigger] v@[j].verif_value))',
            ]}),
        ('@raw', '}\n'),
    ],
}
