// ---------------------------------------------------------------------------
// Prelude of unit returnbi (property C02, kernel): the `return` built-in (yash-builtin/src/return.rs main).
// "`return` leaves only the innermost function": the built-in asks for it with Divert::Return(status) - which loops,
// and-or lists and if commands hand on unchanged (units whileloop, forloop, condframe) and execute_function_body
// absorbs (unit funcall) - carrying the operand as the status to return with (None: `$?` as it is); `$?` itself is left
// alone by the built-in; with -n nothing is left and the operand only becomes the status; a malformed call (two
// operands, a negative or non-numeric operand, an unknown option) is an error and asks for no return.
//
// Hand-written model text (ASSUMED): parse_arguments (bounded-checked by the Kani unit optparse for C20) answers the
// options and operands of the argument vector - here only that every option it hands out is `-n`, the one the table of
// this built-in lists -; the two error reporters are opaque calls that answer a result without a Return divert;
// `str::parse::<i32>` is an uninterpreted helper.  Await points are dropped.
// ---------------------------------------------------------------------------
pub struct Location { pub verif_opaque: u8 }
pub struct Field { pub value: String, pub origin: Location }
pub struct ParseIntError { pub verif_opaque: u8 }
pub struct ParseError { pub verif_opaque: u8 }
pub struct Mode { pub verif_opaque: u8 }
pub struct OptionSpecTable { pub verif_opaque: u8 }
pub struct OptionSpec { pub verif_short: Option<char> }
pub struct OptionOccurrence { pub spec: OptionSpec }
pub trait Isatty {}
pub trait WriteAll {}
pub struct Env<S> { pub exit_status: ExitStatus, pub verif_errors: Ghost<nat>, pub system: S }
impl OptionSpec {
    pub fn get_short(&self) -> (r: Option<char>) ensures r == self.verif_short { self.verif_short }
}
impl Mode {
    #[verifier::external_body]
    pub fn with_env<S>(env: &Env<S>) -> Mode { unimplemented!() }
}
/// the option table of the built-in: one option, `-n` / `--no-return`
#[verifier::external_body]
pub const OPTION_SPECS: OptionSpecTable = OptionSpecTable { verif_opaque: 0 };
/// what the argument vector says (uninterpreted): the operands and whether -n was given
pub uninterp spec fn args_operands(args: Seq<Field>) -> Seq<Field>;
pub uninterp spec fn args_no_return(args: Seq<Field>) -> bool;
/// the argument vector is well-formed for the option parser (no unknown option ...)
pub uninterp spec fn args_parse_ok(args: Seq<Field>) -> bool;
#[verifier::external_body]
pub fn parse_arguments(specs: OptionSpecTable, mode: Mode, args: Vec<Field>) -> (r: std::result::Result<(Vec<OptionOccurrence>, Vec<Field>), ParseError>)
    ensures r is Ok <==> args_parse_ok(args@), r matches Ok(p) ==> p.1@ == args_operands(args@) && (forall|i: int| 0 <= i < p.0@.len() ==> (#[trigger] p.0@[i]).spec.verif_short == Some('n')) && (args_no_return(args@) <==> p.0@.len() > 0)
{ unimplemented!() }
/// an error result: reported, and never a Return divert
pub open spec fn error_result(r: Result) -> bool { !(r.divert matches ControlFlow::Break(Divert::Return(_))) && r.exit_status.0 != 0 }
#[verifier::external_body]
pub fn report_error<S>(env: &mut Env<S>, error: &ParseError) -> (r: Result)
    ensures error_result(r), final(env).exit_status == old(env).exit_status, final(env).verif_errors@ == old(env).verif_errors@ + 1
{ unimplemented!() }
#[verifier::external_body]
pub fn syntax_error<S>(env: &mut Env<S>, message: &str, location: &Location) -> (r: Result)
    ensures error_result(r), final(env).exit_status == old(env).exit_status, final(env).verif_errors@ == old(env).verif_errors@ + 1
{ unimplemented!() }
#[verifier::external_body]
pub fn operand_parse_error<S>(env: &mut Env<S>, location: &Location, error: ParseIntError) -> (r: Result)
    ensures error_result(r), final(env).exit_status == old(env).exit_status, final(env).verif_errors@ == old(env).verif_errors@ + 1
{ unimplemented!() }
/// `arg.value.parse()` at type i32 (std; uninterpreted)
pub uninterp spec fn parsed(s: String) -> std::result::Result<i32, ParseIntError>;
#[verifier::external_body]
pub fn verif_parse_i32(s: &String) -> (r: std::result::Result<i32, ParseIntError>) ensures r == parsed(*s) { unimplemented!() }
/// unreachable!(..): must be dead code
#[verifier::external_body]
pub fn verif_unreachable() requires false { unreachable!() }
/// ASSUMED contract of slice::get / slice::first (Option::unwrap_or has one in vstd)
#[verifier::external_body]
pub fn verif_get<T>(v: &Vec<T>, i: usize) -> (r: Option<&T>) ensures r == (if (i as int) < v@.len() { Some(&v@[i as int]) } else { None }) { v.get(i) }
