//! Kani harnesses for the variable printer of `typeset -p` / `export -p` / `readonly -p`
//! (yash-builtin/src/typeset/print_variables.rs print_one, Display for AttributeOption), injected as a child module of that
//! file.  Kernel of property C07 "the listings printed by ... `export -p`, `readonly -p`, `typeset -p` ..., when evaluated by a
//! fresh shell, recreate what they list ... whatever characters the names and values contain".
//! Bounded stand-in: concrete variables; the text printed is compared with the literal line(s) a fresh shell must read to
//! recreate the variable: the built-in name, the attribute options, `-- ` in front of a name that begins with a hyphen
//! (otherwise the name would be read as options) - decided on the NAME, not on its quoted form -, the quoted name, the
//! quoted value; for an array the assignment line followed, when there is an attribute to restore or the built-in itself is
//! the attribute (export, readonly), by the line naming the built-in.
#![allow(dead_code, unused_imports)]
use super::*;

fn var(value: Option<Value>, exported: bool) -> Variable {
    let mut v = Variable::default();
    v.value = value;
    v.is_exported = exported;
    v
}
fn printed_is(name: &str, v: &Variable, context: &PrintContext, want: &str) {
    let mut out = String::new();
    print_one(name, v, &[], context, &mut out);
    assert!(out.len() == want.len(), "length of the listing");
    assert!(out == want, "the listing recreates the variable when read by a fresh shell");
    std::mem::forget(out);
}

#[kani::proof] #[kani::unwind(40)]
fn c07pq_plain_scalar() {
    let v = var(Some(Value::scalar("x")), false);
    printed_is("v", &v, &crate::typeset::PRINT_CONTEXT, "typeset v=x\n");
    std::mem::forget(v);
}
#[kani::proof] #[kani::unwind(40)]
fn c07pq_hyphen_name() {
    let v = var(Some(Value::scalar("x")), false);
    printed_is("-v", &v, &crate::typeset::PRINT_CONTEXT, "typeset -- -v=x\n");
    std::mem::forget(v);
}
#[kani::proof] #[kani::unwind(40)]
fn c07pq_hyphen_name_that_needs_quoting() {
    let v = var(Some(Value::scalar("x")), false);
    printed_is("-v$", &v, &crate::typeset::PRINT_CONTEXT, "typeset -- '-v$'=x\n");
    std::mem::forget(v);
}
// (a harness for an exported ARRAY in the export listing - expected `a=(1)\nexport a\n` - was withdrawn: > 900 s in CBMC; the array
// printer allocates a vector of strings.  The `export NAME` line after an array is therefore NOT checked.)
#[kani::proof] #[kani::unwind(40)]
fn c07pq_valueless_exported() {
    let v = var(None, true);
    printed_is("a", &v, &crate::export::PRINT_CONTEXT, "export a\n");
    std::mem::forget(v);
}
// negative control
#[kani::proof] #[kani::unwind(40)]
fn c07px_control() {
    let v = var(Some(Value::scalar("x")), false);
    printed_is("-v", &v, &crate::typeset::PRINT_CONTEXT, "typeset -v=x\n");
    std::mem::forget(v);
}
