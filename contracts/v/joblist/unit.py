# Unit joblist: yash-env JobList under Verus contracts (property C12).
JOB = 'yash-env/src/job.rs'

MOD_HEAD = '''    use vstd::prelude::*;
    use slab::Slab;
    use std::collections::HashMap;
    use std::num::NonZero;
    use std::ffi::c_int;
    use vstd::std_specs::iter::IteratorSpec;
    use vstd::std_specs::core::IndexSpec;
'''

# The two private selectors are `iter().filter().map().next()` chains.  Verus proves the `Some` half of
# their contracts from vstd's iterator model, but the `None` half ("no such job exists") needs a
# sequence lemma (filter_index of an exhausted filter) that cannot be supplied without a hint inside the
# body.  No hints are spliced into bodies, so the contract is ASSUMED here (external_body) and the same
# contract is checked on the real code by Kani (unit joblist_k, bounded).  Set VERIF_JOBLIST_SELECTORS=verify
# to see the state of the direct proof.
import os
EXT_SELECTOR = [] if os.environ.get('VERIF_JOBLIST_SELECTORS') == 'verify' else ['#[verifier::external_body]']

UNIT = {
    'name': 'joblist',
    'property': 'C12',
    'rlimit': 60,
    'crate_attrs': ['#![feature(panic_internals)]'],
    'verus_args': ['--edition=2024'],
    'externs': {'slab': {'dir': 'slab-0.4.12', 'edition': '2018', 'features': ['std']}},
    # vacuity twin: every contracted fn with a precondition gets `ensures false` appended and must fail
    'controls': 'auto',
    'items': [
        ('@raw', 'pub mod slabspec {\n' + MOD_HEAD),
        ('@file', 'prelude_slab.rs'),
        ('@raw', '}\n'),
        ('@raw', 'pub mod jl {\n' + MOD_HEAD + '    use super::slabspec::*;\n'),
        ('@broadcast', ['super::slabspec::axiom_slab_finite', 'super::slabspec::axiom_slab_index_req', 'Seq::lemma_filter_index']),
        ('@file', 'prelude.rs'),
        (JOB, ['type RawPid']),
        (JOB, ['struct Pid']),
        ('@raw', 'pub mod signal {\n    use vstd::prelude::*;\n    use std::num::NonZero;\n    use std::ffi::c_int;\n'),
        ('yash-env/src/signal.rs', ['type RawNumber']),
        ('yash-env/src/signal.rs', ['struct Number']),
        ('@raw', '}\n'),
        ('yash-env/src/semantics.rs', ['struct ExitStatus']),
        (JOB, ['enum ProcessResult']),
        (JOB, ['impl ProcessResult', 'fn is_stopped'], {'ret': 'b', 'ensures': ['b == self.stopped()']}),
        (JOB, ['enum ProcessState']),
        (JOB, ['impl ProcessState', 'fn is_alive'], {'ret': 'b', 'ensures': ['b == self.alive()']}),
        (JOB, ['impl ProcessState', 'fn is_stopped'], {'ret': 'b', 'ensures': ['b == self.stopped()']}),
        (JOB, ['struct Job']),
        (JOB, ['impl Job', 'fn is_suspended'], {'ret': 'b', 'ensures': ['b == self.state.stopped()']}),
        (JOB, ['struct Iter'], {'attrs': ['#[verifier::external_body]'], 'drop_derives': True}),
        (JOB, ["impl<'a> Iterator for Iter<'a>"], {'attrs': ['#[verifier::external]']}),
        (JOB, ['struct JobList']),
        (JOB, ['impl JobList#0', 'fn iter'], {'attrs': ['#[verifier::external_body]'], 'ret': 'it',
            # assumed contract (slab::Iter is not verified): yields every occupied slot once, in key order
            'ensures': [
                'it.obeys_prophetic_iter_laws()',
                'it.decrease() is Some',
                'iter_yields(it.remaining(), self.jobs_view())',
            ]}),
        (JOB, ['impl JobList#0', 'fn get'], {'ret': 'r', 'ensures': [
            'self.has(index) ==> r == Some(&self.jobs_view()[index])',
            '!self.has(index) ==> r is None']}),
        (JOB, ['impl JobList#0', 'fn len'], {'ret': 'n', 'ensures': ['n == self.jobs_view().dom().len()']}),
        (JOB, ['impl JobList#0', 'fn find_by_pid'], {'ret': 'r',
            'requires': ['vstd::std_specs::hash::obeys_key_model::<Pid>()'],
            'ensures': [
                'self.pids_view().contains_key(pid) ==> r == Some(self.pids_view()[pid])',
                '!self.pids_view().contains_key(pid) ==> r is None',
                # under the invariant: the index of THE job with that pid, None iff there is none
                'self.pids_in_sync() ==> (forall|i: usize| r == Some(i) <==> (self.has(i) && self.jobs_view()[i].pid == pid))',
            ]}),
        (JOB, ['impl std::ops::Index<usize> for JobList'], {'methods': {'index': {'ret': 'r', 'ensures': ['*r == self.jobs_view()[index]']}}}),
        (JOB, ['impl JobList#1', 'fn insert'], {'ret': 'index',
            'requires': [
                'old(self).wf()',
                # from the property's quantifier: the pid is fresh or belongs to a finished job
                'old(self).pids_view().contains_key(job.pid) ==> !old(self).jobs_view()[old(self).pids_view()[job.pid]].state.alive()',
            ],
            'ensures': [
                'final(self).wf()',
                # the new job is at `index`; every other job number holds the job it held (numbers never change)
                'final(self).jobs_view() =~= old(self).jobs_view().insert(index, job)',
                'old(self).pids_view().contains_key(job.pid) ==> index == old(self).pids_view()[job.pid]',
                '!old(self).pids_view().contains_key(job.pid) ==> !old(self).has(index)',
                'final(self).pids_view().contains_key(job.pid) && final(self).pids_view()[job.pid] == index',
                # documented re-selection
                '!old(self).pids_view().contains_key(job.pid) && old(self).cur() is None ==> final(self).cur() == Some(index)',
                '!old(self).pids_view().contains_key(job.pid) && old(self).cur() is Some && !old(self).susp(old(self).cur_idx()) && job.state.stopped() ==> final(self).cur() == Some(index) && final(self).prev() == old(self).cur()',
                '!old(self).pids_view().contains_key(job.pid) && old(self).cur() is Some && (old(self).susp(old(self).cur_idx()) || !job.state.stopped()) ==> final(self).cur() == old(self).cur()',
            ],
            'rewrites': ['match-guard-to-if'],
            'closures': {0: {'rewrite': 'option-map-to-match'}, 1: {'rewrite': 'option-map-to-match'}}}),
        (JOB, ['impl JobList#1', 'fn remove'], {'ret': 'r',
            'requires': ['old(self).wf()'],
            'ensures': [
                'final(self).wf()',
                '!old(self).has(index) ==> r is None && final(self).same_as(old(self))',
                'old(self).has(index) ==> r == Some(old(self).jobs_view()[index])',
                # every other job number holds the job it held
                'old(self).has(index) ==> final(self).jobs_view() =~= old(self).jobs_view().remove(index)',
                # documented: removing the current job promotes the previous job
                'old(self).has(index) && old(self).cur() == Some(index) && (exists|i: usize| final(self).has(i)) ==> final(self).cur() == old(self).prev()',
                'old(self).has(index) && old(self).cur() != Some(index) ==> final(self).cur() == old(self).cur()',
                'old(self).has(index) && old(self).cur() != Some(index) && old(self).prev() != Some(index) ==> final(self).prev() == old(self).prev()',
            ],
            'closures': {0: {'rewrite': 'unwrap-or-else-to-match'}}}),
        (JOB, ['impl JobList#2', 'fn update_status'], {'rewrites': ['bool-or-assign', 'let-chain-last'], 'ret': 'r',
            'requires': ['old(self).wf()'],
            'ensures': [
                'final(self).wf()',
                'old(self).pids_view().contains_key(pid) ==> r == Some(old(self).pids_view()[pid])',
                '!old(self).pids_view().contains_key(pid) ==> r is None && final(self).same_as(old(self))',
                # only that job changes, and only its state, state_changed and expected_state
                'r is Some ==> final(self).jobs_view().dom() =~= old(self).jobs_view().dom()',
                'r is Some ==> forall|i: usize| i != r->0 && old(self).has(i) ==> final(self).jobs_view()[i] == old(self).jobs_view()[i]',
                'r is Some ==> updated_ok(old(self).jobs_view()[r->0], final(self).jobs_view()[r->0], state)',
                'final(self).pids_view() =~= old(self).pids_view()',
            ]}),
        (JOB, ['enum SetCurrentJobError']),
        (JOB, ['impl JobList#3', 'fn set_current_job'], {'ret': 'r',
            'ensures': [
                '!old(self).has(index) ==> r == Err::<(), SetCurrentJobError>(SetCurrentJobError::NoSuchJob) && final(self).same_as(old(self))',
                'old(self).has(index) && !old(self).susp(index) && (exists|i: usize| old(self).susp(i)) ==> r == Err::<(), SetCurrentJobError>(SetCurrentJobError::NotSuspended) && final(self).same_as(old(self))',
                'old(self).has(index) && (old(self).susp(index) || forall|i: usize| !old(self).susp(i)) ==> r is Ok',
                'r is Ok ==> final(self).cur() == Some(index)',
                'r is Ok && old(self).cur() != Some(index) ==> final(self).prev() == old(self).cur()',
                'final(self).jobs_view() == old(self).jobs_view() && final(self).pids_view() == old(self).pids_view()',
                # exact effect on the two selectors (used by `insert`, which calls this on a not yet re-selected table)
                'r is Ok ==> final(self).cur_idx() == index && final(self).prev_idx() == (if index != old(self).cur_idx() { old(self).cur_idx() } else { old(self).prev_idx() })',
                'r is Err ==> final(self).same_as(old(self))',
                'old(self).wf() ==> final(self).wf()',
            ],
            'closures': {0: {'ret': 'b: bool', 'ensures': ['b == p0_t.1.state.stopped()']}},
            }),
        (JOB, ['impl JobList#3', 'fn current_job'], {'ret': 'r', 'ensures': ['r == self.cur()']}),
        (JOB, ['impl JobList#3', 'fn previous_job'], {'ret': 'r', 'ensures': ['r == self.prev()']}),
        (JOB, ['impl JobList#3', 'fn any_suspended_job_but_current'], {'ret': 'r', 'attrs': EXT_SELECTOR, 'ensures': [
            'r is Some ==> r->0 != self.cur_idx() && self.susp(r->0)',
            'r is None ==> forall|i: usize| self.susp(i) ==> i == self.cur_idx()'],
            'closures': {
                0: {'ret': 'keep: bool', 'ensures': ['keep == ((*p0_r).0 != self.current_job_index && (*p0_r).1.state.stopped())']},
                1: {'ret': 'out: usize', 'ensures': ['out == p0_t.0']},
            }}),
        (JOB, ['impl JobList#3', 'fn any_job_but_current'], {'ret': 'r', 'attrs': EXT_SELECTOR, 'ensures': [
            'r is Some ==> r->0 != self.cur_idx() && self.has(r->0)',
            'r is None ==> forall|i: usize| self.has(i) ==> i == self.cur_idx()'],
            'closures': {
                0: {'ret': 'keep: bool', 'ensures': ['keep == ((*p0_r).0 != self.current_job_index)']},
                1: {'ret': 'out: usize', 'ensures': ['out == p0_t.0']},
            }}),
        ('@raw', '}\n'),
    ],
}
