// ---------------------------------------------------------------------------
// Prelude of unit execglue (properties C16 / C11 / C02, kernel): yash-env/src/semantics/command.rs replace_current_process,
// the last step before an external utility runs.
// C16 "the environment handed to executed programs is exactly the exported variables with their current values": the
// environment passed to execve is exactly what VariableSet::env_c_strings answers at that moment (unit varset has its
// contract), the arguments are the fields of the command.  C11 "never catching what should be ... defaulted": the shell's
// internal dispositions are disabled BEFORE the program image is replaced.  C02 / C10: when the utility cannot be
// executed the status left is 127 for "no such file" and 126 otherwise (after one attempt to run it as a shell script
// when the kernel does not recognise its format).
//
// Hand-written model text (ASSUMED): TrapSet::disable_internal_dispositions (unit trap), to_c_strings, env_c_strings,
// execve (which only returns on failure: the irrefutable `let Err(errno) = ...` on a Result<Infallible, Errno> is checked as a
// helper answering the errno) and fall_back_on_sh are opaque calls appending to an event log; the errno constants are model
// constants.  Await points dropped.
// ---------------------------------------------------------------------------
pub trait Exec {} pub trait ShellPath {} pub trait SignalSystem {}
pub struct Location { pub verif_opaque: u8 }
pub struct Field { pub value: String, pub origin: Location, pub verif_id: int }
pub struct CString { pub verif_id: int }
impl Clone for CString { #[verifier::external_body] fn clone(&self) -> (r: CString) ensures r == *self { unimplemented!() } }
pub open spec fn field_ids(s: Seq<Field>) -> Seq<int> { Seq::new(s.len(), |i: int| s[i].verif_id) }
/// `libc` values on this platform (assumed)
impl Errno { pub const ENOEXEC: Errno = Errno(8); pub const ENOENT: Errno = Errno(2); pub const ENOTDIR: Errno = Errno(20); }
pub struct ReplaceCurrentProcessError { pub path: CString, pub errno: Errno }
pub enum Ev { DisabledInternal, Execve { path: int, args: Seq<int>, envs: int }, FellBack { path: int } }
pub struct Env<S> { pub exit_status: ExitStatus, pub log: Ghost<Seq<Ev>>, pub verif_exported: Ghost<int>, pub system: S }
pub struct CArgs { pub verif_fields: Ghost<Seq<int>> }
pub struct CEnvs { pub verif_snapshot: Ghost<int> }
/// `env.traps.disable_internal_dispositions(&env.system)` (unit trap)
#[verifier::external_body]
pub fn verif_disable_internal<S>(env: &mut Env<S>) -> (r: std::result::Result<(), Errno>)
    ensures final(env).log@ == old(env).log@.push(Ev::DisabledInternal), final(env).verif_exported@ == old(env).verif_exported@, final(env).exit_status == old(env).exit_status
{ unimplemented!() }
#[verifier::external_body]
pub fn to_c_strings(args: Vec<Field>) -> (r: CArgs) ensures r.verif_fields@ == field_ids(args@) { unimplemented!() }
/// `env.variables.env_c_strings()` (unit varset): the exported variables, as they are now
#[verifier::external_body]
pub fn verif_env_c_strings<S>(env: &Env<S>) -> (r: CEnvs) ensures r.verif_snapshot@ == env.verif_exported@ { unimplemented!() }
/// `let Err(errno) = env.system.execve(path.as_c_str(), args.as_slice(), envs.as_slice())`: only returns when it failed
#[verifier::external_body]
pub fn verif_execve<S>(env: &mut Env<S>, path: &CString, args: &CArgs, envs: &CEnvs) -> (errno: Errno)
    ensures final(env).log@ == old(env).log@.push(Ev::Execve { path: path.verif_id, args: args.verif_fields@, envs: envs.verif_snapshot@ }),
        final(env).verif_exported@ == old(env).verif_exported@, final(env).exit_status == old(env).exit_status
{ unimplemented!() }
#[verifier::external_body]
pub fn verif_fall_back_on_sh<S>(env: &mut Env<S>, path: CString, args: CArgs, envs: CEnvs)
    ensures final(env).log@ == old(env).log@.push(Ev::FellBack { path: path.verif_id }), final(env).exit_status == old(env).exit_status
{ unimplemented!() }
// ---- run_external_utility_in_subshell ----
pub trait BlockSignals {} pub trait Close {} pub trait Dup {} pub trait Exit {} pub trait Fork {} pub trait GetPid {} pub trait Open {}
pub trait RunBlocking {} pub trait RunUnblocking {} pub trait SendSignal {} pub trait SetPgid {} pub trait SetRlimit {} pub trait TcSetPgrp {}
pub trait Wait {} pub trait WaitForSignals {}
pub struct Divert { pub verif_opaque: u8 }
pub type Result<T = ()> = std::ops::ControlFlow<Divert, T>;
pub use std::ops::ControlFlow::{Break, Continue};
#[derive(Clone, Copy)]
pub struct Pid(pub i32);
#[derive(Clone, Copy)]
pub struct ProcessResult { pub verif_opaque: u8 }
pub struct JobControl { pub verif_opaque: u8 }
pub struct StartSubshellError { pub utility: Field, pub errno: Errno }
impl Clone for Field { #[verifier::external_body] fn clone(&self) -> (r: Field) ensures r.verif_id == self.verif_id { unimplemented!() } }
impl Clone for Location { #[verifier::external_body] fn clone(&self) -> (r: Location) { unimplemented!() } }
/// the two error reporters the caller hands in (function pointers returning boxed futures in the code)
pub struct StartErrorHandler { pub verif_opaque: u8 }
pub struct ExecErrorHandler { pub verif_opaque: u8 }
pub enum XEv { Child { path: int, args: Seq<int>, controls_jobs: bool }, JobStatus { pid: Pid, result: ProcessResult, named: bool, answer: Result<ExitStatus> }, StartErrorReported { utility: int },
    Replaced { path: int, args: Seq<int> }, ExecErrorReported { path: int } }
pub struct XEnv<S> { pub xlog: Ghost<Seq<XEv>>, pub verif_controls_jobs: bool, pub system: S }
impl<S> XEnv<S> {
    #[verifier::external_body]
    pub fn controls_jobs(&self) -> (r: bool) ensures r == self.verif_controls_jobs { unimplemented!() }
}
impl StartErrorHandler {
    #[verifier::external_body]
    pub fn call<S>(&self, env: &mut XEnv<S>, error: StartSubshellError)
        ensures final(env).xlog@ == old(env).xlog@.push(XEv::StartErrorReported { utility: error.utility.verif_id }), final(env).verif_controls_jobs == old(env).verif_controls_jobs
    { unimplemented!() }
}
impl ExecErrorHandler {
    #[verifier::external_body]
    pub fn call<S>(&self, env: &mut XEnv<S>, error: ReplaceCurrentProcessError, location: Location)
        ensures final(env).xlog@ == old(env).xlog@.push(XEv::ExecErrorReported { path: error.path.verif_id })
    { unimplemented!() }
}
#[verifier::external_body]
pub fn to_job_name(args: &Vec<Field>) -> (r: String) { unimplemented!() }
/// replace_current_process (verified above against the event log of Env); here: only returns when it failed, with the path it was given
#[verifier::external_body]
pub fn verif_replace<S>(env: &mut XEnv<S>, path: CString, args: Vec<Field>) -> (e: ReplaceCurrentProcessError)
    ensures final(env).xlog@ == old(env).xlog@.push(XEv::Replaced { path: path.verif_id, args: field_ids(args@) }), e.path == path
{ unimplemented!() }
/// `Config::foreground().start_and_wait(env, <the closure>)` (units subshellstart / startwait)
#[verifier::external_body]
pub fn verif_start_and_wait<S>(env: &mut XEnv<S>, path: &CString, args: &Vec<Field>) -> (r: std::result::Result<(Pid, ProcessResult), Errno>)
    ensures final(env).xlog@ == old(env).xlog@.push(XEv::Child { path: path.verif_id, args: field_ids(args@), controls_jobs: old(env).verif_controls_jobs }), final(env).verif_controls_jobs == old(env).verif_controls_jobs
{ unimplemented!() }
/// job.rs handle_job_status(env, pid, result, || job_name) (unit jobstatus)
#[verifier::external_body]
pub fn verif_handle_job_status<S>(env: &mut XEnv<S>, pid: Pid, result: ProcessResult, job_name: String) -> (r: Result<ExitStatus>)
    ensures final(env).xlog@ == old(env).xlog@.push(XEv::JobStatus { pid, result, named: job_name@.len() > 0, answer: r })
{ unimplemented!() }
