# Unit funcall: calling a function (kernel shared by C02 and C16).
FN = 'yash-semantics/src/command/simple_command/function.rs'
EX = 'yash-semantics/src/command/simple_command/external.rs'
SEM = 'yash-env/src/semantics.rs'
MOD_HEAD = '''    use vstd::prelude::*;
    use std::rc::Rc;
    use std::ops::ControlFlow::{self, Break, Continue};
'''
R0 = 'old(env).verif_runs@'
R1 = 'final(env).verif_runs@'
# the guards passing themselves where `&mut Env` is expected (DerefMut) = the reference they hold
GUARD_REWRITES = [
    # `let env = &mut <temporary guard>;` (lifetime of the temporary extended to the block) = an owning binding; every use
    # below goes through auto-(de)ref and reads the same
    ('let env = & mut RedirGuard :: new ( env ) ;', 'let mut env = RedirGuard::new(env);'),
    ('xtrace . as_mut ( )', 'verif_as_mut(&mut xtrace)', '*'),
    ('e . handle ( env )', 'e.handle(env.env)', '*'),
    ('env . push_context ( Context :: Volatile )', 'env.env.push_context(Context::Volatile)', '*'),
    ('perform_assignments ( & mut env ,', 'perform_assignments(env.env,', '*'),
    ('print ( & mut env , xtrace )', 'print(env.env, xtrace)', '*'),
]
RC = 'final(env).verif_rcalls@'
AC = 'final(env).verif_acalls@'
REDIRS_OK = RC + '.last().ok'
BOTH_OK = '(' + RC + '.last().ok && ' + AC + '.len() == old(env).verif_acalls@.len() + 1 && ' + AC + '.last().ok)'
EXEC_COMMON = [
    # C09: the redirections of the command are performed, once, all of them, first ...
    RC + ' == old(env).verif_rcalls@.push(RCall { ids: redir_ids(redirs@), ok: ' + REDIRS_OK + ' })',
    # ... and when the command is over the redirections in effect are those of before (RAII of the guard assumed), as are
    # the variable contexts (C16: the assignments of the command vanish with it)
    'final(env).verif_redirs@ == old(env).verif_redirs@',
    'final(env).verif_contexts@ =~= old(env).verif_contexts@',
    # a failed redirection: reported once, and nothing else happens - no assignment, no command
    '!' + REDIRS_OK + ' ==> final(env).verif_handled@ == old(env).verif_handled@ + 1 && ' + AC + ' == old(env).verif_acalls@',
    REDIRS_OK + ' ==> final(env).verif_handled@ == old(env).verif_handled@',
    # C16: the assignments are made once, all of them, exported, in a volatile context pushed on top of the caller's,
    # with the redirections in effect
    REDIRS_OK + ' ==> ' + AC + '.len() == old(env).verif_acalls@.len() + 1 && ' + AC + '.last().export && ' + AC + '.last().ids == assign_ids(assigns@)'
    ' && ' + AC + '.last().contexts == old(env).verif_contexts@.push(Context::Volatile) && ' + AC + '.last().redirs == old(env).verif_redirs@ + redir_ids(redirs@)',
    # failed assignments: the divert is handed on
    REDIRS_OK + ' && !' + AC + '.last().ok ==> r is Break',
]
UNIT = {
    'name': 'funcall',
    'property': 'C02',
    'rlimit': 60,
    'verus_args': ['--edition=2024'],
    'controls': 'auto',
    'vacuity_floor': 1,
    'items': [
        ('@raw', 'pub mod fc {\n' + MOD_HEAD),
        ('@file', 'prelude.rs'),
        # the status constants the executors name, from the real table
        (SEM, ['impl ExitStatus#1', 'const NOT_FOUND']), (SEM, ['impl ExitStatus#1', 'const NOEXEC']), (SEM, ['impl ExitStatus#1', 'const ERROR']), (SEM, ['impl ExitStatus#1', 'const FAILURE']), (SEM, ['impl ExitStatus#1', 'const SUCCESS']),
        (FN, ['fn execute_function_body'], {'ret': 'r', 'rewrites': ['strip-async'],
            'token_rewrites': [
                ('hook ( & mut env )', 'hook.call(env.env)'),
                # `&mut guard` where `&mut Env` is expected (DerefMut of the guard) = the reference the guard holds
                ('function . body . execute ( & mut env )', 'function.body.execute(env.env)'),
                ('env . exit_status = exit_status', 'env.env.exit_status = exit_status', '*'),
            ],
            'ensures': [
                # the body runs exactly once ...
                R1 + '.len() == ' + R0 + '.len() + 1',
                # ... in a regular context of its own, on top of everything the caller had, whose positional parameters are
                # the fields of the call ...
                R1 + '.last().contexts.len() == old(env).verif_contexts@.len() + 1',
                'forall|i: int| 0 <= i < old(env).verif_contexts@.len() ==> #[trigger] ' + R1 + '.last().contexts[i] == old(env).verif_contexts@[i]',
                R1 + '.last().contexts.last() matches Context::Regular { positional_params } && positional_params.verif_fields == Seq::new(fields@.len(), |i: int| fields@[i].verif_id)',
                # ... which is gone afterwards (C16: locals and positional parameters vanish at return)
                'final(env).verif_contexts@ =~= old(env).verif_contexts@',
                # nothing else of what the monitor sees happens here: the redirections in effect are the caller's
                R1 + '.last().redirs == old(env).verif_redirs@', 'final(env).verif_redirs@ == old(env).verif_redirs@',
                'final(env).verif_rcalls@ == old(env).verif_rcalls@', 'final(env).verif_acalls@ == old(env).verif_acalls@', 'final(env).verif_started@ == old(env).verif_started@',
                'final(env).verif_handled@ == old(env).verif_handled@', 'final(env).verif_not_found@ == old(env).verif_not_found@',
                # C02: `return` leaves only this function: the caller goes on, with the status the return carried (or the one
                # the body left); every other divert is handed on unchanged; a body that ends normally ends the call normally
                R1 + '.last().result matches ControlFlow::Break(Divert::Return(st)) ==> r is Continue && final(env).exit_status == (match st { Some(s) => s, None => ' + R1 + '.last().status_after })',
                '!(' + R1 + '.last().result matches ControlFlow::Break(Divert::Return(_))) ==> r == ' + R1 + '.last().result && final(env).exit_status == ' + R1 + '.last().status_after',
            ]}),
        (FN, ['fn execute_function'], {'ret': 'r', 'rewrites': ['strip-async'],
            'token_rewrites': GUARD_REWRITES + [
                ('& env . options', '&env.env.options'),
                ('execute_function_body ( & mut env , function , fields , None )', 'execute_function_body(env.env, function, fields, None)'),
            ],
            'ensures': EXEC_COMMON + [
                # C02: the body runs (once) iff the redirections and the assignments succeeded ...
                'final(env).verif_runs@.len() == old(env).verif_runs@.len() + (if ' + BOTH_OK + ' { 1int } else { 0int })',
                # ... with the redirections in effect and, above the caller's contexts, the volatile context of the
                # assignments and the function's own regular context with the call's positional parameters
                BOTH_OK + ' ==> final(env).verif_runs@.last().redirs == old(env).verif_redirs@ + redir_ids(redirs@)'
                ' && final(env).verif_runs@.last().contexts.len() == old(env).verif_contexts@.len() + 2'
                ' && (forall|i: int| 0 <= i < old(env).verif_contexts@.len() ==> #[trigger] final(env).verif_runs@.last().contexts[i] == old(env).verif_contexts@[i])'
                ' && final(env).verif_runs@.last().contexts[old(env).verif_contexts@.len() as int] is Volatile'
                ' && (final(env).verif_runs@.last().contexts.last() matches Context::Regular { positional_params } && positional_params.verif_fields == field_ids(fields@))',
                'final(env).verif_started@ == old(env).verif_started@',
            ]}),
        (EX, ['fn execute_external_utility'], {'ret': 'r', 'rewrites': ['strip-async'],
            'token_rewrites': GUARD_REWRITES + [
                ('let name = & fields [ 0 ] ;', 'let name = &fields[0]; let ghost verif_fields = fields@;'),
                ('name . value . contains ( \'/\' )', 'verif_has_slash(&name.value)'),
                ('CString :: new ( & * name . value ) . ok ( )', 'verif_cstring(&name.value)'),
                ('search_path ( & mut * env , & name . value )', 'search_path(env.env, &name.value)'),
                ('start_external_utility_in_subshell_and_wait ( & mut env , path , fields )', 'start_external_utility_in_subshell_and_wait(env.env, path, fields)'),
                ('print_error ( & mut env ,', 'print_error(env.env,'),
                ('format ! ( "cannot execute external utility {:?}" , name . value ) . into ( )', 'verif_msg(&name.value)'),
                ('format ! ( "utility {:?} not found" , name . value ) . into ( )', 'verif_msg(&name.value)'),
                ('env . exit_status =', 'env.env.exit_status =', '*'),
            ],
            'requires': ['fields@.len() >= 1'],
            'ensures': EXEC_COMMON + [
                'final(env).verif_runs@ == old(env).verif_runs@',
                # the utility is started at most once, and only after both steps succeeded; then with the redirections in
                # effect, the volatile context on top, and all the fields of the command
                'final(env).verif_started@.len() <= old(env).verif_started@.len() + 1',
                'final(env).verif_started@.len() == old(env).verif_started@.len() + 1 ==> ' + BOTH_OK
                + ' && final(env).verif_started@.last().redirs == old(env).verif_redirs@ + redir_ids(redirs@)'
                ' && final(env).verif_started@.last().contexts == old(env).verif_contexts@.push(Context::Volatile)'
                ' && final(env).verif_started@.last().fields == field_ids(fields@)'
                # its status becomes `$?`; a divert from it is handed on
                ' && (match final(env).verif_started@.last().result { ControlFlow::Continue(st) => r is Continue && final(env).exit_status == st, ControlFlow::Break(d) => r == ControlFlow::<Divert, ()>::Break(d) })',
                # a utility that is not found: nothing is started, one report, status 127
                BOTH_OK + ' && final(env).verif_started@.len() == old(env).verif_started@.len() ==> final(env).verif_not_found@ == old(env).verif_not_found@ + 1 && final(env).exit_status == ExitStatus::NOT_FOUND && ExitStatus::NOT_FOUND == ExitStatus(127) && r is Continue',
                BOTH_OK + ' && final(env).verif_started@.len() == old(env).verif_started@.len() + 1 ==> final(env).verif_not_found@ == old(env).verif_not_found@',
            ]}),
        ('@raw', '}\n'),
    ],
}
