// ---------------------------------------------------------------------------
// Prelude of unit absenttarget (properties C09 / C16 / C10 / C02, kernel): a simple command without a command name
// (yash-semantics/src/command/simple_command/absent.rs execute_absent_target), e.g. `x=1 >file` or `>file`.
// C09 "afterwards the shell's descriptor table is exactly what it was before": the redirections of such a command are NOT
// performed in this shell at all - exactly one child is started for them and awaited - so nothing can be left behind here.
// In the child they are performed once, all, under a guard; a failed one is reported once and its outcome applied; otherwise
// the child's status is that of the last command substitution in the redirections, or the status the command started
// with.  C16 "globals assigned ... persist": the assignments are made in THIS shell, once, all of them, not exported, in the
// caller's own contexts - they stay.  C02 / C10: `$?` is the status of the last command substitution in the assignments,
// else the status the child reported (else, without redirections, the status handed in); a child that cannot be started
// interrupts with status 2; a failed assignment hands its divert on.
//
// Hand-written model text (ASSUMED): as in unit builtincall (RAII of RedirGuard assumed in the contract of its constructor;
// perform_redirs / perform_assignments / the error handler are opaque calls recording what was in place).  The async
// closure handed to Config::foreground().start_and_wait(..) is checked as a NESTED FUNCTION with the same body (rule
// closure-to-nested-fn: its parameters are the closure's parameters plus the captured variables, its `return` is the
// closure's `return`) and the start itself is an opaque call that records which redirections and which status the child
// was given; handle_job_status, print_error opaque; slice::first / iter through helpers.  Await points dropped.
// ---------------------------------------------------------------------------
pub assume_specification<B, C>[ <ControlFlow<B, C> as core::ops::Try>::branch ](cf: ControlFlow<B, C>) -> (r: ControlFlow<<ControlFlow<B, C> as core::ops::Try>::Residual, <ControlFlow<B, C> as core::ops::Try>::Output>)
    ensures match cf { ControlFlow::Continue(c) => r == ControlFlow::<ControlFlow<B, core::convert::Infallible>, C>::Continue(c), ControlFlow::Break(b) => r == ControlFlow::<ControlFlow<B, core::convert::Infallible>, C>::Break(ControlFlow::Break(b)) };
pub assume_specification<B, C>[ <ControlFlow<B, C> as core::ops::FromResidual<ControlFlow<B, core::convert::Infallible>>>::from_residual ](res: ControlFlow<B, core::convert::Infallible>) -> (r: ControlFlow<B, C>)
    ensures res matches ControlFlow::Break(b) ==> r == ControlFlow::<B, C>::Break(b);
pub struct ExitStatus(pub i32);
pub enum Divert { Continue { count: usize }, Break { count: usize }, Return(Option<ExitStatus>), Interrupt(Option<ExitStatus>), Exit(Option<ExitStatus>), Abort(Option<ExitStatus>) }
pub type Result<T = ()> = ControlFlow<Divert, T>;
pub struct Field { pub value: String, pub origin: Location, pub verif_id: int }
pub struct PositionalParams { pub verif_fields: Seq<int> }
impl PositionalParams {
    #[verifier::external_body]
    pub fn from_fields(fields: Vec<Field>) -> (r: PositionalParams)
        ensures r.verif_fields == Seq::new(fields@.len(), |i: int| fields@[i].verif_id)
    { unimplemented!() }
}
pub enum Context { Regular { positional_params: PositionalParams }, Volatile }
pub struct Body { pub verif_id: int }
pub struct Function<S> { pub body: Rc<Body>, pub verif_s: core::marker::PhantomData<S> }
/// what the body ran with
pub struct BodyRun { pub contexts: Seq<Context>, pub redirs: Seq<int>, pub result: Result, pub status_after: ExitStatus }
/// one call of RedirGuard::perform_redirs: which redirections, and whether all of them succeeded
pub struct RCall { pub ids: Seq<int>, pub ok: bool }
/// one call of perform_assignments (simple_command.rs; unit simplecmd): what was in place when it was called
pub struct ACall { pub contexts: Seq<Context>, pub redirs: Seq<int>, pub export: bool, pub ids: Seq<int>, pub ok: bool }
/// one external utility started (or looked for): what was in place, what it was given
pub struct Started { pub contexts: Seq<Context>, pub redirs: Seq<int>, pub fields: Seq<int>, pub result: Result<ExitStatus> }
pub struct OptionSet { pub verif_opaque: u8 }
pub struct Env<S> { pub exit_status: ExitStatus, pub options: OptionSet, pub verif_contexts: Ghost<Seq<Context>>, pub verif_runs: Ghost<Seq<BodyRun>>,
    /// the redirections in effect (identities, in the order they were performed)
    pub verif_redirs: Ghost<Seq<int>>,
    pub verif_rcalls: Ghost<Seq<RCall>>, pub verif_acalls: Ghost<Seq<ACall>>, pub verif_started: Ghost<Seq<Started>>,
    /// errors handled (reported) / "not found" reports printed
    pub verif_handled: Ghost<nat>, pub verif_not_found: Ghost<nat>,
    /// the frames pushed by this unit's functions (on top of whatever the caller had), the built-ins run, whether the
    /// redirection guard was told to keep the redirections
    pub verif_frames: Ghost<Seq<BFrame>>, pub verif_bruns: Ghost<Seq<BRun>>, pub verif_keep_redirs: Ghost<bool>, pub verif_interactive: bool,
    /// children started for redirections (which redirections, which status they were given); results applied (in a child);
    /// what handle_job_status was asked and answered
    /// the status of the last command substitution in the redirections last performed / the assignments last made
    pub verif_rstatus: Ghost<Option<ExitStatus>>, pub verif_astatus: Ghost<Option<ExitStatus>>,
    pub verif_children: Ghost<Seq<(Seq<int>, ExitStatus)>>, pub verif_applied: Ghost<Seq<Result>>, pub verif_awaited: Ghost<Option<(Pid, ProcessResult)>>, pub verif_job_status: Ghost<Option<(Pid, ProcessResult, Result<ExitStatus>)>>,
    pub system: S }
/// everything but the contexts, the redirections in effect and `$?` is the same
pub open spec fn same_logs<S>(a: Env<S>, b: Env<S>) -> bool {
    a.verif_runs@ == b.verif_runs@ && a.verif_rcalls@ == b.verif_rcalls@ && a.verif_acalls@ == b.verif_acalls@ && a.verif_started@ == b.verif_started@
    && a.verif_handled@ == b.verif_handled@ && a.verif_not_found@ == b.verif_not_found@ && a.verif_bruns@ == b.verif_bruns@ && a.verif_keep_redirs@ == b.verif_keep_redirs@
    && a.verif_children@ == b.verif_children@ && a.verif_applied@ == b.verif_applied@ && a.verif_awaited@ == b.verif_awaited@ && a.verif_job_status@ == b.verif_job_status@
    && a.verif_rstatus@ == b.verif_rstatus@ && a.verif_astatus@ == b.verif_astatus@
}
pub open spec fn same_extra<S>(a: Env<S>, b: Env<S>) -> bool { a.verif_children@ == b.verif_children@ && a.verif_applied@ == b.verif_applied@ && a.verif_awaited@ == b.verif_awaited@ && a.verif_job_status@ == b.verif_job_status@ }
pub open spec fn same_place<S>(a: Env<S>, b: Env<S>) -> bool { a.verif_contexts@ == b.verif_contexts@ && a.verif_redirs@ == b.verif_redirs@ && a.verif_frames@ == b.verif_frames@ && a.verif_interactive == b.verif_interactive }
pub struct EnvContextGuard<'a, S> { pub env: &'a mut Env<S> }
impl<S> Env<S> {
    /// yash-env/src/variable/guard.rs Env::push_context + the Drop impl of the guard (ASSUMED as a whole, see above)
    #[verifier::external_body]
    pub fn push_context(&mut self, context: Context) -> (g: EnvContextGuard<'_, S>)
        ensures
            g.env.verif_contexts@ == old(self).verif_contexts@.push(context), g.env.exit_status == old(self).exit_status,
            same_logs(*g.env, *old(self)), g.env.verif_redirs@ == old(self).verif_redirs@, g.env.verif_frames@ == old(self).verif_frames@, g.env.verif_interactive == old(self).verif_interactive,
            final(self).verif_frames@ == final(g.env).verif_frames@, final(self).verif_interactive == final(g.env).verif_interactive,
            final(self).verif_contexts@.len() + 1 == final(g.env).verif_contexts@.len(),
            forall|i: int| 0 <= i < final(self).verif_contexts@.len() ==> #[trigger] final(self).verif_contexts@[i] == final(g.env).verif_contexts@[i],
            final(self).exit_status == final(g.env).exit_status, same_logs(*final(self), *final(g.env)), final(self).verif_redirs@ == final(g.env).verif_redirs@
    { unimplemented!() }
}
impl Body {
    #[verifier::external_body]
    pub fn execute<S>(&self, env: &mut Env<S>) -> (r: Result)
        ensures final(env).verif_runs@ == old(env).verif_runs@.push(BodyRun { contexts: old(env).verif_contexts@, redirs: old(env).verif_redirs@, result: r, status_after: final(env).exit_status }),
            same_place(*final(env), *old(env)),
            final(env).verif_rcalls@ == old(env).verif_rcalls@, final(env).verif_acalls@ == old(env).verif_acalls@, final(env).verif_started@ == old(env).verif_started@,
            final(env).verif_handled@ == old(env).verif_handled@, final(env).verif_not_found@ == old(env).verif_not_found@
    { unimplemented!() }
}
/// the hook some callers pass to prepare the environment (a function pointer returning a boxed future in the code)
pub struct EnvPrepHook<S> { pub verif_s: core::marker::PhantomData<S> }
impl<S> EnvPrepHook<S> {
    #[verifier::external_body]
    pub fn call(&self, env: &mut Env<S>)
        ensures same_place(*final(env), *old(env)), same_logs(*final(env), *old(env))
    { unimplemented!() }
}
// ---- the executors' surroundings ----
pub struct Redir { pub verif_id: int }
pub struct Assign { pub verif_id: int }
pub struct XTrace { pub verif_opaque: u8 }
pub struct RedirError { pub verif_opaque: u8 }
pub struct CString { pub verif_opaque: u8 }
pub open spec fn redir_ids(s: Seq<Redir>) -> Seq<int> { Seq::new(s.len(), |i: int| s[i].verif_id) }
pub open spec fn assign_ids(s: Seq<Assign>) -> Seq<int> { Seq::new(s.len(), |i: int| s[i].verif_id) }
pub open spec fn field_ids(s: Seq<Field>) -> Seq<int> { Seq::new(s.len(), |i: int| s[i].verif_id) }
impl XTrace {
    #[verifier::external_body]
    pub fn from_options(options: &OptionSet) -> (r: Option<XTrace>) { unimplemented!() }
}
#[verifier::external_body]
pub fn verif_as_mut(x: &mut Option<XTrace>) -> (r: Option<&mut XTrace>) { x.as_mut() }
#[verifier::external_body]
pub fn trace_fields(xtrace: Option<&mut XTrace>, fields: &Vec<Field>) { unimplemented!() }
#[verifier::external_body]
pub fn print<S>(env: &mut Env<S>, xtrace: Option<XTrace>)
    ensures same_place(*final(env), *old(env)), same_logs(*final(env), *old(env)), final(env).exit_status == old(env).exit_status
{ unimplemented!() }
pub struct RedirGuard<'e, S> { pub env: &'e mut Env<S> }
impl<'e, S> RedirGuard<'e, S> {
    /// yash-semantics/src/redir.rs RedirGuard::new + its Drop impl (unit redir verifies both bodies against the descriptor
    /// table; here RAII is ASSUMED as a whole): when the guard goes away the redirections in effect are those of before
    #[verifier::external_body]
    pub fn new(env: &'e mut Env<S>) -> (g: RedirGuard<'e, S>)
        ensures
            same_place(*g.env, *old(env)), same_logs(*g.env, *old(env)), g.env.exit_status == old(env).exit_status,
            final(env).verif_redirs@ == (if final(g.env).verif_keep_redirs@ { final(g.env).verif_redirs@ } else { old(env).verif_redirs@ }),
            final(env).verif_frames@ == final(g.env).verif_frames@, final(env).verif_interactive == final(g.env).verif_interactive,
            final(env).verif_contexts@ == final(g.env).verif_contexts@, final(env).exit_status == final(g.env).exit_status,
            same_logs(*final(env), *final(g.env))
    { unimplemented!() }
    /// RedirGuard::perform_redirs: all the redirections in order, stopping at the first failure (the ones performed stay
    /// in effect until the guard goes away)
    #[verifier::external_body]
    pub fn perform_redirs(&mut self, redirs: &[Redir], xtrace: Option<&mut XTrace>) -> (r: std::result::Result<Option<ExitStatus>, RedirError>)
        ensures
            // the guard goes on holding the reference it was made with
            mut_ref_future(final(self).env) == mut_ref_future(old(self).env), same_extra(*final(self).env, *old(self).env),
            final(self).env.verif_rstatus@ == (match r { Ok(Some(s)) => Some(s), _ => None::<ExitStatus> }), final(self).env.verif_astatus@ == old(self).env.verif_astatus@,
            final(self).env.verif_rcalls@ == old(self).env.verif_rcalls@.push(RCall { ids: redir_ids(redirs@), ok: r is Ok }),
            r is Ok ==> final(self).env.verif_redirs@ == old(self).env.verif_redirs@ + redir_ids(redirs@),
            final(self).env.verif_contexts@ == old(self).env.verif_contexts@, final(self).env.verif_frames@ == old(self).env.verif_frames@, final(self).env.verif_interactive == old(self).env.verif_interactive,
            final(self).env.verif_bruns@ == old(self).env.verif_bruns@, final(self).env.verif_keep_redirs@ == old(self).env.verif_keep_redirs@, final(self).env.exit_status == old(self).env.exit_status,
            final(self).env.verif_runs@ == old(self).env.verif_runs@, final(self).env.verif_acalls@ == old(self).env.verif_acalls@,
            final(self).env.verif_started@ == old(self).env.verif_started@, final(self).env.verif_handled@ == old(self).env.verif_handled@,
            final(self).env.verif_not_found@ == old(self).env.verif_not_found@
    { unimplemented!() }
}
impl RedirError {
    /// handle.rs (unit errhandle): reports, sets `$?`, lets the caller go on
    #[verifier::external_body]
    pub fn handle<S>(&self, env: &mut Env<S>) -> (r: Result)
        ensures same_place(*final(env), *old(env)), same_extra(*final(env), *old(env)), final(env).verif_handled@ == old(env).verif_handled@ + 1, final(env).verif_bruns@ == old(env).verif_bruns@, final(env).verif_keep_redirs@ == old(env).verif_keep_redirs@,
            final(env).verif_runs@ == old(env).verif_runs@, final(env).verif_rcalls@ == old(env).verif_rcalls@, final(env).verif_acalls@ == old(env).verif_acalls@,
            final(env).verif_started@ == old(env).verif_started@, final(env).verif_not_found@ == old(env).verif_not_found@
    { unimplemented!() }
}
/// simple_command.rs perform_assignments (unit simplecmd): opaque here, what was in place is recorded
#[verifier::external_body]
pub fn perform_assignments<S>(env: &mut Env<S>, assigns: &[Assign], export: bool, xtrace: Option<&mut XTrace>) -> (r: Result<Option<ExitStatus>>)
    ensures same_place(*final(env), *old(env)), same_extra(*final(env), *old(env)), final(env).verif_bruns@ == old(env).verif_bruns@,
        final(env).verif_astatus@ == (match r { ControlFlow::Continue(Some(s)) => Some(s), _ => None::<ExitStatus> }), final(env).verif_rstatus@ == old(env).verif_rstatus@, final(env).verif_keep_redirs@ == old(env).verif_keep_redirs@, final(env).exit_status == old(env).exit_status,
        final(env).verif_acalls@ == old(env).verif_acalls@.push(ACall { contexts: old(env).verif_contexts@, redirs: old(env).verif_redirs@, export, ids: assign_ids(assigns@), ok: r is Continue }),
        final(env).verif_runs@ == old(env).verif_runs@, final(env).verif_rcalls@ == old(env).verif_rcalls@,
        final(env).verif_started@ == old(env).verif_started@, final(env).verif_handled@ == old(env).verif_handled@, final(env).verif_not_found@ == old(env).verif_not_found@
{ unimplemented!() }

// ---- absent.rs ----
pub struct BFrame { pub is_special: bool, pub name_id: int }
pub struct BRun { pub verif_opaque: u8 }
pub struct Location { pub verif_opaque: u8 }
pub trait Runtime {}
#[derive(Debug)]
pub struct Errno(pub i32);
#[derive(Clone, Copy)]
pub struct Pid(pub i32);
#[derive(Clone, Copy)]
pub struct ProcessResult { pub verif_opaque: u8 }
pub struct JobControl { pub verif_opaque: u8 }
pub uninterp spec fn status_of(r: ProcessResult) -> ExitStatus;
#[verifier::external_body]
pub fn verif_first(redirs: &Rc<Vec<Redir>>) -> (r: Option<&Redir>) ensures r is Some <==> redirs@.len() > 0 { redirs.first() }
#[verifier::external_body]
pub fn verif_slice(redirs: &Rc<Vec<Redir>>) -> (r: &[Redir]) ensures r@ == redirs@ { redirs.as_slice() }
#[verifier::external_body]
pub fn verif_location_of(redir: &Redir) -> (r: Location) { unimplemented!() }
/// `Config::foreground().start_and_wait(env, <the closure>)` (units subshellstart / startwait): a child is started that runs
/// verif_child with these captured values, and awaited
#[verifier::external_body]
pub fn verif_start_and_wait<S>(env: &mut Env<S>, redirs_2: Rc<Vec<Redir>>, exit_status: ExitStatus) -> (r: std::result::Result<(Pid, ProcessResult), Errno>)
    ensures *final(env) == (Env { verif_children: Ghost(old(env).verif_children@.push((redir_ids(redirs_2@), exit_status))), verif_awaited: Ghost(match r { Ok(p) => Some(p), Err(_) => None }), ..*old(env) })
{ unimplemented!() }
/// job.rs handle_job_status(env, pid, result, || <job name>)
#[verifier::external_body]
pub fn verif_handle_job_status<S>(env: &mut Env<S>, pid: Pid, result: ProcessResult) -> (r: Result<ExitStatus>)
    ensures *final(env) == (Env { verif_job_status: Ghost(Some((pid, result, r))), ..*old(env) }),
        r matches ControlFlow::Continue(st) ==> st == status_of(result)
{ unimplemented!() }
#[verifier::external_body]
pub fn verif_print_start_error<S>(env: &mut Env<S>, errno: &Errno, location: &Location)
    ensures *final(env) == *old(env)
{ unimplemented!() }
impl<S> Env<S> {
    /// lib.rs apply_result (unit errexit)
    #[verifier::external_body]
    pub fn apply_result(&mut self, result: Result)
        ensures *final(self) == (Env { verif_applied: Ghost(old(self).verif_applied@.push(result)), exit_status: final(self).exit_status, ..*old(self) })
    { unimplemented!() }
}
