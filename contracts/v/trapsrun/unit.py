# Unit trapsrun: a caught signal runs its trap action exactly once at the command boundary (kernel of property C11).
SG = 'yash-semantics/src/trap/signal.rs'
MOD_HEAD = '''    use vstd::prelude::*;
    use std::rc::Rc;
    use std::ops::ControlFlow::{self, Break, Continue};
'''
UNIT = {
    'name': 'trapsrun',
    'property': 'C11',
    'rlimit': 60,
    'verus_args': ['--edition=2024'],
    'controls': 'auto',
    'vacuity_floor': 1,
    'items': [
        ('@raw', 'pub mod tr {\n' + MOD_HEAD),
        ('@file', 'prelude.rs'),
        (SG, ['fn run_traps_for_caught_signals'], {'ret': 'r', 'rewrites': ['strip-async'],
            'attrs': ['#[verifier::exec_allows_no_decreases_clause]'],
            'token_rewrites': [('env . traps . take_caught_signal ( )', 'verif_take_caught(env)', '*')],
            'closures': {0: {'ret': 'b: bool', 'param_types': ['Rc<SignalList>']}},
            'requires': ['old(env).mon@.owed is None'],
            'ensures': [
                'final(env).mon@.round_done', 'final(env).mon@.unannounced_command == old(env).mon@.unannounced_command', 'final(env).mon@.commands == old(env).mon@.commands',
                'final(env).mon@.command_after_divert == old(env).mon@.command_after_divert', 'r is Continue ==> !final(env).mon@.last_trap_diverted',
                # every caught signal handed out with a command action had exactly that command run for exactly that signal,
                # once, before the next one was handed out; nothing was run that was not owed; nothing is run inside another
                # trap action
                'final(env).mon@.wrong == old(env).mon@.wrong',
                'final(env).mon@.owed is None',
                'final(env).mon@.runs - old(env).mon@.runs == final(env).mon@.taken_commands - old(env).mon@.taken_commands',
                'old(env).mon@.in_trap ==> final(env).mon@.runs == old(env).mon@.runs && final(env).mon@.taken_commands == old(env).mon@.taken_commands',
            ],
            'loops': {0: {'invariant': [
                'env.mon@.round_done', 'env.mon@.unannounced_command == old(env).mon@.unannounced_command', 'env.mon@.commands == old(env).mon@.commands',
                'env.mon@.command_after_divert == old(env).mon@.command_after_divert', '!env.mon@.last_trap_diverted',
                'env.mon@.wrong == old(env).mon@.wrong', 'env.mon@.owed is None', '!env.mon@.in_trap', 'env.mon@.in_trap == old(env).mon@.in_trap',
                'env.mon@.runs - old(env).mon@.runs == env.mon@.taken_commands - old(env).mon@.taken_commands',
            ]}}}),
        (SG, ['fn run_trap_if_caught'], {'ret': 'r', 'rewrites': ['strip-async'],
            'token_rewrites': [('env . traps . take_signal_if_caught ( signal )', 'verif_take_if_caught(env, signal)')],
            'requires': ['old(env).mon@.owed is None', '!old(env).mon@.in_trap'],
            'ensures': [
                # "... or on interrupting `wait`": if this signal is pending with a command action, exactly that command is run for
                # exactly this signal, once, and its result is the answer; otherwise nothing runs and the answer is None
                'final(env).mon@.wrong == old(env).mon@.wrong', 'final(env).mon@.owed is None',
                'final(env).mon@.runs - old(env).mon@.runs == final(env).mon@.taken_commands - old(env).mon@.taken_commands',
                'r is Some <==> final(env).mon@.runs == old(env).mon@.runs + 1', 'r is None ==> final(env).mon@.runs == old(env).mon@.runs',
                'final(env).mon@.commands == old(env).mon@.commands',
            ]}),
        ('yash-semantics/src/runner.rs', ['fn run_command'], {'ret': 'r', 'rewrites': ['strip-async'],
            'requires': ['old(env).mon@.owed is None'],
            'ensures': [
                # "at the next command boundary": a command is executed only right after a round of trap actions for the signals
                # caught so far, and not at all if such an action diverts
                'final(env).mon@.unannounced_command == old(env).mon@.unannounced_command',
                'final(env).mon@.command_after_divert == old(env).mon@.command_after_divert',
                'final(env).mon@.wrong == old(env).mon@.wrong',
                'final(env).mon@.commands <= old(env).mon@.commands + 1',
            ]}),
        ('yash-semantics/src/trap/exit.rs', ['fn run_exit_trap'], {'rewrites': ['strip-async'],
            'token_rewrites': [('env . traps . get_state ( Condition :: Exit ) . 0', 'verif_get_exit_state(env)'),
                               ('run_trap ( env , Condition :: Exit , command , origin )', 'run_exit_action(env, Condition::Exit, command, origin)')],
            'ensures': [
                # the EXIT trap action, if it is a command, is run exactly once for the condition EXIT, with exactly that
                # command; no other action is run here; without such a trap nothing happens
                'exit_state(old(env)) matches Some(st) ==> (st.action matches Action::Command(c) ==> final(env).mon@.exit_runs == old(env).mon@.exit_runs.push((Condition::Exit, c.verif_id)))',
                '!(exit_state(old(env)) matches Some(st) && st.action is Command) ==> final(env).mon@.exit_runs == old(env).mon@.exit_runs',
                'final(env).mon@.runs == old(env).mon@.runs && final(env).mon@.commands == old(env).mon@.commands',
            ]}),
        ('@raw', '}\n'),
    ],
}
