# Unit lexbuf: the line buffer of the lexer (kernel of C18).
LX = 'yash-syntax/src/parser/lex/core.rs'
IMPL = "impl<'a> LexerCore<'a>"
MOD_HEAD = '''    use vstd::prelude::*;
'''
NOREAD = 'final(self).input == old(self).input'
SAME = NOREAD + ' && final(self).source@ == old(self).source@ && final(self).state == old(self).state'
ASSERT_IDX = ('assert ! ( index <= self . index , "The index {} must not be larger than the current index {}" , index , self . index ) ;', 'assert(index <= self.index);')
ASSERT_RW = ('assert ! ( index <= self . index , "The new index {} must not be larger than the current index {}" , index , self . index ) ;', 'assert(index <= self.index);')
UNIT = {
    'name': 'lexbuf',
    'property': 'C18',
    'rlimit': 60,
    'verus_args': ['--edition=2024'],
    'vacuity_floor': 2,
    'controls': 'auto',
    'items': [
        ('@raw', 'pub mod lb {\n' + MOD_HEAD),
        (LX, ['enum PeekChar'], {'drop_derives': 'all', 'vis': 'pub'}),
        (LX, ['enum InputState'], {'drop_derives': 'all', 'vis': 'pub'}),
        ('@file', 'prelude.rs'),
        (LX, [IMPL, 'fn peek_char'], {'ret': 'r', 'rewrites': ['strip-async'],
            'attrs': ['#[verifier::exec_allows_no_decreases_clause]'],
            'token_rewrites': [
                ('line . is_empty ( )', 'verif_line_is_empty(&line)'),
                # (nowhere in the pinned code; lets a test on the line's last character be judged instead of ending UNDECIDED)
                ("line . ends_with ( '\\n' )", 'verif_ends_with_newline(&line)', '*'),
                ('self . raw_code . value . borrow_mut ( ) . push_str ( & line ) ;', 'verif_append_raw(&self.raw_code, &line);'),
                ('self . source . extend ( ex ( source_chars ( & line , & self . raw_code , index ) ) ) ;', 'verif_extend_source(&mut self.source, &line, &self.raw_code, index);'),
            ],
            'requires': ['old(self).index <= old(self).source@.len()'],
            'ensures': [
                # the position never moves; what was in the buffer stays
                'final(self).index == old(self).index && final(self).source@.len() >= old(self).source@.len()',
                'forall|i: int| 0 <= i < old(self).source@.len() ==> #[trigger] final(self).source@[i] == old(self).source@[i]',
                # an unconsumed character is there: it is the answer, nothing is read, nothing changes
                'old(self).index < old(self).source@.len() ==> ' + SAME + ' && (r matches Ok(PeekChar::Char(c)) && *c == old(self).source@[old(self).index as int].value)',
                # the input has ended or failed: nothing is read ever again
                'old(self).index >= old(self).source@.len() && !(old(self).state is Alive) ==> ' + SAME + ' && !(r matches Ok(PeekChar::Char(_)))',
                # every character was consumed and the input is alive: exactly ONE line is asked for - no read-ahead -, and
                # that line, complete and in order, is what the buffer gains; an empty line is the end of input, an error stays
                'old(self).index >= old(self).source@.len() && old(self).state is Alive ==> final(self).input.lines@.len() == old(self).input.lines@.len() + 1 '
                '&& final(self).input.lines@.subrange(0, old(self).input.lines@.len() as int) =~= old(self).input.lines@ && (match final(self).input.lines@.last() { '
                'Some(l) => values(final(self).source@) =~= values(old(self).source@) + l && (l.len() > 0 ==> final(self).state is Alive && (r matches Ok(PeekChar::Char(c)) && c.value == l[0])) '
                '&& (l.len() == 0 ==> final(self).state is EndOfInput && r matches Ok(PeekChar::EndOfInput(_))), '
                'None => final(self).source@ == old(self).source@ && final(self).state is Error && r is Err })',
            ],
            'ghost_before': [('return Ok ( PeekChar :: Char (', 'proof { assert(values(self.source@)[self.index as int] == self.source@[self.index as int].value.value); }')],
            'loops': {0: {'invariant': [
                'self.index == old(self).index', 'self.source@.len() >= old(self).source@.len()', 'old(self).index <= old(self).source@.len()',
                'forall|i: int| 0 <= i < old(self).source@.len() ==> #[trigger] self.source@[i] == old(self).source@[i]',
                '(old(self).index < old(self).source@.len() || !(old(self).state is Alive)) ==> self.input == old(self).input && self.source@ == old(self).source@ && self.state == old(self).state',
                # either nothing was read yet, or exactly one line was and the next round answers
                'self.input.lines@.len() == old(self).input.lines@.len() || self.input.lines@.len() == old(self).input.lines@.len() + 1',
                'self.input.lines@.len() == old(self).input.lines@.len() ==> self.input == old(self).input && self.source@ == old(self).source@ && self.state == old(self).state',
                'self.input.lines@.len() == old(self).input.lines@.len() + 1 ==> self.input.lines@.subrange(0, old(self).input.lines@.len() as int) =~= old(self).input.lines@',
                'self.input.lines@.len() == old(self).input.lines@.len() + 1 ==> (self.input.lines@.last() matches Some(l) ==> values(self.source@) =~= values(old(self).source@) + l)',
                'self.input.lines@.len() == old(self).input.lines@.len() + 1 ==> (self.input.lines@.last() matches Some(l) && l.len() > 0 ==> self.state is Alive && self.index < self.source@.len())',
                'self.input.lines@.len() == old(self).input.lines@.len() + 1 ==> (self.input.lines@.last() matches Some(l) && l.len() == 0 ==> self.state is EndOfInput)',
                'self.input.lines@.len() == old(self).input.lines@.len() + 1 ==> (self.input.lines@.last() is None ==> self.source@ == old(self).source@ && self.state is Error)',
            ]}}}),
        (LX, [IMPL, 'fn consume_char'], {
            'token_rewrites': [('assert ! ( self . index < self . source . len ( ) , "A character must have been peeked before being consumed: index={}" , self . index ) ;', 'assert(self.index < self.source.len());')],
            # "a character that has not yet been peeked" cannot be consumed: the assertion of the code is an obligation under
            # the precondition that a character is pending
            'requires': ['old(self).index < old(self).source@.len()'],
            'ensures': ['final(self).index == old(self).index + 1', SAME]}),
        (LX, [IMPL, 'fn peek_char_at'], {'ret': 'r',
            'token_rewrites': [ASSERT_IDX],
            'requires': ['index <= self.index', 'index < self.source@.len()'],
            'ensures': ['*r == self.source@[index as int].value']}),
        (LX, [IMPL, 'fn index'], {'ret': 'r', 'ensures': ['r == self.index']}),
        (LX, [IMPL, 'fn rewind'], {
            'token_rewrites': [ASSERT_RW],
            'requires': ['index <= old(self).index'],
            'ensures': ['final(self).index == index', SAME]}),
        (LX, [IMPL, 'fn pending'], {'ret': 'r', 'ensures': ['r == (self.index < self.source@.len())']}),
        (LX, [IMPL, 'fn flush'], {
            'token_rewrites': [('let start_line_number = self . raw_code . line_number ( usize :: MAX ) ; self . raw_code = Rc :: new ( Code { value : RefCell :: new ( String :: new ( ) ) , start_line_number , source : self . raw_code . source . clone ( ) , } ) ;', 'self.raw_code = verif_fresh_code(&self.raw_code);')],
            # the buffer is thrown away - whatever was read and not consumed is gone, the next peek asks for a fresh line -; nothing is read
            'ensures': ['final(self).source@.len() == 0 && final(self).index == 0', NOREAD + ' && final(self).state == old(self).state']}),
        (LX, [IMPL, 'fn reset'], {
            'ensures': ['final(self).source@.len() == 0 && final(self).index == 0', NOREAD + ' && final(self).state is Alive']}),
        ('@raw', '}\n'),
    ],
}
