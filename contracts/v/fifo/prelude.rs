// ---------------------------------------------------------------------------
// Prelude of unit fifo (specification): a FIFO is a queue of at most PIPE_SIZE bytes.
//   write appends (all of the buffer if it fits; nothing, pending, if it does not fit and is at most PIPE_BUF
//   bytes long or the pipe is full; otherwise as much as fits), read removes from the front; no byte is lost,
//   duplicated or reordered by either.
// ---------------------------------------------------------------------------
impl FileBody {
    /// bytes written and not yet read
    pub open spec fn queue(&self) -> Seq<u8> { self->Fifo_content@ }
    pub open spec fn fifo_wf(&self) -> bool { self is Fifo && self.queue().len() <= PIPE_SIZE }
    /// everything but the queue and the waker sets is the same
    pub open spec fn same_ends(&self, o: &FileBody) -> bool {
        self is Fifo && o is Fifo && self->Fifo_readers == o->Fifo_readers && self->Fifo_writers == o->Fifo_writers
    }
}

/// the FIFO law for one write followed by reads: what is read is what was queued, in order
pub proof fn lemma_fifo_order(q0: Seq<u8>, w: Seq<u8>, n: int)
    requires 0 <= n <= (q0 + w).len(),
    ensures (q0 + w).subrange(0, n) + (q0 + w).skip(n) =~= q0 + w,
{
}
