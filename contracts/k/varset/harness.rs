//! Kani contracts for `VariableSet` (property C16), injected as a child module of yash-env/src/variable.rs.
//! Concrete histories over one name with symbolic attribute bits, compared with the documented meaning of
//! the scopes ("innermost visible", "removes the variable from the topmost regular context and any volatile
//! context above it").  Bounded: the histories listed here.
#![allow(dead_code, unused_imports)]
use super::*;

fn ctx() -> Context {
    Context::default()
}

/// `unset` in the local scope when the name exists only in the base context: nothing is in scope, so
/// nothing is removed, and the global stays visible.
#[kani::proof]
#[kani::unwind(8)]
fn c16q_unset_local_global_only() {
    let mut set = VariableSet::new();
    let _ = set.get_or_new("x", Scope::Global).assign("g", None);
    set.push_context_impl(ctx());
    set.push_context_impl(ctx());
    let r = set.unset("x", Scope::Local);
    assert!(matches!(r, Ok(None)), "nothing to unset in the local scope");
    std::mem::forget(r);
    assert!(set.get("x").is_some(), "the global variable is still visible");
    std::mem::forget(set);
}

/// `unset` in the local scope removes the local variable and uncovers the global one.
#[kani::proof]
#[kani::unwind(8)]
fn c16q_unset_local_uncovers_global() {
    let mut set = VariableSet::new();
    let _ = set.get_or_new("x", Scope::Global).assign("g", None);
    set.push_context_impl(ctx());
    set.push_context_impl(ctx());
    let _ = set.get_or_new("x", Scope::Local).assign("l", None);
    assert!(set.get_scalar("x") == Some("l"), "the local variable hides the global one");
    let r = set.unset("x", Scope::Local);
    assert!(matches!(&r, Ok(Some(v)) if v.value == Some(Value::scalar("l"))), "the local variable is removed and returned");
    std::mem::forget(r);
    assert!(set.get_scalar("x") == Some("g"), "the global variable is visible again");
    std::mem::forget(set);
}
