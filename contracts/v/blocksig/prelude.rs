// ---------------------------------------------------------------------------
// Prelude of unit blocksig (property C08, kernel): the blanket impl of BlockSignals (yash-env/src/subshell.rs), the two
// calls with which Config::start brackets the fork of a subshell that is to ignore SIGINT / SIGQUIT.
// C08 "nothing done [for] a subshell ... can change the parent shell's ... traps": the signals the parent has blocked are
// part of its trap state (every trapped signal stays blocked outside select).  block_sigint_sigquit adds exactly SIGINT
// and SIGQUIT to the mask and hands out the mask that was in force; restore_sigmask installs exactly the mask it is
// given; so block followed by restore leaves the parent's mask as it was, whatever was blocked before (lemma
// block_then_restore, from the two contracts).
//
// Hand-written model text (ASSUMED): trait Sigmask with a ghost view of the blocked set (sigmask(op, old): on success the
// previous mask is stored through `old` and the mask becomes op applied to it; on failure nothing changes), trait Sigset
// (new: empty; from_signals: exactly those).  The impl `for S where S: Sigmask + ?Sized` is checked as methods of a wrapper
// struct around an arbitrary S: Sigmask (rule impl-header-override; `Self::SavedMask` is `S::Sigset`); `&self` is `&mut self`
// (rule param-shared-to-mut: Verus has no interior mutability).  Await points dropped.
// ---------------------------------------------------------------------------
#[derive(Debug)]
pub struct Errno(pub i32);
#[derive(Clone, Copy)]
pub struct Number(pub i32);
pub enum SigmaskOp { Add, Remove, Set }
pub trait SigsetT: Sized {
    spec fn view(&self) -> Set<int>;
    fn new() -> (r: Self) ensures r.view() == Set::<int>::empty();
    fn from_signals(signals: [Number; 2]) -> (r: Result<Self, Errno>)
        ensures r matches Ok(s) ==> s.view() == Set::<int>::empty().insert(signals[0].0 as int).insert(signals[1].0 as int);
}
pub open spec fn apply_op(op: SigmaskOp, arg: Set<int>, mask: Set<int>) -> Set<int> {
    match op { SigmaskOp::Add => mask.union(arg), SigmaskOp::Remove => mask.difference(arg), SigmaskOp::Set => arg }
}
pub trait Sigmask {
    type Sigset: SigsetT;
    const SIGINT: Number;
    const SIGQUIT: Number;
    /// the signals this process has blocked
    spec fn mask(&self) -> Set<int>;
    fn sigmask(&mut self, op: Option<(SigmaskOp, &Self::Sigset)>, old_mask: Option<&mut Self::Sigset>) -> (r: Result<(), Errno>)
        ensures
            r is Ok ==> (old_mask matches Some(o) ==> final(o).view() == old(self).mask()) && final(self).mask() == (match op { Some((o, a)) => apply_op(o, a.view(), old(self).mask()), None => old(self).mask() }),
            r is Err ==> final(self).mask() == old(self).mask();
}
/// an arbitrary implementor of Sigmask, wrapped so that the blanket impl can be checked as inherent methods
pub struct VerifSys<S: Sigmask> { pub inner: S }
impl<S: Sigmask> VerifSys<S> {
    #[verifier::external_body]
    pub fn sigmask(&mut self, op: Option<(SigmaskOp, &S::Sigset)>, old_mask: Option<&mut S::Sigset>) -> (r: Result<(), Errno>)
        ensures
            r is Ok ==> (old_mask matches Some(o) ==> final(o).view() == old(self).inner.mask()) && final(self).inner.mask() == (match op { Some((o, a)) => apply_op(o, a.view(), old(self).inner.mask()), None => old(self).inner.mask() }),
            r is Err ==> final(self).inner.mask() == old(self).inner.mask()
    { self.inner.sigmask(op, old_mask) }
}
/// block followed by restore of what block handed out leaves the mask as it was
pub proof fn block_then_restore(m0: Set<int>, a: int, b: int)
    ensures apply_op(SigmaskOp::Set, m0, apply_op(SigmaskOp::Add, Set::<int>::empty().insert(a).insert(b), m0)) == m0
{}
