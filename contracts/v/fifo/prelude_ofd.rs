// ---------------------------------------------------------------------------
// Prelude of unit fifo, part 2: the open file description on top of the byte queue
// (yash-env/src/system/virtual/io.rs).  The description reaches its file through Rc<RefCell<Inode>>, which
// Verus cannot follow: the file behind it is a ghost view, and `poll_write` on the description is ASSUMED to do
// what `FileBody::poll_write` (verified above) does to that file.  What is verified here is the loop of
// `poll_write_full`, i.e. how a payload larger than the room in the pipe is delivered piecewise.
// ---------------------------------------------------------------------------
pub struct OpenFileDescription {
    pub inode: Rc<RefCell<Inode>>,
    pub offset: usize,
    pub is_readable: bool,
    pub is_writable: bool,
    pub is_appending: bool,
    pub is_nonblocking: bool,
}
pub enum FileType { Regular, Directory, Symlink, Fifo, BlockDevice, CharacterDevice, Socket, Other }

impl OpenFileDescription {
    /// the file behind the description is a FIFO
    pub uninterp spec fn is_fifo(&self) -> bool;
    /// bytes queued in the file behind the description
    pub uninterp spec fn queue(&self) -> Seq<u8>;

    /// `self.inode.borrow().body.r#type() == FileType::Fifo` (rewrite rule tokens-to-helper; RefCell is not modelled)
    #[verifier::external_body]
    pub fn verif_is_fifo(&self) -> (b: bool)
        ensures b == self.is_fifo(),
    { unimplemented!() }

    /// ASSUMED: the effect of one `poll_write` on the file behind the description, as far as `poll_write_full` relies
    /// on it: on success some beginning of the buffer (n bytes, n <= len) is appended to the queue; otherwise the queue is
    /// unchanged.  (For a FIFO this is what the verified `FileBody::poll_write` does.)
    #[verifier::external_body]
    pub fn poll_write<F>(&mut self, buffer: &[u8], get_waker: F) -> (r: Poll<Result<usize, Errno>>)
        where F: FnMut() -> Weak<Cell<Option<Waker>>>
        ensures
            final(self).is_fifo() == old(self).is_fifo() && final(self).is_nonblocking == old(self).is_nonblocking,
            r matches Poll::Ready(Ok(n)) ==> n <= buffer@.len() && final(self).queue() == old(self).queue() + buffer@.subrange(0, n as int),
            !(r matches Poll::Ready(Ok(_))) ==> final(self).queue() == old(self).queue(),
    { unimplemented!() }
}
