# Unit whileuntil: the two entries of the loop executor (kernel of C02).
WL = 'yash-semantics/src/command/compound_command/while_loop.rs'
MOD_HEAD = '''    use vstd::prelude::*;
'''
def post(expected):
    return ['final(env).log@ == old(env).log@.push(LoopRun { condition: condition.verif_id, expected: %s, body: body.verif_id, result: r })' % expected]
UNIT = {
    'name': 'whileuntil',
    'property': 'C02',
    'rlimit': 30,
    'verus_args': ['--edition=2024'],
    'vacuity_floor': 2,
    'controls': {WL + '::execute_while': {'ensures': {'append': 'false'}}, WL + '::execute_until': {'ensures': {'append': 'false'}}},
    'control_expect': ['execute_while', 'execute_until'],
    'items': [
        ('@raw', 'pub mod wu {\n' + MOD_HEAD),
        ('@file', 'prelude.rs'),
        # `while`: the loop goes on while the condition succeeds; `until`: while it fails
        (WL, ['fn execute_while'], {'ret': 'r', 'rewrites': ['strip-async'], 'ensures': post('true')}),
        (WL, ['fn execute_until'], {'ret': 'r', 'rewrites': ['strip-async'], 'ensures': post('false')}),
        ('@raw', '}\n'),
    ],
}
