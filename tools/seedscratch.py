"""Re-run the quick check of seeded changes against the CURRENT machinery WITHOUT touching /repo: each change is applied
to a scratch copy of /repo's working tree (/tmp/seedscratch/<property>/repo), the check runs with VERIF_REPO / VERIF_WORK
pointing there (one scratch area per property, so different properties run in parallel, -j N), and the outcome is recorded
in seeded/<id>/meta.json under 'recheck'.   usage: seedscratch.py [-j N] [--only-missing] [id-prefix ...]
The scratch areas are removed at the end."""
import json, os, shutil, subprocess, sys, time
from concurrent.futures import ThreadPoolExecutor

VERIF = os.path.dirname(os.path.dirname(os.path.abspath(__file__)))
ROOT = '/tmp/seedscratch_%d' % os.getpid()


def sh(cmd, cwd=None, timeout=7200, env=None):
    e = dict(os.environ, CARGO_NET_OFFLINE='true', LANG='C')
    e.update(env or {})
    p = subprocess.run(cmd, shell=True, cwd=cwd, capture_output=True, text=True, timeout=timeout, env=e)
    return p.returncode, p.stdout + p.stderr


def run_property(pid, sids):
    area = os.path.join(ROOT, pid)
    repo = os.path.join(area, 'repo')
    os.makedirs(area, exist_ok=True)
    out = []
    for sid in sids:
        d = os.path.join(VERIF, 'seeded', sid)
        mp = os.path.join(d, 'meta.json')
        meta = json.load(open(mp))
        patch = os.path.join(d, 'patch_ported.diff')
        if not os.path.exists(patch):
            patch = os.path.join(d, 'patch.diff')
        sh('rsync -a --delete --exclude target --exclude .git /repo/ %s/' % repo)
        rc, o = sh('git apply %s' % patch, cwd=repo)
        if rc != 0:
            meta['recheck'] = {'applies': False, 'note': 'patch does not apply to the current /repo HEAD (a later fix: commit touched the same lines); see the ported variant if any', 'msg': o[-300:]}
            json.dump(meta, open(mp, 'w'), indent=1)
            out.append((sid, 'DOES NOT APPLY'))
            continue
        t0 = time.time()
        rc, o = sh('bin/vcheck %s --tier quick' % pid, cwd=VERIF,
                   env={'VERIF_REPO': repo, 'VERIF_WORK': os.path.join(area, 'work'), 'VERIF_EVIDENCE_DIR': os.path.join(area, 'evidence'), 'VERIF_REPLAY_DIR': os.path.join(area, 'replay')})
        lines = [l for l in o.splitlines() if l.startswith(('VIOLATION', 'UNDECIDED', 'KNOWN-FINDING')) or ' -> ' in l]
        head = sh('git -C /repo rev-parse --short HEAD')[1].strip()
        meta['recheck'] = {'applies': True, 'patch': os.path.basename(patch), 'repo_head': head, 'exit': rc, 'lines': lines[:8], 'wall_s': round(time.time() - t0, 1),
                           'mode': 'scratch copy'}
        # a detection needs the VIOLATION line, not just the exit status (a crash of the machinery must not count)
        has_violation = any(l.startswith('VIOLATION property=%s ' % pid) for l in lines)
        meta['recheck']['outcome'] = 'VIOLATION' if (rc == 1 and has_violation) else ('UNDECIDED' if rc == 2 else ('PASS' if rc == 0 else 'BROKEN-CHECK rc=%d' % rc))
        meta['detected'] = (rc == 1 and has_violation)
        json.dump(meta, open(mp, 'w'), indent=1)
        out.append((sid, meta['recheck']['outcome'] + ' ' + (lines[0][:160] if lines else '')))
        print(sid, out[-1][1], flush=True)
    return out


def main():
    args = sys.argv[1:]
    jobs = 3
    if '-j' in args:
        i = args.index('-j'); jobs = int(args[i + 1]); del args[i:i + 2]
    only_missing = '--only-missing' in args
    args = [a for a in args if a != '--only-missing']
    byprop = {}
    for sid in sorted(os.listdir(os.path.join(VERIF, 'seeded'))):
        mp = os.path.join(VERIF, 'seeded', sid, 'meta.json')
        if not os.path.exists(mp):
            continue
        if args and not any(sid.startswith(a) for a in args):
            continue
        meta = json.load(open(mp))
        if only_missing and meta.get('recheck'):
            continue
        byprop.setdefault(meta['property'], []).append(sid)
    with ThreadPoolExecutor(max_workers=jobs) as ex:
        futs = [ex.submit(run_property, pid, sids) for pid, sids in sorted(byprop.items())]
        for f in futs:
            f.result()
    shutil.rmtree(ROOT, ignore_errors=True)
    print('SCRATCH-RECHECK-DONE')


if __name__ == '__main__':
    main()
