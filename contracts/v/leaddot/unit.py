# Unit leaddot: when a pattern counts as starting with a literal period (kernel of C05 / C04).
AST = 'yash-fnmatch/src/ast.rs'
MOD_HEAD = '''    use vstd::prelude::*;
    use std::ops::RangeInclusive;
'''
UNIT = {
    'name': 'leaddot',
    'property': 'C05',
    'rlimit': 30,
    'verus_args': ['--edition=2024'],
    'vacuity_floor': 1,
    'controls': {AST + '::Ast::starts_with_literal_dot': {'ensures': {'append': 'false'}}},
    'control_expect': ['starts_with_literal_dot'],
    'items': [
        ('@raw', 'pub mod ld {\n' + MOD_HEAD),
        (AST, ['enum BracketAtom']),
        (AST, ['enum BracketItem']),
        (AST, ['struct Bracket']),
        (AST, ['enum Atom']),
        (AST, ['struct Ast'], {'drop_derives': True}),
        ('@file', 'prelude.rs'),
        (AST, ['impl Ast', 'fn starts_with_literal_dot'], {'ret': 'r',
            'ensures': ["r == (self.atoms@.len() > 0 && self.atoms@[0] == Atom::Char('.'))"]}),
        ('@raw', '}\n'),
    ],
}
