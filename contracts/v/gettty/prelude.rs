// ---------------------------------------------------------------------------
// Prelude of unit gettty (property C09, kernel): yash-env/src/lib.rs Env::get_tty - the descriptor the shell keeps on its terminal.
// C09 "descriptors the shell opens for its own use stay at 10 or above with close-on-exec set, and no command ever leaves an extra
// descriptor open": the terminal is opened at most once (the descriptor is remembered and handed out again without any system
// call); it is opened with close-on-exec (and without making it the controlling terminal, unless the system rejects that flag,
// in which case exactly one second attempt is made without it); the descriptor opened is at once moved to the shell's internal
// range (io.rs move_fd_internal: unit redir has it - the result is >= 10, close-on-exec, and the original is closed on every
// path); only a descriptor that move returned is remembered; when anything fails nothing is remembered.
//
// Hand-written model text (ASSUMED): open(), io::move_fd_internal as opaque calls recorded in a ghost log; enumset's `|` / `into`;
// the C-string literal through a helper; the derived PartialEq of Result<Fd, Errno>.
// ---------------------------------------------------------------------------
#[derive(Clone, Copy, Debug, Eq, PartialEq)] pub struct Fd(pub i32);
#[derive(Clone, Copy, Debug, Eq, PartialEq)] pub struct Errno(pub i32);
impl Errno { pub const EINVAL: Errno = Errno(22); }
impl vstd::std_specs::cmp::PartialEqSpecImpl for Fd { open spec fn obeys_eq_spec() -> bool { true } open spec fn eq_spec(&self, o: &Fd) -> bool { *self == *o } }
impl vstd::std_specs::cmp::PartialEqSpecImpl for Errno { open spec fn obeys_eq_spec() -> bool { true } open spec fn eq_spec(&self, o: &Errno) -> bool { *self == *o } }
#[derive(Clone, Copy)] pub enum OfdAccess { ReadOnly, WriteOnly, ReadWrite }
#[derive(Clone, Copy)] pub enum OpenFlag { CloseOnExec, NoCtty, Other(u8) }
pub struct EnumSet<T> { pub verif_t: Option<T> }
pub uninterp spec fn flags_of<T>(s: EnumSet<T>) -> Set<T>;
impl core::ops::BitOr for OpenFlag {
    type Output = EnumSet<OpenFlag>;
    #[verifier::external_body]
    fn bitor(self, rhs: OpenFlag) -> (r: EnumSet<OpenFlag>) ensures flags_of(r) == set![self, rhs] { unimplemented!() }
}
impl vstd::std_specs::ops::BitOrSpecImpl<OpenFlag> for OpenFlag {
    open spec fn obeys_bitor_spec() -> bool { false }
    open spec fn bitor_req(self, rhs: OpenFlag) -> bool { true }
    uninterp spec fn bitor_spec(self, rhs: OpenFlag) -> EnumSet<OpenFlag>;
}
impl From<OpenFlag> for EnumSet<OpenFlag> {
    #[verifier::external_body]
    fn from(f: OpenFlag) -> (r: EnumSet<OpenFlag>) ensures flags_of(r) == set![f] { unimplemented!() }
}
impl vstd::std_specs::convert::FromSpecImpl<OpenFlag> for EnumSet<OpenFlag> {
    open spec fn obeys_from_spec() -> bool { false }
    uninterp spec fn from_spec(f: OpenFlag) -> EnumSet<OpenFlag>;
}
pub struct Mode { pub verif_bits: u32 }
impl Mode { #[verifier::external_body] pub fn empty() -> Mode { unimplemented!() } }
pub struct CPath { pub verif_is_dev_tty: bool }
#[verifier::external_body]
pub fn verif_dev_tty() -> (r: &'static CPath) ensures r.verif_is_dev_tty { unimplemented!() }
pub enum Ev { Open { dev_tty: bool, cloexec: bool, noctty: bool, result: Result<Fd, Errno> }, MovedInternal { from: Fd, result: Result<Fd, Errno> } }
pub struct System { pub log: Ghost<Seq<Ev>> }
impl System {
    #[verifier::external_body]
    pub fn open(&mut self, path: &CPath, access: OfdAccess, flags: EnumSet<OpenFlag>, mode: Mode) -> (r: Result<Fd, Errno>)
        ensures final(self).log@ == old(self).log@.push(Ev::Open { dev_tty: path.verif_is_dev_tty, cloexec: flags_of(flags).contains(OpenFlag::CloseOnExec), noctty: flags_of(flags).contains(OpenFlag::NoCtty), result: r })
    { unimplemented!() }
}
pub mod io {
    use super::*;
    /// io.rs move_fd_internal (unit redir)
    #[verifier::external_body]
    pub fn move_fd_internal(system: &mut System, from: Fd) -> (r: Result<Fd, Errno>)
        ensures final(system).log@ == old(system).log@.push(Ev::MovedInternal { from, result: r })
    { unimplemented!() }
}
pub struct Env<S> { pub tty: Option<Fd>, pub system: System, pub verif_s: core::marker::PhantomData<S> }
/// `result == Err(Errno::EINVAL)` (derived PartialEq of Result)
#[verifier::external_body]
pub fn verif_is_einval(result: &Result<Fd, Errno>) -> (r: bool) ensures r == (*result == Err::<Fd, Errno>(Errno(22))) { unimplemented!() }
