# Unit assignstatus: the exit status a list of assignments leaves (kernel shared by C10 and C02).
AS = 'yash-semantics/src/assign.rs'
SEM = 'yash-env/src/semantics.rs'
MOD_HEAD = '''    use vstd::prelude::*;
    use std::ffi::c_int;
'''
L0 = 'old(env).verif_log@'
L1 = 'final(env).verif_log@'
UNIT = {
    'name': 'assignstatus',
    'property': 'C10',
    'rlimit': 60,
    'verus_args': ['--edition=2024'],
    'vacuity_floor': 1,
    'items': [
        ('@raw', 'pub mod asg {\n' + MOD_HEAD),
        (SEM, ['struct ExitStatus']),
        ('@file', 'prelude.rs'),
        (AS, ['fn perform_assignments'], {'ret': 'r', 'rewrites': ['strip-async'],
            'attrs': ['#[verifier::loop_isolation(false)]'],
            'token_rewrites': [('xtrace . as_deref_mut ( )', 'verif_reborrow(&mut xtrace)'),
                               ('for assign in assigns', 'for assign in verif_it: assigns')],
            'ensures': [
                # the assignments are performed in order, each once, up to the first one that fails
                'r matches Ok(st) ==> ' + L1 + '.len() == ' + L0 + '.len() + assigns@.len() && (forall|k: int| 0 <= k < assigns@.len() ==> (#[trigger] ' + L1 + '[' + L0 + '.len() + k]).what == assigns@[k].verif_id && ' + L1 + '[' + L0 + '.len() + k].outcome is Ok)',
                # XCU 2.9.1: the status is that of the LAST command substitution performed in any of them, None if there was none
                'r matches Ok(st) ==> st == last_subst_status(' + L1 + ', ' + L0 + '.len() as int, assigns@.len() as int)',
                'r matches Err(e) ==> ' + L1 + '.len() > ' + L0 + '.len() && ' + L1 + '.last().outcome == Err::<Option<ExitStatus>, Error>(e)',
                'forall|k: int| 0 <= k < ' + L0 + '.len() ==> #[trigger] ' + L1 + '[k] == ' + L0 + '[k]',
            ],
            'loops': {0: {'body_start': 'let ghost verif_l0 = env.verif_log@; let ghost verif_n0 = verif_it.index() as int;',
                'body_end': 'proof { lemma_status_prefix(verif_l0, env.verif_log@, old(env).verif_log@.len() as int, verif_n0); }',
                'invariant': [
                'env.verif_log@.len() == ' + L0 + '.len() + verif_it.index()',
                'forall|k: int| 0 <= k < ' + L0 + '.len() ==> #[trigger] env.verif_log@[k] == ' + L0 + '[k]',
                'forall|k: int| 0 <= k < verif_it.index() ==> (#[trigger] env.verif_log@[' + L0 + '.len() + k]).what == assigns@[k].verif_id && env.verif_log@[' + L0 + '.len() + k].outcome is Ok',
                'exit_status == last_subst_status(env.verif_log@, ' + L0 + '.len() as int, verif_it.index() as int)',
            ]}}}),
        ('@raw', '}\n'),
    ],
}
