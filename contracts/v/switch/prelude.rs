// ---------------------------------------------------------------------------
// Prelude of unit switch: when a parameter counts as "unset or null" for the switch forms
// ${x-w} ${x=w} ${x?w} ${x+w} and their colon variants (XCU 2.6.2).
// ---------------------------------------------------------------------------

/// XCU 2.6.2: a parameter is *unset*, or *null* (set to the empty string), or set and not null.
/// yash's arrays: an array with no element and an array whose only element is the empty string
/// both count as null.
pub open spec fn vacancy_of(value: Option<Value>) -> Option<Vacancy> {
    match value {
        None => Some(Vacancy::Unset),
        Some(Value::Scalar(s)) => if s@.len() == 0 { Some(Vacancy::EmptyScalar) } else { None },
        Some(Value::Array(a)) =>
            if a@.len() == 0 { Some(Vacancy::ValuelessArray) }
            else if a@.len() == 1 && a@[0]@.len() == 0 { Some(Vacancy::EmptyValueArray) }
            else { None },
    }
}

/// The table of XCU 2.6.2: without the colon only an unset parameter takes the alternative;
/// with the colon an unset or null parameter does.
pub open spec fn condition_of(cond: SwitchCondition, vacancy: Option<Vacancy>) -> ValueCondition {
    match vacancy {
        None => ValueCondition::Occupied,
        Some(v) => match cond {
            SwitchCondition::UnsetOrEmpty => ValueCondition::Vacant(v),
            SwitchCondition::Unset => if v is Unset { ValueCondition::Vacant(Vacancy::Unset) } else { ValueCondition::Occupied },
        },
    }
}
