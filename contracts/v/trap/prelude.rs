// ---------------------------------------------------------------------------
// Prelude of unit trap (hand-written specification text and model types).
// ---------------------------------------------------------------------------

/// Placeholder for yash_env::source::Location (an Rc-linked source position): it is only stored
/// and compared, never inspected, by the functions of this unit.
#[derive(Clone, Debug, Eq, PartialEq)]
pub struct Location { pub id: u64 }

/// Model of the system interface `yash_env::trap::SignalSystem`.  The real trait returns a
/// future from `set_disposition` and takes `&self`; here the call is synchronous and takes
/// `&mut self` so that its effect has a specification.  This is the ASSUMED contract of the
/// operating system side: `installed` is the disposition currently installed per signal.
pub trait SignalSystem {
    // signal numbers of the system (the real trait inherits them from `Signals`)
    const SIGKILL: signal::Number;
    const SIGSTOP: signal::Number;
    const SIGCHLD: signal::Number;
    const SIGINT: signal::Number;
    const SIGQUIT: signal::Number;
    const SIGTERM: signal::Number;
    const SIGTSTP: signal::Number;
    const SIGTTIN: signal::Number;
    const SIGTTOU: signal::Number;

    spec fn installed(&self, signal: signal::Number) -> Disposition;
    /// whether installing `disposition` for `signal` is refused by the system (a function of the state)
    spec fn refuses(&self, signal: signal::Number, disposition: Disposition) -> bool;

    fn get_disposition(&self, signal: signal::Number) -> (r: Result<Disposition, Errno>)
        ensures r is Ok ==> r->Ok_0 == self.installed(signal);

    fn set_disposition(&mut self, signal: signal::Number, disposition: Disposition) -> (r: Result<Disposition, Errno>)
        ensures
            r is Err <==> old(self).refuses(signal, disposition),
            forall|s: signal::Number, d: Disposition| final(self).refuses(s, d) == old(self).refuses(s, d),
            r is Ok ==> r->Ok_0 == old(self).installed(signal) && final(self).installed(signal) == disposition,
            r is Ok ==> forall|s: signal::Number| s != signal ==> final(self).installed(s) == old(self).installed(s),
            r is Err ==> forall|s: signal::Number| final(self).installed(s) == old(self).installed(s);
}

/// What `#[derive(thiserror::Error)]` with `#[from] Errno` expands to (the derive macro is not
/// available in a single-file build; this is its documented expansion).
impl From<Errno> for SetActionError {
    fn from(e: Errno) -> (r: SetActionError)
        ensures r == SetActionError::SystemError(e)
    {
        SetActionError::SystemError(e)
    }
}

pub assume_specification<T>[ core::mem::replace::<T> ](dest: &mut T, src: T) -> (r: T)
    ensures r == *old(dest), *final(dest) == src;

/// Disposition a trap action asks for (XCU 2.15 trap: default / ignore / catch).
pub open spec fn disp_of(a: Action) -> Disposition {
    match a {
        Action::Default => Disposition::Default,
        Action::Ignore => Disposition::Ignore,
        Action::Command(_) => Disposition::Catch,
    }
}

impl vstd::std_specs::convert::FromSpecImpl<&Action> for Disposition {
    open spec fn obeys_from_spec() -> bool { true }
    open spec fn from_spec(a: &Action) -> Disposition { disp_of(*a) }
}

impl vstd::std_specs::convert::FromSpecImpl<Errno> for SetActionError {
    open spec fn obeys_from_spec() -> bool { true }
    open spec fn from_spec(e: Errno) -> SetActionError { SetActionError::SystemError(e) }
}

// ---- abstract view of one entry of the trap table ----------------------------------------
impl GrandState {
    pub closed spec fn cur(&self) -> TrapState { self.current_state }
    pub closed spec fn parent(&self) -> Option<TrapState> { self.parent_state }
    pub closed spec fn internal(&self) -> Disposition { self.internal_disposition }
    /// the disposition that must be installed: the maximum of the shell's own need and the user's action
    pub open spec fn wanted(&self) -> Disposition { dmax(self.internal(), disp_of(self.cur().action)) }
}

pub open spec fn drank(d: Disposition) -> int {
    match d { Disposition::Default => 0, Disposition::Ignore => 1, Disposition::Catch => 2 }
}
/// Default < Ignore < Catch
pub open spec fn dmax(a: Disposition, b: Disposition) -> Disposition { if drank(a) >= drank(b) { a } else { b } }

pub open spec fn e_key(e: Entry<'_, Condition, GrandState>) -> Condition {
    match e { Entry::Vacant(v) => v.spec_key(), Entry::Occupied(o) => o.spec_key() }
}
/// record before the call (None = no record yet)
pub open spec fn e_pre(e: Entry<'_, Condition, GrandState>) -> Option<GrandState> {
    match e { Entry::Vacant(v) => None, Entry::Occupied(o) => Some(o.value()) }
}
/// record after the call
#[verifier::prophetic]
pub open spec fn e_post(e: Entry<'_, Condition, GrandState>) -> Option<GrandState> {
    match e { Entry::Vacant(v) => v.final_value(), Entry::Occupied(o) => o.final_value() }
}

/// The invariant of C11 for one signal: whenever there is a record, the disposition actually
/// installed is the one implied by the user's action combined with the shell's own need.
pub open spec fn inv(rec: Option<GrandState>, installed: Disposition) -> bool {
    rec is Some ==> installed == rec->0.wanted()
}

pub open spec fn initial_state(d: Disposition) -> TrapState {
    TrapState {
        action: match d { Disposition::Default => Action::Default, Disposition::Ignore => Action::Ignore, Disposition::Catch => Action::Default },
        origin: Origin::Inherited,
        pending: false,
    }
}

pub open spec fn others_unchanged<S: SignalSystem>(pre: S, post: S, sig: signal::Number) -> bool {
    forall|s: signal::Number| s != sig ==> post.installed(s) == pre.installed(s)
}
pub open spec fn all_unchanged<S: SignalSystem>(pre: S, post: S) -> bool {
    forall|s: signal::Number| post.installed(s) == pre.installed(s)
}

// ---- derived PartialEq / Ord (assumed: `#[derive]` yields structural equality and declaration order) --
impl vstd::std_specs::cmp::PartialEqSpecImpl for Disposition {
    open spec fn obeys_eq_spec() -> bool { true }
    open spec fn eq_spec(&self, other: &Disposition) -> bool { *self == *other }
}
impl vstd::std_specs::cmp::PartialEqSpecImpl for Action {
    open spec fn obeys_eq_spec() -> bool { true }
    open spec fn eq_spec(&self, other: &Action) -> bool { *self == *other }
}
impl vstd::std_specs::cmp::PartialEqSpecImpl for Origin {
    open spec fn obeys_eq_spec() -> bool { true }
    open spec fn eq_spec(&self, other: &Origin) -> bool { *self == *other }
}
impl vstd::std_specs::cmp::PartialEqSpecImpl for EnterSubshellOption {
    open spec fn obeys_eq_spec() -> bool { true }
    open spec fn eq_spec(&self, other: &EnterSubshellOption) -> bool { *self == *other }
}
pub open spec fn dcmp(a: Disposition, b: Disposition) -> core::cmp::Ordering {
    if drank(a) < drank(b) { core::cmp::Ordering::Less } else if drank(a) == drank(b) { core::cmp::Ordering::Equal } else { core::cmp::Ordering::Greater }
}
impl vstd::std_specs::cmp::PartialOrdSpecImpl for Disposition {
    open spec fn obeys_partial_cmp_spec() -> bool { true }
    open spec fn partial_cmp_spec(&self, other: &Disposition) -> Option<core::cmp::Ordering> { Some(dcmp(*self, *other)) }
}
impl vstd::std_specs::cmp::OrdSpecImpl for Disposition {
    open spec fn obeys_cmp_spec() -> bool { true }
    open spec fn cmp_spec(&self, other: &Disposition) -> core::cmp::Ordering { dcmp(*self, *other) }
}

/// ASSUMED contract of `Result::unwrap_or_default` (used on `Result<(), Errno>`: the error is dropped)
pub assume_specification<T: std::default::Default, E>[ std::result::Result::<T, E>::unwrap_or_default ](r: std::result::Result<T, E>) -> (v: T)
    ensures r is Ok ==> v == r->Ok_0;
