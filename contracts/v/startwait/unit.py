# Unit startwait: Config::start_and_wait (kernel of C13).
CFG = 'yash-env/src/subshell/config.rs'
SUB = 'yash-env/src/subshell.rs'
MOD_HEAD = '''    use vstd::prelude::*;
'''
M0 = 'old(env).mon@'
M1 = 'final(env).mon@'
N0 = M0 + '.halts.len()'
UNIT = {
    'name': 'startwait',
    'property': 'C13',
    'rlimit': 60,
    'verus_args': ['--edition=2024'],
    'vacuity_floor': 1,
    'items': [
        ('@raw', 'pub mod sw {\n' + MOD_HEAD),
        (SUB, ['enum JobControl']),
        (CFG, ['struct Config']),
        ('@file', 'prelude.rs'),
        (CFG, ['impl Config', 'fn start_and_wait'], {'ret': 'r', 'rewrites': ['strip-async', 'let-chain-nest'],
            'attrs': ['#[verifier::loop_isolation(false)]', '#[verifier::allow_complex_invariants]', '#[verifier::exec_allows_no_decreases_clause]'],
            'entry_ghost': 'let ghost verif_m0 = env.mon@;',
            # rule loop-break-value: `let X = loop { .. break E; .. };` -> `let V; loop { .. V = E; break; .. } let X = V;` (Verus has
            # no `break` with a value; the same single assignment on the same path)
            'token_rewrites': [
                ('let result = loop', 'let verif_lv: ProcessResult; loop'),
                ('break result ; } } ;', 'verif_lv = result; break; } } let result = verif_lv;'),
            ],
            'sig_token_rewrites': [("F : AsyncFnOnce ( & mut Env < S > , Option < JobControl > ) + 'static ,", '')],
            'ensures': [
                # exactly one child is started
                M1 + '.starts == ' + M0 + '.starts + 1',
                # it could not be started: nothing is awaited
                M1 + '.started is None ==> r is Err && ' + M1 + '.halts == ' + M0 + '.halts',
                # every halt awaited is one of exactly that child
                M1 + '.started is Some ==> ({ let s = ' + M1 + '.started->0; ' + M1 + '.halts.len() >= ' + N0 + ' && ' + M1 + '.halts.subrange(0, ' + N0 + ' as int) == ' + M0 + '.halts && '
                '(forall|i: int| ' + N0 + ' <= i < ' + M1 + '.halts.len() ==> (#[trigger] ' + M1 + '.halts[i]).0 == s.0) })',
                # the answer: that child, with the LAST halt reported; a mere stop only if the child is job-controlled; and every
                # earlier report was a stop of a child without job control (which goes on being awaited)
                '(' + M1 + '.started is Some && r is Ok) ==> ({ let s = ' + M1 + '.started->0; let a = r->Ok_0; a.0 == s.0 && ' + M1 + '.halts.len() > ' + N0 + ' && a.1 == ' + M1 + '.halts.last().1 && '
                '(a.1.verif_stopped ==> s.1 is Some) && '
                '(forall|i: int| ' + N0 + ' <= i < ' + M1 + '.halts.len() - 1 ==> (#[trigger] ' + M1 + '.halts[i]).1.verif_stopped && s.1 is None) })',
            ],
            # alternative annotation set (same contract) for a body that awaits WITHOUT a loop: nothing to annotate, judged as it stands
            'alt': [{'forbids': ['loop', 'while', 'for'], 'token_rewrites': [], 'loops': {}, 'entry_ghost': None}],
            'loops': {0: {'invariant': [
                'env.mon@.started == Some((pid, job_control))', 'env.mon@.starts == verif_m0.starts + 1',
                'env.mon@.halts.len() >= verif_m0.halts.len()', 'env.mon@.halts.subrange(0, verif_m0.halts.len() as int) == verif_m0.halts',
                'forall|i: int| verif_m0.halts.len() <= i < env.mon@.halts.len() ==> (#[trigger] env.mon@.halts[i]).0 == pid',
                ],
                'invariant_except_break': [
                'forall|i: int| verif_m0.halts.len() <= i < env.mon@.halts.len() ==> (#[trigger] env.mon@.halts[i]).1.verif_stopped && job_control is None',
                ],
                'ensures': [
                'env.mon@.halts.len() > verif_m0.halts.len()', 'verif_lv == env.mon@.halts.last().1', 'verif_lv.verif_stopped ==> job_control is Some',
                'forall|i: int| verif_m0.halts.len() <= i < env.mon@.halts.len() - 1 ==> (#[trigger] env.mon@.halts[i]).1.verif_stopped && job_control is None',
            ]}}}),
        ('@raw', '}\n'),
    ],
}
