"""Confirm a seeded change in a scratch worktree, run the /verif check against it on /repo, and
file it under /verif/seeded/<id>/ (patch.diff, demo, meta.json).

usage: seedconfirm.py <seed-id> <property> <diff> <demo.rs> <placement> <crates,comma> [<demo-filter>]
  placement:  file:<relative path of the test file>      (integration test file)
              append:<relative path of the source file>  (insert before the last `}` of that file, i.e.
                                                          inside its trailing `mod tests`)
"""
import json
import os
import re
import shutil
import subprocess
import sys
import time

VERIF = os.path.dirname(os.path.dirname(os.path.abspath(__file__)))
WT = '/tmp/confirm_wt'
TARGET = '/tmp/confirm_target'


def sh(cmd, cwd=None, timeout=3600):
    # runs against seeded changes must not overwrite the committed evidence of the unchanged tree
    env = dict(os.environ, CARGO_TARGET_DIR=TARGET, CARGO_NET_OFFLINE='true', LANG='C', VERIF_EVIDENCE_DIR='/tmp/seed_evidence')
    p = subprocess.run(cmd, shell=True, cwd=cwd, capture_output=True, text=True, timeout=timeout, env=env)
    return p.returncode, (p.stdout + p.stderr)


def main():
    sid, prop, diff, demo, placement, crates = sys.argv[1:7]
    filt = sys.argv[7] if len(sys.argv) > 7 else None
    crates = crates.split(',')
    log = []
    if not os.path.exists(WT):
        rc, out = sh('git -C /repo worktree add -f %s HEAD' % WT)
        assert rc == 0, out
    sh('git checkout -- . && git clean -fdq', cwd=WT)
    # the scratch worktree follows /repo's HEAD (it may have been created before a fix commit)
    rc, out = sh('git checkout -q --detach $(git -C /repo rev-parse HEAD)', cwd=WT)
    assert rc == 0, out
    mode, rel = placement.split(':', 1)
    demo_text = open(demo).read()

    def place():
        if mode == 'file':
            os.makedirs(os.path.dirname(os.path.join(WT, rel)), exist_ok=True)
            shutil.copy(demo, os.path.join(WT, rel))
        else:
            p = os.path.join(WT, rel)
            s = open(p).read()
            i = s.rstrip().rfind('}')
            s = s[:i] + '\n' + demo_text + '\n' + s[i:]
            open(p, 'w').write(s)

    if mode == 'file':
        tname = os.path.splitext(os.path.basename(rel))[0]
        demo_cmd = 'cargo test -p %s --offline --test %s' % (crates[0], tname)
    else:
        demo_cmd = 'cargo test -p %s --offline --lib %s' % (crates[0], filt)
    # 1. demo on the unmodified tree
    place()
    rc, out = sh(demo_cmd, cwd=WT)
    ok_without = rc == 0 and 'test result: ok' in out and not re.search(r'running 0 tests\s+test result: ok\. 0 passed.*\n*$', out)
    log.append({'cmd': demo_cmd, 'tree': 'unmodified + demo', 'rc': rc, 'tail': out[-600:]})
    # 2. apply the change
    rc, out = sh('git apply %s' % os.path.abspath(diff), cwd=WT)
    log.append({'cmd': 'git apply patch.diff', 'rc': rc, 'tail': out[-300:]})
    assert rc == 0, out
    rc, out = sh(demo_cmd, cwd=WT)
    fails_with = rc != 0 and ('FAILED' in out or 'panicked' in out)
    log.append({'cmd': demo_cmd, 'tree': 'changed + demo', 'rc': rc, 'tail': out[-900:]})
    # 3. existing tests with the change (demo removed again)
    sh('git checkout -- . && git clean -fdq', cwd=WT)
    # the scratch worktree follows /repo's HEAD (it may have been created before a fix commit)
    rc, out = sh('git checkout -q --detach $(git -C /repo rev-parse HEAD)', cwd=WT)
    assert rc == 0, out
    rc, out = sh('git apply %s' % os.path.abspath(diff), cwd=WT)
    suite_ok = True
    rc, out = sh('cargo check --workspace --all-targets --offline', cwd=WT)
    log.append({'cmd': 'cargo check --workspace --all-targets --offline', 'tree': 'changed', 'rc': rc, 'tail': out[-300:]})
    suite_ok = suite_ok and rc == 0
    for c in crates:
        cmd = 'cargo test -p %s --offline' % c
        rc, out = sh(cmd, cwd=WT)
        res = re.findall(r'test result: (\w+)\. (\d+) passed; (\d+) failed', out)
        log.append({'cmd': cmd, 'tree': 'changed', 'rc': rc, 'results': res})
        suite_ok = suite_ok and rc == 0
    sh('git checkout -- . && git clean -fdq', cwd=WT)
    # the scratch worktree follows /repo's HEAD (it may have been created before a fix commit)
    rc, out = sh('git checkout -q --detach $(git -C /repo rev-parse HEAD)', cwd=WT)
    assert rc == 0, out
    confirmed = ok_without and fails_with and suite_ok
    print('demo passes without change:', ok_without, '| demo fails with change:', fails_with, '| existing tests pass with change:', suite_ok)
    # 4. our check against the change, on /repo itself
    det = None
    if confirmed and not os.environ.get('SEED_NO_CHECK'):
        rc, out = sh('git -C /repo status --porcelain')
        assert out.strip() == '', '/repo is not clean: ' + out
        rc, out = sh('git -C /repo apply %s' % os.path.abspath(diff))
        assert rc == 0, out
        try:
            t0 = time.time()
            rc, out = sh('bin/vcheck %s --tier quick' % prop, cwd=VERIF, timeout=7200)
            lines = [l for l in out.splitlines() if l.startswith(('VIOLATION', 'UNDECIDED', 'KNOWN-FINDING')) or ' -> ' in l]
            det = {'cmd': 'bin/vcheck %s --tier quick' % prop, 'exit': rc, 'lines': lines[:12], 'wall_s': round(time.time() - t0, 1)}
        finally:
            sh('git -C /repo checkout -- .')
        rc, out = sh('git -C /repo status --porcelain')
        assert out.strip() == '', '/repo not restored: ' + out
        print('check exit', det['exit'], det['lines'][:3])
    d = os.path.join(VERIF, 'seeded', sid)
    if confirmed:
        os.makedirs(d, exist_ok=True)
        shutil.copy(diff, os.path.join(d, 'patch.diff'))
        shutil.copy(demo, os.path.join(d, 'demo.rs'))
        meta = {}
        src_meta = os.path.join(os.path.dirname(diff), 'meta' + re.sub(r'\D', '', os.path.basename(diff)) + '.json')
        if os.path.exists(src_meta):
            try:
                meta = json.load(open(src_meta))
            except Exception:
                meta = {}
        meta2 = {
            'id': sid, 'property': prop,
            'breaks': meta.get('summary'), 'needs_to_manifest': meta.get('needs'),
            'touched_files': meta.get('touched_files'),
            'demo_placement': placement, 'demo_cmd': demo_cmd,
            'confirmed_by_me': {'demo_passes_without_change': ok_without, 'demo_fails_with_change': fails_with,
                                'existing_tests_pass_with_change': suite_ok, 'runs': log},
            'check_result': det,
            'detected': bool(det and det['exit'] == 1),
            'author': 'independent sub-agent (saw only the property text and a scratch worktree)',
        }
        json.dump(meta2, open(os.path.join(d, 'meta.json'), 'w'), indent=1)
        print('filed under', d, 'detected:', meta2['detected'])
    else:
        print('NOT confirmed; not filed. log tail:', json.dumps(log[-3:], indent=1)[:1500])


if __name__ == '__main__':
    main()
