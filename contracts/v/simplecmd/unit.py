# Unit simplecmd: the dispatcher of simple commands (kernel shared by C02, C10, C16).
SC = 'yash-semantics/src/command/simple_command.rs'
MOD_HEAD = '''    use vstd::prelude::*;
    use std::rc::Rc;
    use std::ops::ControlFlow::{self, Break, Continue};
'''
M0 = 'old(env).mon@'
M1 = 'final(env).mon@'
UNIT = {
    'name': 'simplecmd',
    'property': 'C02',
    'rlimit': 60,
    'verus_args': ['--edition=2024'],
    'vacuity_floor': 2,
    'items': [
        ('@raw', 'pub mod sc {\n' + MOD_HEAD),
        ('@file', 'prelude.rs'),
        (SC, ["impl<S: Runtime + 'static> Command<S> for syntax::SimpleCommand", 'fn execute'], {'ret': 'r', 'rewrites': ['strip-async'],
            'token_rewrites': [('use crate :: command :: search :: Target :: { Builtin , External , Function } ;', 'use crate::sc::command::search::Target::{Builtin, External, Function};')],
            'ensures': [
                # at most one executor runs, once, and it is the one for what the classifier answered for the first field; a
                # command without any field is the "absent" case; a failed expansion runs nothing
                M1 + '.executed.len() <= ' + M0 + '.executed.len() + 1',
                M1 + '.executed.len() == ' + M0 + '.executed.len() + 1 ==> ' + M1 + '.handled_errors == ' + M0 + '.handled_errors && (match ' + M1 + '.executed.last() { '
                'Kind::AbsentK => ' + M1 + '.classified == ' + M0 + '.classified, '
                'Kind::BuiltinK => ' + M1 + '.classified matches Some(Kind::BuiltinK), Kind::FunctionK => ' + M1 + '.classified matches Some(Kind::FunctionK), Kind::ExternalK => ' + M1 + '.classified matches Some(Kind::ExternalK) })',
                M1 + '.executed.len() == ' + M0 + '.executed.len() ==> ' + M1 + '.handled_errors == ' + M0 + '.handled_errors + 1 && ' + M1 + '.errexit_consulted == ' + M0 + '.errexit_consulted',
                # C10: errexit is consulted after the command, exactly once, unless the command itself diverted
                M1 + '.errexit_consulted <= ' + M0 + '.errexit_consulted + 1',
                'r is Continue ==> ' + M1 + '.errexit_consulted == ' + M0 + '.errexit_consulted + 1 || ' + M1 + '.executed.len() == ' + M0 + '.executed.len()',
                M1 + '.errexit_consulted == ' + M0 + '.errexit_consulted + 1 ==> ' + M1 + '.executed.len() == ' + M0 + '.executed.len() + 1',
            ]}),
        (SC, ['fn perform_assignments'], {'ret': 'r', 'rewrites': ['strip-async'],
            'token_rewrites': [('crate :: assign :: perform_assignments', 'crate::sc::assign::perform_assignments')],
            'ensures': [
                # C16: assignments that are to be exported with the command (regular built-in, function, external utility) are
                # made in the volatile scope - they vanish with the command -, the others (special built-in, no command) in
                # the global scope - they persist
                M1 + '.assign_scope matches Some(sc) && (export ==> sc is Volatile) && (!export ==> sc is Global)',
            ]}),
        ('@raw', '}\n'),
    ],
}
