// ---------------------------------------------------------------------------
// Prelude of unit readsyntax (property C20, kernel): yash-builtin/src/read/syntax.rs parse - what the read built-in makes of the
// option occurrences and operands the generic parser hands it.
// C20 "equivalent spellings of an invocation have identical ... effect": the interpretation is a function of the sequence of
// option occurrences (letter and option-argument, in order) and of the operands only: the delimiter is the one the LAST -d
// occurrence names (newline without one; NUL for an empty argument), a -d argument longer than one byte is rejected, raw mode
// holds exactly when -r occurs, the last operand is the last variable and the operands before it are the other variables, in
// order; no operand at all is rejected.
//
// Hand-written model text (ASSUMED): parse_arguments is an opaque call whose answer is all that is known; an occurrence of -d
// carries its argument; OptionSpec::get_short, OptionSet::get; validate_names (hands the names back or rejects); the byte length
// and first byte of a string are uninterpreted.
// ---------------------------------------------------------------------------
pub struct Location { pub verif_opaque: u8 }
pub struct Field { pub value: String, pub origin: Location }
pub struct ParseError { pub verif_opaque: u8 }
pub enum Error { CommonError(ParseError), MultibyteDelimiter { delimiter: Field }, MissingOperand, InvalidVariableName { name: Field }, NonPortableVariableName { name: Field } }
impl From<ParseError> for Error { fn from(e: ParseError) -> (r: Error) { Error::CommonError(e) } }
impl vstd::std_specs::convert::FromSpecImpl<ParseError> for Error {
    open spec fn obeys_from_spec() -> bool { true }
    open spec fn from_spec(e: ParseError) -> Error { Error::CommonError(e) }
}
pub struct OptionSpec { pub verif_short: Option<char> }
impl OptionSpec {
    #[verifier::external_body]
    pub fn get_short(&self) -> (r: Option<char>) ensures r == self.verif_short { unimplemented!() }
}
pub struct OptionOccurrence<'a> { pub spec: &'a OptionSpec, pub location: Location, pub argument: Option<Field> }
pub enum ShellOption { Portable, Other(u8) }
pub use ShellOption::Portable;
#[derive(Clone, Copy, PartialEq, Eq)] pub enum State { On, Off }
impl vstd::std_specs::cmp::PartialEqSpecImpl for State {
    open spec fn obeys_eq_spec() -> bool { true }
    open spec fn eq_spec(&self, other: &State) -> bool { *self == *other }
}
pub struct OptionSet { pub verif_portable: bool }
impl OptionSet {
    #[verifier::external_body]
    pub fn get(&self, o: ShellOption) -> (r: State) ensures o is Portable ==> (r == State::On <==> self.verif_portable) { unimplemented!() }
}
pub struct Env<S> { pub options: OptionSet, pub system: S }
pub struct ParserMode { pub verif_opaque: u8 }
pub struct Mode;
impl Mode { #[verifier::external_body] pub fn with_env<S>(env: &Env<S>) -> ParserMode { unimplemented!() } }
pub struct SpecTable { pub verif_opaque: u8 }
#[verifier::external_body]
pub fn verif_option_specs() -> &'static SpecTable { unimplemented!() }
/// one occurrence as the interpretation sees it: the letter and the option-argument
pub struct Occ { pub letter: Option<char>, pub arg: Option<Field> }
pub open spec fn occs(o: Seq<OptionOccurrence<'static>>) -> Seq<Occ> { Seq::new(o.len(), |i: int| Occ { letter: o[i].spec.verif_short, arg: o[i].argument }) }
pub uninterp spec fn parsed(args: Seq<Field>) -> Option<(Seq<Occ>, Seq<Field>)>;
/// common/syntax.rs parse_arguments on read's option table (-d ARG, -r): every occurrence is one of them, -d with its argument
#[verifier::external_body]
pub fn parse_arguments(specs: &'static SpecTable, mode: ParserMode, args: Vec<Field>) -> (r: std::result::Result<(Vec<OptionOccurrence<'static>>, Vec<Field>), ParseError>)
    ensures r matches Ok(p) ==> (forall|k: int| 0 <= k < p.0@.len() ==> (((#[trigger] p.0@[k]).spec.verif_short == Some('d') && p.0@[k].argument is Some) || p.0@[k].spec.verif_short == Some('r'))) && parsed(args@) == Some((occs(p.0@), p.1@)),
        r is Err ==> parsed(args@) is None
{ unimplemented!() }
pub uninterp spec fn byte_len(s: Seq<char>) -> nat;
pub uninterp spec fn first_byte(s: Seq<char>) -> u8;
#[verifier::external_body]
pub fn verif_byte_len(s: &String) -> (r: usize) ensures r == byte_len(s@) { s.len() }
#[verifier::external_body]
pub fn verif_first_byte(s: &String) -> (r: u8) requires byte_len(s@) >= 1 ensures r == first_byte(s@) { s.as_bytes()[0] }
/// what the names are found to be: acceptable, or the error
pub uninterp spec fn names_ok(names: Seq<Field>, portable: bool) -> bool;
#[verifier::external_body]
pub fn validate_names(names: Vec<Field>, portable: bool) -> (r: std::result::Result<Vec<Field>, Error>)
    ensures r is Ok <==> names_ok(names@, portable), r matches Ok(v) ==> v@ == names@, r matches Err(e) ==> !(e is MissingOperand)
{ unimplemented!() }
/// the delimiter the first n occurrences ask for: Ok(byte) or the first offending -d argument
pub open spec fn delim_of(o: Seq<Occ>, n: int) -> Option<u8>
    decreases n
{
    if n <= 0 { Some(10u8) } else {
        match delim_of(o, n - 1) {
            None => None,
            Some(d) => if o[n - 1].letter == Some('d') {
                let a = o[n - 1].arg->Some_0.value@;
                if byte_len(a) == 0 { Some(0u8) } else if byte_len(a) == 1 { Some(first_byte(a)) } else { None }
            } else { Some(d) }
        }
    }
}
pub open spec fn raw_of(o: Seq<Occ>, n: int) -> bool
    decreases n
{
    if n <= 0 { false } else { o[n - 1].letter == Some('r') || raw_of(o, n - 1) }
}
/// a rejected -d argument stays rejected whatever follows
pub proof fn lemma_delim_none(o: Seq<Occ>, i: int, n: int)
    requires 0 <= i <= n, delim_of(o, i) is None
    ensures delim_of(o, n) is None
    decreases n - i
{
    if i < n { lemma_delim_none(o, i + 1, n); }
}
