// Finding F6 (property C09), native demonstration against the real code.
// Place inside `mod tests` of yash-semantics/src/redir.rs and run
//     cargo test -p yash-semantics --offline --lib verif_no_fd_left_behind
// Fails on /repo before commit a6568e8 (left: [Fd(0), Fd(1), Fd(2)], right: [Fd(0), Fd(1), Fd(2), Fd(10)]), passes after.
    #[test]
    fn verif_no_fd_left_behind_when_open_fails() {
        let (mut env, state) = env_with_nofile_limit();
        let pid = env.main_pid;
        let before: Vec<Fd> = state.borrow().processes[&pid].fds().keys().copied().collect();
        {
            let mut env = RedirGuard::new(&mut env);
            let redir = "< no_such_file".parse().unwrap();
            env.perform_redir(&redir, None).now_or_never().unwrap().unwrap_err();
        }
        let after: Vec<Fd> = state.borrow().processes[&pid].fds().keys().copied().collect();
        assert_eq!(before, after);
    }

