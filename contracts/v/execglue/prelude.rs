// ---------------------------------------------------------------------------
// Prelude of unit execglue (properties C16 / C11 / C02, kernel): yash-env/src/semantics/command.rs replace_current_process,
// the last step before an external utility runs.
// C16 "the environment handed to executed programs is exactly the exported variables with their current values": the
// environment passed to execve is exactly what VariableSet::env_c_strings answers at that moment (unit varset has its
// contract), the arguments are the fields of the command.  C11 "never catching what should be ... defaulted": the shell's
// internal dispositions are disabled BEFORE the program image is replaced.  C02 / C10: when the utility cannot be
// executed the status left is 127 for "no such file" and 126 otherwise (after one attempt to run it as a shell script
// when the kernel does not recognise its format).
//
// Hand-written model text (ASSUMED): TrapSet::disable_internal_dispositions (unit trap), to_c_strings, env_c_strings,
// execve (which only returns on failure: the irrefutable `let Err(errno) = ...` on a Result<Infallible, Errno> is checked as a
// helper answering the errno) and fall_back_on_sh are opaque calls appending to an event log; the errno constants are model
// constants.  Await points dropped.
// ---------------------------------------------------------------------------
pub trait Exec {} pub trait ShellPath {} pub trait SignalSystem {}
pub struct Location { pub verif_opaque: u8 }
pub struct Field { pub value: String, pub origin: Location, pub verif_id: int }
pub struct CString { pub verif_id: int }
impl Clone for CString { #[verifier::external_body] fn clone(&self) -> (r: CString) ensures r == *self { unimplemented!() } }
pub open spec fn field_ids(s: Seq<Field>) -> Seq<int> { Seq::new(s.len(), |i: int| s[i].verif_id) }
/// `libc` values on this platform (assumed)
impl Errno { pub const ENOEXEC: Errno = Errno(8); pub const ENOENT: Errno = Errno(2); pub const ENOTDIR: Errno = Errno(20); }
pub struct ReplaceCurrentProcessError { pub path: CString, pub errno: Errno }
pub enum Ev { DisabledInternal, Execve { path: int, args: Seq<int>, envs: int }, FellBack { path: int } }
pub struct Env<S> { pub exit_status: ExitStatus, pub log: Ghost<Seq<Ev>>, pub verif_exported: Ghost<int>, pub system: S }
pub struct CArgs { pub verif_fields: Ghost<Seq<int>> }
pub struct CEnvs { pub verif_snapshot: Ghost<int> }
/// `env.traps.disable_internal_dispositions(&env.system)` (unit trap)
#[verifier::external_body]
pub fn verif_disable_internal<S>(env: &mut Env<S>) -> (r: Result<(), Errno>)
    ensures final(env).log@ == old(env).log@.push(Ev::DisabledInternal), final(env).verif_exported@ == old(env).verif_exported@, final(env).exit_status == old(env).exit_status
{ unimplemented!() }
#[verifier::external_body]
pub fn to_c_strings(args: Vec<Field>) -> (r: CArgs) ensures r.verif_fields@ == field_ids(args@) { unimplemented!() }
/// `env.variables.env_c_strings()` (unit varset): the exported variables, as they are now
#[verifier::external_body]
pub fn verif_env_c_strings<S>(env: &Env<S>) -> (r: CEnvs) ensures r.verif_snapshot@ == env.verif_exported@ { unimplemented!() }
/// `let Err(errno) = env.system.execve(path.as_c_str(), args.as_slice(), envs.as_slice())`: only returns when it failed
#[verifier::external_body]
pub fn verif_execve<S>(env: &mut Env<S>, path: &CString, args: &CArgs, envs: &CEnvs) -> (errno: Errno)
    ensures final(env).log@ == old(env).log@.push(Ev::Execve { path: path.verif_id, args: args.verif_fields@, envs: envs.verif_snapshot@ }),
        final(env).verif_exported@ == old(env).verif_exported@, final(env).exit_status == old(env).exit_status
{ unimplemented!() }
#[verifier::external_body]
pub fn verif_fall_back_on_sh<S>(env: &mut Env<S>, path: CString, args: CArgs, envs: CEnvs)
    ensures final(env).log@ == old(env).log@.push(Ev::FellBack { path: path.verif_id }), final(env).exit_status == old(env).exit_status
{ unimplemented!() }
