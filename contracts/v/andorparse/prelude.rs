// ---------------------------------------------------------------------------
// Prelude of unit andorparse (property C02, kernel): yash-syntax/src/parser/and_or.rs Parser::and_or_list - where `&&` and `||` are read.
// C02 "and-or lists": the and-or list handed out starts with the first pipeline parsed and continues with exactly the
// pipelines parsed after it, in order, each paired with the operator consumed right in front of it - AndThen exactly for `&&`,
// OrElse exactly for `||`; an operator is consumed only when it is `&&` or `||`, and a pipeline must follow it (newlines may come
// in between); when the first position is an alias substitution, or no pipeline at all, nothing has been consumed.
//
// Hand-written model text (ASSUMED): the parser is reduced to a monitor of what it consumed; pipeline() (unit pipelineparse has
// the real one), peek_token / take_token_raw (the token peeked is the token taken next), newline_and_here_doc_contents (unit
// cmdline) are opaque calls; Operator is reduced to the members this code names; `let x = loop { .. break x; .. }` by rule
// loop-break-value; the empty `while .. {}` that skips newlines gets an invariant.
// ---------------------------------------------------------------------------
pub mod lexm {
    use vstd::prelude::*;
    verus! {
    #[derive(Clone, Copy, Debug, Eq, PartialEq)]
    pub struct Keyword(pub u8);
    #[derive(Clone, Copy, Debug, Eq, PartialEq)]
    pub enum Operator { AndAnd, BarBar, Other(u8) }
    #[derive(Clone, Copy, Debug, Eq, PartialEq)]
    pub enum TokenId { Token(Option<Keyword>), Operator(Operator), IoNumber, IoLocation, EndOfInput }
    }
}
pub use lexm::Operator::{AndAnd, BarBar};
pub use lexm::TokenId::{Operator, Token};
pub use lexm::TokenId;
pub struct Location { pub verif_opaque: u8 }
impl Clone for Location { #[verifier::external_body] fn clone(&self) -> (r: Location) ensures r == *self { unimplemented!() } }
pub struct Word { pub location: Location }
pub struct LexToken { pub word: Word, pub id: TokenId, pub index: usize }
pub struct Pipeline { pub verif_id: int }
#[derive(Clone, Copy)] pub enum AndOr { AndThen, OrElse }
pub struct AndOrList { pub first: Pipeline, pub rest: Vec<(AndOr, Pipeline)> }
pub enum Rec<T> { AliasSubstituted, Parsed(T) }
pub enum SyntaxError { MissingPipeline(AndOr), Other(u8) }
pub struct ErrorCause { pub verif_opaque: u8 }
impl From<SyntaxError> for ErrorCause { #[verifier::external_body] fn from(e: SyntaxError) -> ErrorCause { unimplemented!() } }
pub struct Error { pub cause: ErrorCause, pub location: Location }
pub type Result<T> = std::result::Result<T, Error>;
/// what was consumed: the pipelines parsed, the operators taken (true: `&&`), other tokens taken, newlines skipped
pub struct Mon { pub parsed: Seq<int>, pub ops: Seq<bool>, pub others: nat, pub newlines: nat }
pub struct Parser<'a, 'b> { pub mon: Ghost<Mon>, pub verif_next: Ghost<TokenId>, pub verif_pd: core::marker::PhantomData<(&'a u8, &'b u8)> }
impl Parser<'_, '_> {
    /// parser/pipeline.rs Parser::pipeline (unit pipelineparse)
    #[verifier::external_body]
    pub fn pipeline(&mut self) -> (r: Result<Rec<Option<Pipeline>>>)
        ensures final(self).mon@ == (match r { Ok(Rec::Parsed(Some(p))) => Mon { parsed: old(self).mon@.parsed.push(p.verif_id), ..old(self).mon@ }, _ => old(self).mon@ })
    { unimplemented!() }
    #[verifier::external_body]
    pub fn peek_token(&mut self) -> (r: Result<&LexToken>)
        ensures final(self).mon@ == old(self).mon@, r matches Ok(t) ==> t.id == final(self).verif_next@
    { unimplemented!() }
    #[verifier::external_body]
    pub fn take_token_raw(&mut self) -> (r: Result<LexToken>)
        ensures r matches Ok(t) ==> t.id == old(self).verif_next@ && final(self).mon@ == (match t.id {
                TokenId::Operator(lexm::Operator::AndAnd) => Mon { ops: old(self).mon@.ops.push(true), ..old(self).mon@ },
                TokenId::Operator(lexm::Operator::BarBar) => Mon { ops: old(self).mon@.ops.push(false), ..old(self).mon@ },
                _ => Mon { others: old(self).mon@.others + 1, ..old(self).mon@ } }),
            r is Err ==> final(self).mon@ == old(self).mon@
    { unimplemented!() }
    /// parser/list.rs newline_and_here_doc_contents (unit cmdline): a newline and what belongs to it, or nothing
    #[verifier::external_body]
    pub fn newline_and_here_doc_contents(&mut self) -> (r: Result<bool>)
        ensures final(self).mon@ == (if r matches Ok(true) { Mon { newlines: old(self).mon@.newlines + 1, ..old(self).mon@ } } else { old(self).mon@ })
    { unimplemented!() }
}
