"""usage: addunit.py <unit> <props,comma> <explanation-file> <assumption-file>  -- register a Verus unit in tools/props.py"""
import sys
unit, props, ef, af = sys.argv[1:5]
expl = open(ef).read().strip(); assum = open(af).read().strip()
p = __file__.rsplit('/', 1)[0] + '/props.py'
s = open(p).read()
for prop in props.split(','):
    i = s.index("    '%s': {" % prop)
    j = s.index("'v_units': [", i); k = s.index(']', j)
    if "'%s'" % unit not in s[j:k]:
        s = s[:k] + ", '%s'" % unit + s[k:]
    e = s.index("),\n        'trusted_base'", i)
    s = s[:e] + "\n            %r" % (' ' + expl) + s[e:]
    a = s.index("'assumptions': [", i); b = s.index("\n        ],", a)
    s = s[:b] + "\n            %r," % assum + s[b:]
open(p, 'w').write(s)
