# Unit heredoc: the descriptor a here-document is read from (kernel of C14).
HD = 'yash-semantics/src/redir/here_doc.rs'
MOD_HEAD = '''    use vstd::prelude::*;
'''
UNIT = {
    'name': 'heredoc',
    'property': 'C14',
    'rlimit': 60,
    'verus_args': ['--edition=2024'],
    'vacuity_floor': 2,
    'controls': 'auto',
    'items': [
        ('@raw', 'pub mod hd {\n' + MOD_HEAD),
        ('@file', 'prelude.rs'),
        (HD, ['fn fill_content'], {'ret': 'r', 'rewrites': ['strip-async'], 'vis': 'pub',
            'sig_token_rewrites': [('S : Seek + WriteAll ,', '')],
            'token_rewrites': [('content . as_bytes ( )', 'verif_as_bytes(content)'), ('std :: io :: SeekFrom', 'SeekFrom')],
            'requires': ['old(env).system.files@.contains_key(fd)'],
            'ensures': [
                'final(env).system.files@.dom() == old(env).system.files@.dom()',
                'forall|o: Fd| o != fd && old(env).system.files@.contains_key(o) ==> #[trigger] final(env).system.files@[o] == old(env).system.files@[o]',
                # a file that was at its end gains exactly the bytes of the text and is rewound
                'r is Ok && old(env).system.files@[fd].pos == old(env).system.files@[fd].content.len() ==> final(env).system.files@[fd].content =~= old(env).system.files@[fd].content + utf8(content@) && final(env).system.files@[fd].pos == 0',
            ]}),
        (HD, ['fn open_fd'], {'ret': 'r', 'rewrites': ['strip-async'], 'vis': 'pub',
            'sig_token_rewrites': [('S : Close + Open + Seek + WriteAll ,', '')],
            'token_rewrites': [('Path :: new ( "/tmp" )', 'verif_tmp_dir()')],
            'ensures': [
                # "byte for byte": a fresh descriptor on a file holding exactly the body, read position at the beginning
                'r matches Ok(fd) ==> !old(env).system.files@.contains_key(fd) && final(env).system.files@.dom() =~= old(env).system.files@.dom().insert(fd) && final(env).system.files@[fd].content =~= utf8(content@) && final(env).system.files@[fd].pos == 0',
                'forall|o: Fd| old(env).system.files@.contains_key(o) ==> #[trigger] final(env).system.files@[o] == old(env).system.files@[o]',
                # failure: an error, and no descriptor is left behind - never one with part of the body
                'r is Err ==> final(env).system.files@ =~= old(env).system.files@ && r->Err_0 is TemporaryFileUnavailable',
            ]}),
        ('@raw', '}\n'),
    ],
}
