//! Kani harnesses for the getopts scanner (yash-builtin/src/getopts/model.rs next, OptionSpec::judge), injected as a child
//! module of that file.  Kernel of property C20: "grouped short options mean the same as separate ones, an
//! option-argument attached to its option or given as the next argument is the same, `--` ends option parsing", and an
//! unknown option is reported without losing the options grouped after it.
//! Bounded stand-in: concrete argument vectors; each is scanned to its end with repeated calls of next(), feeding the
//! indexes it answers back in, exactly as the built-in does; the occurrences reported and the index of the first operand
//! are compared with literal expectations.  Equivalent spellings carry the SAME expectation.
#![allow(dead_code, unused_imports)]
use super::*;

#[derive(Clone, Copy, PartialEq, Eq)]
enum Arg { None, Is(&'static str), Missing, Unknown }
type Occ = (char, Arg);

/// scans `args` to the end (at most 6 steps) and compares
fn scan_is(args: &[&'static str], spec: &'static str, want: &[Occ], operands_from: usize) {
    let mut arg_index = NonZeroUsize::new(1).unwrap();
    let mut char_index = NonZeroUsize::new(1).unwrap();
    let mut n = 0;
    let mut steps = 0;
    loop {
        assert!(steps <= 6, "the scan ends");
        steps += 1;
        let r = next(args.iter().copied(), OptionSpec::from(spec), arg_index, char_index);
        match r.option {
            None => {
                assert!(n == want.len(), "every option of the invocation is reported");
                assert!(r.next_arg_index.get() == operands_from, "the operands start where the options end");
                return;
            }
            Some(occ) => {
                assert!(n < want.len(), "no option is reported that the invocation does not contain");
                let (c, a) = want[n];
                assert!(occ.option == c, "the options are reported in order");
                match a {
                    Arg::None => assert!(occ.argument.is_none() && occ.error.is_none(), "an option without argument"),
                    Arg::Is(s) => assert!(occ.error.is_none() && occ.argument.as_deref() == Some(s), "the option-argument, attached or separate"),
                    Arg::Missing => assert!(occ.argument.is_none() && occ.error == Some(Error::MissingArgument), "a missing option-argument is an error"),
                    Arg::Unknown => assert!(occ.argument.is_none() && occ.error == Some(Error::UnknownOption), "an unknown option is an error"),
                }
                std::mem::forget(occ);
                n += 1;
                arg_index = r.next_arg_index;
                char_index = r.next_char_index;
            }
        }
    }
}

const A: Occ = ('a', Arg::None);
const C: Occ = ('c', Arg::None);
const X: Occ = ('x', Arg::Unknown);

// grouped = separate
#[kani::proof] #[kani::unwind(12)]
fn c20gq_grouped_equals_separate() {
    scan_is(&["-ac", "op"], "ab:c", &[A, C], 2);
    scan_is(&["-a", "-c", "op"], "ab:c", &[A, C], 3);
}
// attached = separate option-argument, also at the end of a group
#[kani::proof] #[kani::unwind(12)]
fn c20gq_attached_equals_separate_argument() {
    scan_is(&["-bfoo", "-a"], "ab:c", &[('b', Arg::Is("foo")), A], 3);
    scan_is(&["-b", "foo", "-a"], "ab:c", &[('b', Arg::Is("foo")), A], 4);
    scan_is(&["-abfoo"], "ab:c", &[A, ('b', Arg::Is("foo"))], 2);
    scan_is(&["-ab", "foo"], "ab:c", &[A, ('b', Arg::Is("foo"))], 3);
}
// `--` ends the options; a lone `-` and a word are operands
#[kani::proof] #[kani::unwind(12)]
fn c20gq_double_hyphen_and_operands() {
    scan_is(&["-a", "--", "-c"], "ab:c", &[A], 3);
    scan_is(&["-a", "-", "-c"], "ab:c", &[A], 2);
    scan_is(&["-a", "w", "-c"], "ab:c", &[A], 2);
    scan_is(&[], "ab:c", &[], 1);
}
// an unknown option is reported where it stands; the options grouped after it are not lost
#[kani::proof] #[kani::unwind(12)]
fn c20gq_unknown_option_in_a_group() {
    scan_is(&["-xac"], "ab:c", &[X, A, C], 2);
    scan_is(&["-x", "-a", "-c"], "ab:c", &[X, A, C], 4);
    scan_is(&["-axbfoo"], "ab:c", &[A, X, ('b', Arg::Is("foo"))], 2);
}
// a missing option-argument
#[kani::proof] #[kani::unwind(12)]
fn c20gq_missing_argument() {
    scan_is(&["-a", "-b"], "ab:c", &[A, ('b', Arg::Missing)], 3);
    scan_is(&["-ab"], "ab:c", &[A, ('b', Arg::Missing)], 2);
}
// option characters outside ASCII: positions inside a group are positions of CHARACTERS, so an option-argument attached after a
// multi-byte option letter is the same as the separate spelling
#[kani::proof] #[kani::unwind(12)]
fn c20gq_non_ascii_option_in_a_group() {
    const E: Occ = ('\u{e9}', Arg::None);
    scan_is(&["-\u{e9}xfoo"], "\u{e9}x:", &[E, ('x', Arg::Is("foo"))], 2);
    scan_is(&["-\u{e9}x", "foo"], "\u{e9}x:", &[E, ('x', Arg::Is("foo"))], 3);
    scan_is(&["-\u{e9}", "-x", "foo"], "\u{e9}x:", &[E, ('x', Arg::Is("foo"))], 4);
}
// negative control: a false expectation must be refuted
#[kani::proof] #[kani::unwind(12)]
fn c20gx_control() {
    scan_is(&["-ac"], "ab:c", &[A], 2);
}
