// ---------------------------------------------------------------------------
// Prelude of unit cmdline (property C18, kernel): yash-syntax/src/parser/list.rs Parser::command_line and
// Parser::newline_and_here_doc_contents - how far the parser looks when it parses one command line.
// C18 "each complete command runs before the next line is read or parsed ... no further than the running command needs": parsing
// a command line parses ONE list, takes at most ONE newline token - the one that ends the line -, reads the here-document
// contents that follow it, and after that newline looks at NOTHING: no token is peeked or taken beyond it (peeking would make
// the lexer read the next line before this command has run); the parser itself takes no other token.
//
// Hand-written model text (ASSUMED): the parser is reduced to a monitor of what it consumed; list() (the list parser),
// peek_token / take_token_raw (the token peeked is the token taken next), here_doc_contents, ensure_no_unread_here_doc and
// error_type_for_trailing_token_in_command_line are opaque calls; Operator is reduced to the member this code names; the
// `let list = loop { .. break list; .. }` of command_line by rule loop-break-value.
// ---------------------------------------------------------------------------
pub mod lexm {
    use vstd::prelude::*;
    verus! {
    #[derive(Clone, Copy, Debug, Eq, PartialEq)]
    pub struct Keyword(pub u8);
    #[derive(Clone, Copy, Debug, Eq, PartialEq)]
    pub enum Operator { Newline, Other(u8) }
    #[derive(Clone, Copy, Debug, Eq, PartialEq)]
    pub enum TokenId { Token(Option<Keyword>), Operator(Operator), IoNumber, IoLocation, EndOfInput }
    impl vstd::std_specs::cmp::PartialEqSpecImpl for TokenId {
        open spec fn obeys_eq_spec() -> bool { true }
        open spec fn eq_spec(&self, other: &TokenId) -> bool { *self == *other }
    }
    }
}
pub use lexm::Operator::Newline;
pub use lexm::TokenId::{Operator, Token};
pub use lexm::TokenId;
pub struct Location { pub verif_opaque: u8 }
impl Clone for Location { #[verifier::external_body] fn clone(&self) -> (r: Location) ensures r == *self { unimplemented!() } }
pub struct Word { pub location: Location }
pub struct LexToken { pub word: Word, pub id: TokenId, pub index: usize }
pub struct Item { pub verif_opaque: u8 }
pub struct List(pub Vec<Item>);
pub enum Rec<T> { AliasSubstituted, Parsed(T) }
pub struct SyntaxError { pub verif_opaque: u8 }
pub struct ErrorCause { pub verif_opaque: u8 }
impl From<SyntaxError> for ErrorCause { #[verifier::external_body] fn from(e: SyntaxError) -> ErrorCause { unimplemented!() } }
pub struct Error { pub cause: ErrorCause, pub location: Location }
pub type Result<T> = std::result::Result<T, Error>;
pub struct Mon {
    /// newline tokens taken / other tokens taken / lists parsed / here-document contents read
    pub newlines: nat, pub others: nat, pub lists: nat, pub heredocs: nat,
    /// how often a token was peeked or taken, or a list parsed, AFTER a newline token had been taken: reading ahead
    pub beyond: nat,
}
pub struct Parser<'a, 'b> { pub mon: Ghost<Mon>, pub verif_next: Ghost<TokenId>, pub verif_pd: core::marker::PhantomData<(&'a u8, &'b u8)> }
pub open spec fn looked(m: Mon) -> Mon { if m.newlines > 0 { Mon { beyond: m.beyond + 1, ..m } } else { m } }
impl Parser<'_, '_> {
    /// parser/list.rs Parser::list
    #[verifier::external_body]
    pub fn list(&mut self) -> (r: Result<Rec<List>>)
        ensures final(self).mon@ == (match r { Ok(Rec::Parsed(_)) => Mon { lists: looked(old(self).mon@).lists + 1, ..looked(old(self).mon@) }, _ => looked(old(self).mon@) })
    { unimplemented!() }
    #[verifier::external_body]
    pub fn peek_token(&mut self) -> (r: Result<&LexToken>)
        ensures final(self).mon@ == looked(old(self).mon@), r matches Ok(t) ==> t.id == final(self).verif_next@
    { unimplemented!() }
    /// the token peeked is the token taken
    #[verifier::external_body]
    pub fn take_token_raw(&mut self) -> (r: Result<LexToken>)
        ensures r matches Ok(t) ==> t.id == old(self).verif_next@ && final(self).mon@ == (if t.id == TokenId::Operator(lexm::Operator::Newline) { Mon { newlines: looked(old(self).mon@).newlines + 1, ..looked(old(self).mon@) } } else { Mon { others: looked(old(self).mon@).others + 1, ..looked(old(self).mon@) } }),
            r is Err ==> final(self).mon@ == looked(old(self).mon@)
    { unimplemented!() }
    /// the contents of the here-documents whose operators were on the line just ended: they FOLLOW the newline and belong to it
    #[verifier::external_body]
    pub fn here_doc_contents(&mut self) -> (r: Result<()>)
        ensures final(self).mon@ == (Mon { heredocs: old(self).mon@.heredocs + 1, ..old(self).mon@ })
    { unimplemented!() }
    #[verifier::external_body]
    pub fn ensure_no_unread_here_doc(&self) -> (r: Result<()>) { unimplemented!() }
}
#[verifier::external_body]
pub fn error_type_for_trailing_token_in_command_line(token_id: TokenId) -> Option<SyntaxError> { unimplemented!() }
