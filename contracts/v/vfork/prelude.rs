// ---------------------------------------------------------------------------
// Prelude of unit vfork (property C08, kernel): yash-env/src/system/virtual/process.rs Process::fork_from and
// Process::with_parent_and_group - what a process of the simulated system inherits at fork.
// C08 "on entry the subshell sees a copy of the parent's state" for the per-process state the simulated system keeps: the child
// has the parent's user and group IDs, process group, open file descriptors, umask, working directory, signal dispositions,
// blocked signals and resource limits; it is running, has the given parent, and starts with no pending or caught signal
// (XSH fork()).
//
// Hand-written model text (ASSUMED): the component types (descriptor table, disposition table, signal sets, waker sets, path,
// limits) are opaque values with constructors for the empty value and `clone` / `clone_from` giving an equal value.
// ---------------------------------------------------------------------------
macro_rules! opaque_value {
    ($($n:ident),*) => { verus! { $(
        pub struct $n { pub verif_v: int }
        impl $n {
            #[verifier::external_body] pub fn new() -> (r: $n) ensures r.verif_v == 0 { unimplemented!() }
            #[verifier::external_body] pub fn clone_from(&mut self, source: &$n) ensures *final(self) == *source { unimplemented!() }
        }
        impl Default for $n { #[verifier::external_body] fn default() -> (r: $n) ensures r.verif_v == 0 { unimplemented!() } }
        impl Clone for $n { #[verifier::external_body] fn clone(&self) -> (r: $n) ensures r == *self { unimplemented!() } }
    )* } }
}
opaque_value!(FdTable, PathBuf, WakerSet, DispositionTable, Sigset, LimitTable, SignalVec);
#[derive(Clone, Copy)] pub struct Pid(pub i32);
#[derive(Clone, Copy)] pub struct Uid(pub u32);
#[derive(Clone, Copy)] pub struct Gid(pub u32);
#[derive(Clone, Copy)] pub struct Mode(pub u32);
impl Default for Mode { #[verifier::external_body] fn default() -> (r: Mode) { unimplemented!() } }
pub enum ProcessState { Running, Halted(u8) }
pub struct ExecRecord { pub verif_opaque: u8 }
/// process.rs struct Process with its collection types as opaque values (model text; a field the code has and this does not
/// makes the unit UNDECIDED, not pass)
pub struct Process {
    pub ppid: Pid, pub pgid: Pid, pub uid: Uid, pub euid: Uid, pub gid: Gid, pub egid: Gid,
    pub fds: FdTable, pub umask: Mode, pub cwd: PathBuf, pub state: ProcessState, pub state_has_changed: bool,
    pub resumption_awaiters: WakerSet, pub dispositions: DispositionTable, pub blocked_signals: Sigset, pub pending_signals: Sigset,
    pub caught_signals: SignalVec, pub caught_signals_count: usize, pub signal_wakers: WakerSet,
    pub resource_limits: LimitTable, pub last_exec: Option<ExecRecord>,
}
