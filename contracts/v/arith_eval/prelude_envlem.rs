// Assumed facts about std formatting and two's complement (unit arith_eval).
pub mod envlem {
    use vstd::prelude::*;
    use super::ty::Value;
/// Decimal text of an integer as produced by `Display for i64` (uninterpreted).
pub uninterp spec fn dec(i: i64) -> Seq<char>;
/// Assumed: `impl Display for Value` (yash-arith/src/token.rs, kept external) prints the decimal text.
pub broadcast axiom fn axiom_value_to_string(v: Value, res: String)
    ensures
        #[trigger] vstd::string::to_string_from_display_ensures::<Value>(&v, res) <==> res@ == dec(v->0);

/// `!v` on the two's complement representation is -v-1.
pub broadcast proof fn lemma_i64_not(v: i64)
    ensures #[trigger] (!v) == -v - 1
{
    assert(!v == -v - 1) by (bit_vector);
}

}

