# Unit allexport: Env::get_or_create_variable (kernel of C16).
LIB = 'yash-env/src/lib.rs'
MOD_HEAD = '''    use vstd::prelude::*;
'''
UNIT = {
    'name': 'allexport',
    'property': 'C16',
    'rlimit': 40,
    'verus_args': ['--edition=2024'],
    'vacuity_floor': 1,
    'controls': {LIB + '::<S> Env<S>#1::get_or_create_variable': {'ensures': {'append': 'false'}}},
    'control_expect': ['get_or_create_variable'],
    'items': [
        ('@raw', 'pub mod ae1 {\n' + MOD_HEAD),
        ('@file', 'prelude.rs'),
        (LIB, ['impl<S> Env<S>#1', 'fn get_or_create_variable'], {'ret': 'r',
            'sig_token_rewrites': [('get_or_create_variable < N >', 'get_or_create_variable'), ('name : N', 'name: String'), ('where N : Into < String > ,', '')],
            'ensures': [
                # exactly this name and scope are asked for, once; the variable is exported here exactly under allexport
                'r.set.log@ =~= old(self).variables.log@.push(Ev::Requested { name: name@, scope }) + (if old(self).options.verif_allexport { seq![Ev::Exported { on: true }] } else { Seq::empty() })',
            ]}),
        ('@raw', '}\n'),
    ],
}
