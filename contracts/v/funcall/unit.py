# Unit funcall: calling a function (kernel shared by C02 and C16).
FN = 'yash-semantics/src/command/simple_command/function.rs'
MOD_HEAD = '''    use vstd::prelude::*;
    use std::rc::Rc;
    use std::ops::ControlFlow::{self, Break, Continue};
'''
R0 = 'old(env).verif_runs@'
R1 = 'final(env).verif_runs@'
UNIT = {
    'name': 'funcall',
    'property': 'C02',
    'rlimit': 60,
    'verus_args': ['--edition=2024'],
    'vacuity_floor': 1,
    'items': [
        ('@raw', 'pub mod fc {\n' + MOD_HEAD),
        ('@file', 'prelude.rs'),
        (FN, ['fn execute_function_body'], {'ret': 'r', 'rewrites': ['strip-async'],
            'token_rewrites': [
                ('hook ( & mut env )', 'hook.call(env.env)'),
                # `&mut guard` where `&mut Env` is expected (DerefMut of the guard) = the reference the guard holds
                ('function . body . execute ( & mut env )', 'function.body.execute(env.env)'),
                ('env . exit_status = exit_status', 'env.env.exit_status = exit_status', '*'),
            ],
            'ensures': [
                # the body runs exactly once ...
                R1 + '.len() == ' + R0 + '.len() + 1',
                # ... in a regular context of its own, on top of everything the caller had, whose positional parameters are
                # the fields of the call ...
                R1 + '.last().contexts.len() == old(env).verif_contexts@.len() + 1',
                'forall|i: int| 0 <= i < old(env).verif_contexts@.len() ==> #[trigger] ' + R1 + '.last().contexts[i] == old(env).verif_contexts@[i]',
                R1 + '.last().contexts.last() matches Context::Regular { positional_params } && positional_params.verif_fields == Seq::new(fields@.len(), |i: int| fields@[i].verif_id)',
                # ... which is gone afterwards (C16: locals and positional parameters vanish at return)
                'final(env).verif_contexts@ =~= old(env).verif_contexts@',
                # C02: `return` leaves only this function: the caller goes on, with the status the return carried (or the one
                # the body left); every other divert is handed on unchanged; a body that ends normally ends the call normally
                R1 + '.last().result matches ControlFlow::Break(Divert::Return(st)) ==> r is Continue && final(env).exit_status == (match st { Some(s) => s, None => ' + R1 + '.last().status_after })',
                '!(' + R1 + '.last().result matches ControlFlow::Break(Divert::Return(_))) ==> r == ' + R1 + '.last().result && final(env).exit_status == ' + R1 + '.last().status_after',
            ]}),
        ('@raw', '}\n'),
    ],
}
