// ---------------------------------------------------------------------------
// Prelude of unit trapsrun (property C11, kernel): running the trap actions of the signals caught so far, at a
// command boundary (yash-semantics/src/trap/signal.rs run_traps_for_caught_signals, run_trap_if_caught).
// "Each delivery of a trapped signal makes its action run exactly once, at the next command boundary (or on
// interrupting `wait`)": every caught signal the table hands out (which clears its pending flag: proved in unit trap)
// whose action is a command gets exactly one run of that command, in the order they are handed out; actions that are
// not commands run nothing; no action is run while another one is running; a divert from an action ends the round.
//
// Hand-written model text (ASSUMED): taking the next caught signal from the trap table, running one trap action
// (`run_trap`: lexer + read-eval loop, async), polling the signals and the two predicates on the environment are opaque
// calls observed by a ghost monitor (plain state, no quantifiers) in the reduced Env.
// ---------------------------------------------------------------------------
pub assume_specification<B, C>[ <ControlFlow<B, C> as core::ops::Try>::branch ](cf: ControlFlow<B, C>) -> (r: ControlFlow<<ControlFlow<B, C> as core::ops::Try>::Residual, <ControlFlow<B, C> as core::ops::Try>::Output>)
    ensures match cf { ControlFlow::Continue(c) => r == ControlFlow::<ControlFlow<B, core::convert::Infallible>, C>::Continue(c), ControlFlow::Break(b) => r == ControlFlow::<ControlFlow<B, core::convert::Infallible>, C>::Break(ControlFlow::Break(b)) };
pub assume_specification<B, C>[ <ControlFlow<B, C> as core::ops::FromResidual<ControlFlow<B, core::convert::Infallible>>>::from_residual ](res: ControlFlow<B, core::convert::Infallible>) -> (r: ControlFlow<B, C>)
    ensures res matches ControlFlow::Break(b) ==> r == ControlFlow::<B, C>::Break(b);
pub mod signal { #[derive(Clone, Copy, Debug, Eq, PartialEq)] pub struct Number(pub i32); }
pub struct Location { pub verif_id: int }
impl Clone for Location { #[verifier::external_body] fn clone(&self) -> (r: Location) ensures r == *self { unimplemented!() } }
pub enum Origin { Inherited, Subshell, User(Location) }
pub struct Code { pub verif_id: int }
pub enum Action { Default, Ignore, Command(Rc<Code>) }
pub struct TrapState { pub action: Action, pub origin: Origin, pub pending: bool }
#[derive(Clone, Copy)]
pub enum Condition { Exit, Signal(signal::Number) }
impl From<signal::Number> for Condition {
    fn from(n: signal::Number) -> (r: Condition) ensures r == Condition::Signal(n) { Condition::Signal(n) }
}
impl vstd::std_specs::convert::FromSpecImpl<signal::Number> for Condition {
    open spec fn obeys_from_spec() -> bool { true }
    open spec fn from_spec(n: signal::Number) -> Condition { Condition::Signal(n) }
}
pub struct ExitStatus(pub i32);
impl From<signal::Number> for ExitStatus {
    #[verifier::external_body]
    fn from(n: signal::Number) -> (r: ExitStatus) { unimplemented!() }
}
pub enum Divert { Interrupt(Option<ExitStatus>), Other(u8) }
pub type Result<T = ()> = ControlFlow<Divert, T>;
pub trait Runtime { const SIGINT: signal::Number; }
pub struct SignalList { pub verif_opaque: u8 }
impl SignalList {
    #[verifier::external_body]
    pub fn contains(&self, n: &signal::Number) -> (r: bool) { unimplemented!() }
}

/// the monitor: which caught signal was handed out last and has not had its action run yet, how many were handed
/// out / run, and whether anything went wrong
pub struct Mon {
    /// a trap round has been made since the last command was executed (and nothing else in between)
    pub round_done: bool,
    /// some command was executed without a trap round right before it
    pub unannounced_command: bool,
    pub commands: nat,
    /// the runs of the EXIT trap action: for which condition, which command
    pub exit_runs: Seq<(Condition, int)>,
    /// the trap action run last ended with a divert (break / return / exit / interrupt)
    pub last_trap_diverted: bool,
    /// a command was executed although the trap action run right before it had diverted
    pub command_after_divert: bool,
    pub owed: Option<(signal::Number, int)>,
    pub taken_commands: nat,
    pub runs: nat,
    /// an action was run that was not owed (wrong signal, wrong command, run twice), or a taken command was skipped
    pub wrong: bool,
    pub in_trap: bool,
}
pub struct Env<S> { pub verif_table: Ghost<Seq<(signal::Number, TrapState)>>, pub mon: Ghost<Mon>, pub system: S }

/// TrapSet::take_caught_signal: the next pending signal with its state, pending flag cleared (unit trap); None when
/// nothing is pending.  Taking another one while a command action is still owed is recorded as wrong.
#[verifier::external_body]
pub fn verif_take_caught<'a, S>(env: &'a mut Env<S>) -> (r: Option<(signal::Number, &'a TrapState)>)
    ensures
        // table invariant (ASSUMED here; unit trap: set_action records a command action with origin User, entering a
        // subshell replaces command actions): a command action was set by the user and carries its location
        r matches Some((n, st)) ==> (st.action is Command ==> st.origin is User),
        final(env).mon@ == (Mon {
            wrong: old(env).mon@.wrong || old(env).mon@.owed is Some,
            owed: (match r { Some((n, st)) => (match st.action { Action::Command(c) => Some((n, c.verif_id)), _ => None }), None => None }),
            taken_commands: old(env).mon@.taken_commands + (if r matches Some((n, st)) && st.action is Command { 1nat } else { 0nat }),
            ..old(env).mon@ })
{ unimplemented!() }
/// TrapSet::take_signal_if_caught (unit trap): the state of THIS signal if it is pending, pending flag cleared
#[verifier::external_body]
pub fn verif_take_if_caught<'a, S>(env: &'a mut Env<S>, signal: signal::Number) -> (r: Option<&'a TrapState>)
    ensures
        r matches Some(st) ==> (st.action is Command ==> st.origin is User),
        final(env).mon@ == (Mon {
            wrong: old(env).mon@.wrong || old(env).mon@.owed is Some,
            owed: (match r { Some(st) => (match st.action { Action::Command(c) => Some((signal, c.verif_id)), _ => None }), None => None }),
            taken_commands: old(env).mon@.taken_commands + (if r matches Some(st) && st.action is Command { 1nat } else { 0nat }),
            ..old(env).mon@ })
{ unimplemented!() }
/// super::run_trap: runs the command of one trap action (any result)
#[verifier::external_body]
pub fn run_trap<S>(env: &mut Env<S>, cond: Condition, code: Rc<Code>, origin: Location) -> (r: Result)
    ensures
        final(env).mon@ == (Mon {
            wrong: old(env).mon@.wrong || old(env).mon@.in_trap || !(cond matches Condition::Signal(n) && old(env).mon@.owed == Some((n, code.verif_id))),
            owed: None,
            last_trap_diverted: r is Break,
            runs: old(env).mon@.runs + 1,
            ..old(env).mon@ })
{ unimplemented!() }
impl<S: Runtime> Env<S> {
    #[verifier::external_body]
    pub fn poll_signals(&mut self) -> (r: Option<Rc<SignalList>>) ensures final(self).mon@ == (Mon { round_done: true, last_trap_diverted: false, ..old(self).mon@ }) { unimplemented!() }
    #[verifier::external_body]
    pub fn sigint_has_default_action(&self) -> (r: bool) { unimplemented!() }
}
/// whether a signal trap action is being run already (a chain of iterator adapters over the runtime stack: ASSUMED)
#[verifier::external_body]
pub fn in_trap<S>(env: &Env<S>) -> (r: bool) ensures r == env.mon@.in_trap { unimplemented!() }
/// `signals.is_some_and(|signals| signals.contains(&S::SIGINT))`
pub assume_specification<T, F: FnOnce(T) -> bool>[ Option::<T>::is_some_and ](o: Option<T>, f: F) -> (b: bool)
    requires o matches Some(v) ==> f.requires((v,)),
    ensures o is None ==> !b, o matches Some(v) ==> f.ensures((v,), b);

/// a complete command (yash-syntax List), executed by the interpreter: opaque
pub struct List { pub verif_id: int }
pub trait Command<S> { fn execute(&self, env: &mut Env<S>) -> Result; }
impl<S> Command<S> for List {
    #[verifier::external_body]
    fn execute(&self, env: &mut Env<S>) -> (r: Result)
        ensures final(env).mon@ == (Mon { unannounced_command: old(env).mon@.unannounced_command || !old(env).mon@.round_done, command_after_divert: old(env).mon@.command_after_divert || old(env).mon@.last_trap_diverted, round_done: false, commands: old(env).mon@.commands + 1, ..old(env).mon@ })
    { unimplemented!() }
}
impl<S> Env<S> {
    /// Env::update_all_subshell_statuses (unit waitsub): no effect on the traps
    #[verifier::external_body]
    pub fn update_all_subshell_statuses(&mut self) ensures final(self).mon@ == old(self).mon@ { unimplemented!() }
}

// ---- the EXIT trap (yash-semantics/src/trap/exit.rs) -------------------------------------------------------------
/// `env.traps.get_state(Condition::Exit).0`: the current state of the EXIT condition, if any (opaque; same table invariant)
#[verifier::external_body]
pub fn verif_get_exit_state<'a, S>(env: &'a Env<S>) -> (r: Option<&'a TrapState>)
    ensures r == exit_state(env), r matches Some(st) ==> (st.action is Command ==> st.origin is User)
{ unimplemented!() }
pub uninterp spec fn exit_state<S>(env: &Env<S>) -> Option<&TrapState>;
impl<S> Env<S> {
    /// Env::apply_result (unit errexit): moves the exit status of a divert into $?; no effect on the traps
    #[verifier::external_body]
    pub fn apply_result(&mut self, result: Result) ensures final(self).mon@ == old(self).mon@ { unimplemented!() }
}
/// running the EXIT trap: observed through a counter of its own (run_trap above is about signal traps)
#[verifier::external_body]
pub fn run_exit_action<S>(env: &mut Env<S>, cond: Condition, code: Rc<Code>, origin: Location) -> (r: Result)
    ensures final(env).mon@ == (Mon { exit_runs: old(env).mon@.exit_runs.push((cond, code.verif_id)), ..old(env).mon@ })
{ unimplemented!() }
