// ---------------------------------------------------------------------------
// Prelude of unit assignone (property C16, kernel): yash-semantics/src/assign.rs perform_assignment - one assignment.
// C16 "assignments ... exports ... a read-only variable is never modified": the value is expanded exactly once, BEFORE the
// variable is touched; the variable of exactly the assignment's name is asked for in exactly the scope the caller chose, once;
// it is assigned exactly the expanded value, once; it is exported exactly when the caller asked for it - and only after the
// assignment succeeded -, never un-exported; a refusal (read-only) comes back as an error and nothing is exported; the status of
// the last command substitution of the value is handed on.
//
// Hand-written model text (ASSUMED): expand_value (unit wordpipe has its parts), Env::get_or_create_variable,
// VariableRefMut::assign / export (units varset, variable have the real ones) are opaque calls recorded in a ghost log; the
// xtrace output (`write!` of the quoted name and value) is one opaque helper.
// ---------------------------------------------------------------------------
pub trait Runtime {}
pub struct Location { pub verif_opaque: u8 }
impl Clone for Location { #[verifier::external_body] fn clone(&self) -> (r: Location) ensures r == *self { unimplemented!() } }
#[derive(Clone, Copy, Debug, Eq, PartialEq)] pub struct ExitStatus(pub i32);
#[derive(Clone, Copy)] pub enum Scope { Global, Local, Volatile }
pub struct SynValue { pub verif_id: int }
pub struct Assign { pub name: String, pub value: SynValue, pub location: Location }
pub struct Value { pub verif_v: int }
pub struct XTrace { pub verif_opaque: u8 }
pub enum Ev { Expanded { value: int, ok: bool }, Requested { name: Seq<char>, scope: Scope }, Assigned { value: int, ok: bool }, Exported { on: bool } }
pub struct Env<S> { pub log: Ghost<Seq<Ev>>, pub system: S }
pub struct AssignError { pub new_value: Value, pub read_only_location: Location, pub assigned_location: Option<Location> }
pub struct AssignReadOnlyError { pub name: String, pub new_value: Value, pub read_only_location: Location, pub vacancy: Option<u8> }
pub enum ErrorCause { AssignReadOnly(AssignReadOnlyError), Other(u8) }
pub struct Error { pub cause: ErrorCause, pub location: Location }
pub type Result<T> = std::result::Result<T, Error>;
/// expansion.rs expand_value
#[verifier::external_body]
pub fn expand_value<S>(env: &mut Env<S>, value: &SynValue) -> (r: Result<(Value, Option<ExitStatus>)>)
    ensures final(env).log@ == old(env).log@.push(Ev::Expanded { value: value.verif_id, ok: r is Ok })
{ unimplemented!() }
pub struct VariableRefMut<'a, S> { pub env: &'a mut Env<S> }
impl<S> Env<S> {
    #[verifier::external_body]
    pub fn get_or_create_variable(&mut self, name: String, scope: Scope) -> (v: VariableRefMut<'_, S>)
        ensures v.env.log@ == old(self).log@.push(Ev::Requested { name: name@, scope }), final(self).log@ == final(v.env).log@
    { unimplemented!() }
}
impl<'a, S> VariableRefMut<'a, S> {
    #[verifier::external_body]
    pub fn assign(&mut self, value: Value, location: Location) -> (r: std::result::Result<Option<Value>, AssignError>)
        ensures mut_ref_future(final(self).env) == mut_ref_future(old(self).env), final(self).env.log@ == old(self).env.log@.push(Ev::Assigned { value: value.verif_v, ok: r is Ok }),
            r matches Err(e) ==> e.assigned_location is Some
    { unimplemented!() }
    #[verifier::external_body]
    pub fn export(&mut self, on: bool)
        ensures mut_ref_future(final(self).env) == mut_ref_future(old(self).env), final(self).env.log@ == old(self).env.log@.push(Ev::Exported { on })
    { unimplemented!() }
}
/// `write!(xtrace.assigns(), "{}={} ", yash_quote::quoted(&name), value.quote()).unwrap();`
#[verifier::external_body]
pub fn verif_trace(xtrace: &mut XTrace, name: &String, value: &Value) { unimplemented!() }
#[verifier::external_body]
pub fn verif_clone_string(s: &String) -> (r: String) ensures r@ == s@ { s.clone() }
