# Unit exportbi: the export and readonly built-ins (kernel of C16).
EX = 'yash-builtin/src/export.rs'
RO = 'yash-builtin/src/readonly.rs'
TS = 'yash-builtin/src/typeset.rs'
MOD_HEAD = '''    use vstd::prelude::*;
'''
E0 = 'old(env).executed@'
E1 = 'final(env).executed@'
def post(attr):
    return [
        # at most one command is executed
        E1 + '.len() <= ' + E0 + '.len() + 1', E1 + '.subrange(0, ' + E0 + '.len() as int) =~= ' + E0,
        # setting variables: the operands as parsed, the attribute of the built-in added, and ALWAYS the global scope
        '(' + E1 + '.len() == ' + E0 + '.len() + 1 && ' + E1 + '.last() is SetVariables) ==> ({ let sv = ' + E1 + '.last()->SetVariables_0; sv.scope is Global && sv.attrs@.len() >= 1 && sv.attrs@.last() == (' + attr + ', State::On) })',
        '(' + E1 + '.len() == ' + E0 + '.len() + 1 && ' + E1 + '.last() is PrintVariables) ==> ({ let pv = ' + E1 + '.last()->PrintVariables_0; pv.scope is Global && pv.attrs@.len() >= 1 && pv.attrs@.last() == (' + attr + ', State::On) })',
    ]
COMMON = [
    ('report_failure ( env , merge_reports ( & errors ) . unwrap ( ) )', 'verif_report_failure(env, &errors)'),
    ('match & mut command {', 'match &mut command {'),
]
UNIT = {
    'name': 'exportbi',
    'property': 'C16',
    'rlimit': 60,
    'verus_args': ['--edition=2024'],
    'vacuity_floor': 2,
    'items': [
        ('@raw', 'pub mod xp {\n' + MOD_HEAD),
        ('yash-env/src/option.rs', ['enum State']),
        (TS, ['enum Scope']),
        (TS, ['enum VariableAttr']),
        (TS, ['struct SetVariables'], {'drop_derives': 'all'}),
        (TS, ['struct PrintVariables'], {'drop_derives': 'all'}),
        ('@file', 'prelude.rs'),
        ('@raw', 'pub mod export {\n    use super::*;\n'),
        (EX, ['fn main'], {'ret': 'r', 'rewrites': ['strip-async'],
            'sig_token_rewrites': [('yash_env :: builtin :: Result', 'BuiltinResult')],
            'token_rewrites': COMMON + [
                ('unreachable ! ( "{sf:?}" )', 'verif_unreachable()'), ('unreachable ! ( "{pf:?}" )', 'verif_unreachable()'),
            ],
            # with the option table of export (only -p) the typeset syntax answers a command about variables
            'requires': ['forall|o: OptionOccurrences, ops: Seq<Field>| (#[trigger] interpreted(o, ops)) matches Some(c) ==> (c is SetVariables || c is PrintVariables)'],
            'ensures': post('VariableAttr::Export')}),
        ('@raw', '}\npub mod readonly {\n    use super::*;\n    pub type Result = BuiltinResult;\n'),
        (RO, ['fn main'], {'ret': 'r', 'rewrites': ['strip-async'],
            'token_rewrites': COMMON,
            'ensures': post('VariableAttr::ReadOnly')}),
        ('@raw', '}\n'),
        ('@raw', '}\n'),
    ],
}
