# Unit absenttarget: a simple command without a command name (kernel shared by C09, C16, C10 and C02).
AB = 'yash-semantics/src/command/simple_command/absent.rs'
SEM = 'yash-env/src/semantics.rs'
MOD_HEAD = '''    use vstd::prelude::*;
    use std::rc::Rc;
    use std::ops::ControlFlow::{self, Break, Continue};
'''
JOBNAME = '''handle_job_status(env, pid, result, || {
                redirs
                    .iter()
                    .format_with(" ", |redir, f| f(&format_args!("{redir}")))
                    .to_string()
            })'''
CHILD_SIG = ("fn verif_child<S: Runtime + 'static>(env: &mut Env<S>, _job_control: Option<JobControl>, redirs_2: Rc<Vec<Redir>>, exit_status: ExitStatus)\n"
    "    ensures\n"
    # in the child: the redirections are performed once, all of them
    "        final(env).verif_rcalls@ == old(env).verif_rcalls@.push(RCall { ids: redir_ids(redirs_2@), ok: final(env).verif_rcalls@.last().ok }),\n"
    # a failed one: reported once, the handler's answer applied, nothing else
    "        !final(env).verif_rcalls@.last().ok ==> final(env).verif_handled@ == old(env).verif_handled@ + 1 && final(env).verif_applied@.len() == old(env).verif_applied@.len() + 1,\n"
    # all succeeded: no report; the status is that of the last command substitution in them, else the one the command started with
    "        final(env).verif_rcalls@.last().ok ==> final(env).verif_handled@ == old(env).verif_handled@ && final(env).verif_applied@ == old(env).verif_applied@ && final(env).exit_status == (match final(env).verif_rstatus@ { Some(s) => s, None => exit_status }),\n"
    "        final(env).verif_acalls@ == old(env).verif_acalls@,\n"
    "{")
M = 'final(env)'
O = 'old(env)'
NONE = '(redirs@.len() == 0)'
UNIT = {
    'name': 'absenttarget',
    'property': 'C09',
    'rlimit': 100,
    'verus_args': ['--edition=2024'],
    'vacuity_floor': 1,
    'items': [
        ('@raw', 'pub mod at {\n' + MOD_HEAD),
        ('@file', 'prelude.rs'),
        (SEM, ['impl ExitStatus#1', 'const ERROR']),
        (AB, ['fn execute_absent_target'], {'ret': 'r', 'rewrites': ['strip-async'],
            'token_rewrites': [
                ('redirs . first ( )', 'verif_first(redirs)'),
                ('redir . body . operand ( ) . location . clone ( )', 'verif_location_of(redir)'),
                # rule closure-to-nested-fn (see the prelude)
                ('let subshell = Config :: foreground ( ) . start_and_wait ( env , async move | env , _job_control | {', CHILD_SIG),
                ('let env = & mut RedirGuard :: new ( env ) ;', 'let mut env = RedirGuard::new(env);'),
                ('XTrace :: from_options ( & env . options ) ; let redir_exit_status', 'XTrace::from_options(&env.env.options); let redir_exit_status'),
                ('xtrace . as_mut ( )', 'verif_as_mut(&mut xtrace)', '*'),
                ('redirs_2 . iter ( )', 'verif_slice(&redirs_2)'),
                ('error . handle ( env )', 'error.handle(env.env)'),
                ('env . apply_result ( result )', 'env.env.apply_result(result)', '*'),
                ('} } ; print ( env , xtrace )', '} }; print(env.env, xtrace)'),
                ('. exit_status = redir_exit_status', '.env.exit_status = redir_exit_status', '*'),
                ('} ) ; match subshell . await {', '} let subshell = verif_start_and_wait(env, redirs_2, exit_status); match subshell {'),
                (JOBNAME, 'verif_handle_job_status(env, pid, result)'),
                ('print_error ( env , "cannot start subshell to perform redirection" . into ( ) , errno . to_string ( ) . into ( ) , & first_redir_location , )', 'verif_print_start_error(env, &errno, &first_redir_location)'),
            ],
            'ensures': [
                # C09: the redirections are never performed in THIS shell
                M + '.verif_rcalls@ == ' + O + '.verif_rcalls@', M + '.verif_redirs@ == ' + O + '.verif_redirs@', M + '.verif_contexts@ == ' + O + '.verif_contexts@',
                # no redirection: no child; otherwise exactly one child, for exactly these redirections and the status handed in
                NONE + ' ==> ' + M + '.verif_children@ == ' + O + '.verif_children@',
                '!' + NONE + ' ==> ' + M + '.verif_children@ == ' + O + '.verif_children@.push((redir_ids(redirs@), exit_status))',
                # it could not be started: an interrupt with the error status, no assignment is made
                '!' + NONE + ' && ' + M + '.verif_awaited@ is None ==> r == ControlFlow::<Divert, ()>::Break(Divert::Interrupt(Some(ExitStatus::ERROR))) && ' + M + '.verif_acalls@ == ' + O + '.verif_acalls@',
                # it was: its result (of exactly that child) is interpreted once; a divert from that is handed on, no assignment
                '!' + NONE + ' && ' + M + '.verif_awaited@ is Some ==> (' + M + '.verif_job_status@ matches Some(js) && ' + M + '.verif_awaited@ == Some((js.0, js.1)) && (js.2 matches ControlFlow::Break(d) ==> r == ControlFlow::<Divert, ()>::Break(d) && ' + M + '.verif_acalls@ == ' + O + '.verif_acalls@))',
                # C16: otherwise the assignments are made here, once, all of them, NOT exported, in the caller's own contexts
                '(' + NONE + ' || (' + M + '.verif_awaited@ is Some && ' + '(' + M + '.verif_job_status@->0).2 is Continue)) ==> ' + M + '.verif_acalls@.len() == ' + O + '.verif_acalls@.len() + 1 && !' + M + '.verif_acalls@.last().export'
                ' && ' + M + '.verif_acalls@.last().ids == assign_ids(assigns@) && ' + M + '.verif_acalls@.last().contexts == ' + O + '.verif_contexts@ && ' + M + '.verif_acalls@.last().redirs == ' + O + '.verif_redirs@'
                ' && (!' + M + '.verif_acalls@.last().ok ==> r is Break)'
                # C02: `$?` is the status of the last command substitution in the assignments, else what the child reported, else
                # (no redirections) the status handed in
                ' && (' + M + '.verif_acalls@.last().ok ==> r is Continue && (' + M + '.verif_astatus@ matches Some(st) ==> ' + M + '.exit_status == st)'
                ' && (' + M + '.verif_astatus@ is None ==> ' + M + '.exit_status == (if ' + NONE + ' { exit_status } else { status_of((' + M + '.verif_job_status@->0).1) })))',
            ]}),
        ('@raw', '}\n'),
    ],
}
