"""Re-run the quick check of each seeded change against the CURRENT machinery: apply seeded/<id>/patch(_ported).diff to
/repo, run bin/vcheck <property> --tier quick (evidence redirected), restore /repo, record the outcome in
seeded/<id>/meta.json under 'recheck'.  usage: seedrecheck.py [id-prefix ...]"""
import json, os, subprocess, sys, time

VERIF = os.path.dirname(os.path.dirname(os.path.abspath(__file__)))


def sh(cmd, cwd=None, timeout=7200):
    env = dict(os.environ, CARGO_NET_OFFLINE='true', LANG='C', VERIF_EVIDENCE_DIR='/tmp/seed_evidence')
    p = subprocess.run(cmd, shell=True, cwd=cwd, capture_output=True, text=True, timeout=timeout, env=env)
    return p.returncode, p.stdout + p.stderr


def main():
    want = sys.argv[1:]
    ids = sorted(os.listdir(os.path.join(VERIF, 'seeded')))
    for sid in ids:
        d = os.path.join(VERIF, 'seeded', sid)
        if want and not any(sid.startswith(w) for w in want):
            continue
        mp = os.path.join(d, 'meta.json')
        if not os.path.exists(mp):
            continue
        meta = json.load(open(mp))
        patch = os.path.join(d, 'patch_ported.diff')
        if not os.path.exists(patch):
            patch = os.path.join(d, 'patch.diff')
        rc, out = sh('git -C /repo status --porcelain')
        assert out.strip() == '', '/repo is not clean: ' + out
        rc, out = sh('git -C /repo apply --check %s' % patch)
        if rc != 0:
            meta['recheck'] = {'applies': False, 'note': 'patch does not apply to the current /repo HEAD (a later fix: commit touched the same lines); see the ported variant if any'}
            json.dump(meta, open(mp, 'w'), indent=1)
            print(sid, 'DOES NOT APPLY')
            continue
        sh('git -C /repo apply %s' % patch)
        t0 = time.time()
        try:
            rc, out = sh('bin/vcheck %s --tier quick' % meta['property'], cwd=VERIF)
        finally:
            sh('git -C /repo checkout -- .')
        lines = [l for l in out.splitlines() if l.startswith(('VIOLATION', 'UNDECIDED', 'KNOWN-FINDING')) or ' -> ' in l]
        head = sh('git -C /repo rev-parse --short HEAD')[1].strip()
        meta['recheck'] = {'applies': True, 'patch': os.path.basename(patch), 'repo_head': head, 'exit': rc, 'lines': lines[:8], 'wall_s': round(time.time() - t0, 1),
                           'outcome': 'VIOLATION' if rc == 1 else ('UNDECIDED' if rc == 2 else 'PASS')}
        json.dump(meta, open(mp, 'w'), indent=1)
        print(sid, meta['recheck']['outcome'], lines[:1])
    rc, out = sh('git -C /repo status --porcelain')
    assert out.strip() == '', '/repo not restored: ' + out
    print('RECHECK-DONE')


if __name__ == '__main__':
    main()
