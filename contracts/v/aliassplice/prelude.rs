// ---------------------------------------------------------------------------
// Prelude of unit aliassplice (property C17, kernel): yash-syntax/src/parser/lex/core.rs LexerCore::substitute_alias - the splice.
// C17 "the token sequence POSIX specifies ... reserved words, operators ... that emerge from replacement text are recognised":
// the characters of the word (from `begin` up to the current position) are replaced by exactly the characters of the alias
// value, each tagged as coming from that alias; everything before the word and everything after the current position stays
// where it was, in order; and the position goes BACK to the beginning of the replacement, so that the replacement text is what
// the lexer scans next (and can itself be a reserved word, an operator, or be substituted again).
//
// Hand-written model text (ASSUMED): the struct LexerCore (as in unit lexbuf); the construction of the replacement characters
// (Rc<Source::Alias>, the code record, source_chars + ex) is one opaque helper that yields one character per character of the
// alias value, tagged with the alias; Vec::splice at the vector type; `assert!(c, "..")` as `assert(c)`.
// ---------------------------------------------------------------------------
use std::rc::Rc;
pub struct Alias { pub name: String, pub replacement: String }
pub struct SourceCharEx { pub value: char, pub verif_alias: Option<Seq<char>> }
pub struct LexerCore<'a> { pub source: Vec<SourceCharEx>, pub index: usize, pub verif_pd: core::marker::PhantomData<&'a u8> }
/// the characters of an alias value as source characters: one per character, in order, each tagged with the alias name
pub open spec fn alias_chars(a: Alias) -> Seq<SourceCharEx> { Seq::new(a.replacement@.len(), |i: int| SourceCharEx { value: a.replacement@[i], verif_alias: Some(a.name@) }) }
#[verifier::external_body]
pub fn verif_alias_chars<'a>(core: &LexerCore<'a>, begin: usize, end: usize, alias: &Rc<Alias>) -> (r: Vec<SourceCharEx>)
    ensures r@ =~= alias_chars(**alias)
{ unimplemented!() }
/// Vec::splice(range, replacement) (std): the elements of the range are replaced by the replacement
#[verifier::external_body]
pub fn verif_splice(v: &mut Vec<SourceCharEx>, from: usize, to: usize, repl: Vec<SourceCharEx>)
    requires from <= to <= old(v)@.len()
    ensures final(v)@ =~= old(v)@.subrange(0, from as int) + repl@ + old(v)@.subrange(to as int, old(v)@.len() as int)
{ unimplemented!() }
