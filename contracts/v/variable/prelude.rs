// ---------------------------------------------------------------------------
// Prelude of unit variable: attributes of one variable (property C16: "a read-only variable is
// never modified ... by any means").
// ---------------------------------------------------------------------------

/// Placeholder for yash_env::source::Location: only stored and moved here, never inspected.
#[derive(Clone, Copy, Debug, Eq, PartialEq)]
pub struct Location { pub id: u64 }

pub assume_specification<T>[ core::mem::replace::<T> ](dest: &mut T, src: T) -> (r: T)
    ensures r == *old(dest), *final(dest) == src;

pub assume_specification<T>[ Option::<T>::replace ](o: &mut Option<T>, value: T) -> (r: Option<T>)
    ensures r == *old(o), *final(o) == Some(value);

/// Everything but value and assignment location is untouched.
pub open spec fn attrs_same(a: Variable, b: Variable) -> bool {
    a.is_exported == b.is_exported && a.read_only_location == b.read_only_location && a.quirk == b.quirk
}
