// placement: append:yash-env/src/trap.rs (inside the trailing `mod tests`, which has `DummySystem`)
// Fails before the fix of F5 (`Err(InitiallyIgnored)` for history B), passes after.
    #[test]
    fn f5_trap_in_async_subshell_does_not_depend_on_an_earlier_peek() {
        // SIGINT has the default disposition on entry to the (non-interactive) shell.
        // History A: nothing is known about SIGINT when the asynchronous subshell starts.
        let system_a = DummySystem::default();
        let mut a = TrapSet::default();
        a.enter_subshell(&system_a, true, false).now_or_never().unwrap();
        let result_a = a
            .set_action(&system_a, SIGINT, Action::Command("echo".into()), Location::dummy(""), false)
            .now_or_never()
            .unwrap();
        // History B: the same, but the state of SIGINT was looked at before (as `trap -p` does).
        let system_b = DummySystem::default();
        let mut b = TrapSet::default();
        b.peek_state(&system_b, SIGINT).unwrap();
        b.enter_subshell(&system_b, true, false).now_or_never().unwrap();
        let result_b = b
            .set_action(&system_b, SIGINT, Action::Command("echo".into()), Location::dummy(""), false)
            .now_or_never()
            .unwrap();
        assert_eq!(result_a, Ok(()));
        assert_eq!(result_b, result_a, "looking at a trap must not change whether it can be set later");
        assert_eq!(system_b.0.borrow()[&SIGINT], Disposition::Catch);
    }
