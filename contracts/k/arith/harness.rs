//! Kani side of property C03 (injected as a child module of yash-arith/src/eval.rs).
//!
//! * `c03q_binres_*`: `binary_result` against an i128 reference for every operator that is not
//!   multiplicative.  Loop-free over the FULL domain i64 x i64: a complete proof, and the sibling
//!   that gives the Verus contract of `binary_result` a concrete counterexample when it fails.
//!   (`* / %` stay with Verus only: 64-bit multiplication against a wide reference does not
//!   terminate in CBMC, measured.)
//! * `c03q_token_*`: the tokenizer never panics and always makes progress (bounded: <= 3 bytes of
//!   arbitrary UTF-8, which includes non-ASCII alphanumerics and white space).
//! * `c03q_const_agree_*`: a variable whose value is an integer constant denotes that constant:
//!   `expand_variable` on a variable holding `s` = the value the tokenizer gives `s` (bounded).
#![allow(dead_code, unused_imports)]
use super::*;
use crate::ast::BinaryOperator::{self, *};
use crate::token::{Term, TokenValue, Tokens, Value};
use std::ops::Range;

type R = Result<Value, Error<(), ()>>;

fn reference(op: BinaryOperator, l: i64, r: i64) -> Option<i128> {
    let (lw, rw) = (l as i128, r as i128);
    match op {
        LogicalOr => Some((l != 0 || r != 0) as i128),
        LogicalAnd => Some((l != 0 && r != 0) as i128),
        BitwiseOr | BitwiseOrAssign => Some((l | r) as i128),
        BitwiseXor | BitwiseXorAssign => Some((l ^ r) as i128),
        BitwiseAnd | BitwiseAndAssign => Some((l & r) as i128),
        EqualTo => Some((l == r) as i128),
        NotEqualTo => Some((l != r) as i128),
        LessThan => Some((l < r) as i128),
        GreaterThan => Some((l > r) as i128),
        LessThanOrEqualTo => Some((l <= r) as i128),
        GreaterThanOrEqualTo => Some((l >= r) as i128),
        // C 6.5.7: undefined for a negative or too large count, and for a negative left operand of <<
        ShiftLeft | ShiftLeftAssign => if l < 0 || r < 0 || r >= 64 { None } else { Some(lw << (r as u32)) },
        // arithmetic shift = floor division by 2^r
        ShiftRight | ShiftRightAssign => if r < 0 || r >= 64 { None } else { Some(lw >> (r as u32)) },
        Add | AddAssign => Some(lw + rw),
        Subtract | SubtractAssign => Some(lw - rw),
        Assign => Some(rw),
        Multiply | MultiplyAssign | Divide | DivideAssign | Remainder | RemainderAssign => unreachable!(),
    }
}

fn check_binres(op: BinaryOperator) {
    let l: i64 = kani::any();
    let r: i64 = kani::any();
    let loc: Range<usize> = 0..1;
    let res: R = binary_result(Value::Integer(l), Value::Integer(r), op, &loc);
    match reference(op, l, r) {
        Some(v) if v >= i64::MIN as i128 && v <= i64::MAX as i128 => {
            assert!(res == Ok(Value::Integer(v as i64)), "binary_result: exact value when it is representable");
        }
        _ => assert!(res.is_err(), "binary_result: an error when the exact value is undefined or unrepresentable"),
    }
    std::mem::forget(res);
}

macro_rules! binres {
    ($($name:ident: $($op:ident),+;)*) => { $(
        #[kani::proof]
        fn $name() {
            let k: u8 = kani::any();
            let ops = [$($op),+];
            kani::assume((k as usize) < ops.len());
            check_binres(ops[k as usize]);
        }
    )* };
}

binres! {
    c03q_binres_additive: Add, AddAssign, Subtract, SubtractAssign, Assign;
    c03q_binres_shift_left: ShiftLeft, ShiftLeftAssign;
    c03q_binres_shift_right: ShiftRight, ShiftRightAssign;
    c03q_binres_bitwise: BitwiseOr, BitwiseOrAssign, BitwiseXor, BitwiseXorAssign, BitwiseAnd, BitwiseAndAssign;
    c03q_binres_compare: EqualTo, NotEqualTo, LessThan, GreaterThan, LessThanOrEqualTo, GreaterThanOrEqualTo, LogicalOr, LogicalAnd;
}

/// Must FAIL: claims that << never reports an error.
#[kani::proof]
fn c03x_control_shl_never_errs() {
    let l: i64 = kani::any();
    let r: i64 = kani::any();
    let loc: Range<usize> = 0..1;
    let res: R = binary_result(Value::Integer(l), Value::Integer(r), ShiftLeft, &loc);
    assert!(res.is_ok(), "CONTROL (expected to fail): << never reports an error");
    std::mem::forget(res);
}

// ---------------------------------------------------------------- tokenizer
fn any_str<'a>(buf: &'a mut [u8; 3]) -> Option<&'a str> {
    *buf = kani::any();
    let len: usize = kani::any();
    kani::assume(len <= 3);
    std::str::from_utf8(&buf[..len]).ok()
}

#[cfg(any())] // measured: > 10 min and an unwinding bound of 40+ is needed (operator table search); not run
#[kani::proof]
#[kani::unwind(6)]
fn c03t_token_no_panic_len3() {
    let mut buf = [0u8; 3];
    if let Some(s) = any_str(&mut buf) {
        let mut tokens = Tokens::new(s);
        let mut last_end = 0;
        let mut n = 0;
        while n < 4 {
            match tokens.next_token() {
                Ok(token) => {
                    assert!(token.location.start <= token.location.end && token.location.end <= s.len(), "token location inside the text");
                    assert!(token.location.start >= last_end, "tokens do not overlap");
                    if token.value == TokenValue::EndOfInput {
                        break;
                    }
                    assert!(token.location.end > token.location.start, "a token consumes at least one byte (progress)");
                    last_end = token.location.end;
                    std::mem::forget(token);
                }
                Err(e) => {
                    assert!(e.location.start <= s.len(), "error location inside the text");
                    std::mem::forget(e);
                    break;
                }
            }
            n += 1;
        }
    }
}

// ---------------------------------------------------------------- constants in variables
/// One-variable environment.
struct OneVar<'a>(&'a str);

impl crate::env::Env for OneVar<'_> {
    type GetVariableError = ();
    type AssignVariableError = ();
    fn get_variable(&self, _name: &str) -> Result<Option<&str>, ()> {
        Ok(Some(self.0))
    }
    fn assign_variable(&mut self, _name: &str, _value: String, _location: Range<usize>) -> Result<(), ()> {
        Ok(())
    }
}

/// "A variable whose value is an integer constant denotes that constant, so `$((x))` and `$(($x))`
/// agree".  The tokenizer gives a constant token `s` the value `parse_integer_constant(s)` (one call in
/// `Tokens::next_token`; the tokenizer itself is too expensive for CBMC: 37-way operator search and
/// Unicode trimming, measured > 10 min per harness), so agreement is checked as: a variable holding a
/// text `s` that has the form of a constant evaluates exactly as `parse_integer_constant(s)` does --
/// same value, or an error when that is an error.  `s` ranges over all texts of the given length that
/// start with a digit, over the alphabet below (digits that matter for the radix rules, hex letters,
/// both prefixes, `_`).
fn check_const_agree<const N: usize>() {
    const ALPHABET: [u8; 10] = *b"01789afxX_";
    let mut buf = [0u8; N];
    let mut i = 0;
    while i < N {
        let k: usize = kani::any();
        kani::assume(k < ALPHABET.len());
        buf[i] = ALPHABET[k];
        i += 1;
    }
    kani::assume(buf[0].is_ascii_digit());
    let s = std::str::from_utf8(&buf).unwrap();
    let expected = crate::token::parse_integer_constant(s);
    let env = OneVar(s);
    let loc: Range<usize> = 0..1;
    let r = expand_variable("x", &loc, &env);
    match expected {
        Ok(v) => assert!(r == Ok(Value::Integer(v)), "a variable holding an integer constant denotes that constant"),
        Err(_) => assert!(r.is_err(), "a variable holding a malformed constant is an error, as the constant itself is"),
    }
    std::mem::forget(r);
}

#[kani::proof]
#[kani::unwind(8)]
fn c03q_const_agree_len1() { check_const_agree::<1>(); }

#[kani::proof]
#[kani::unwind(8)]
fn c03q_const_agree_len2() { check_const_agree::<2>(); }

#[kani::proof]
#[kani::unwind(8)]
fn c03t_const_agree_len3() { check_const_agree::<3>(); }

/// "No expression text, however malformed, makes the shell panic" -- for the constant parser: a token
/// starts with an ASCII digit and continues with arbitrary alphanumerics, which may be multi-byte.
/// Every UTF-8 text of <= 3 bytes that starts with a digit is tried.
#[kani::proof]
#[kani::unwind(8)]
fn c03q_const_parse_no_panic() {
    let buf: [u8; 3] = kani::any();
    let len: usize = kani::any();
    kani::assume(len >= 1 && len <= 3);
    kani::assume(buf[0].is_ascii_digit());
    if let Ok(s) = std::str::from_utf8(&buf[..len]) {
        let r = crate::token::parse_integer_constant(s);
        std::mem::forget(r);
    }
}

// native replay of a Kani counterexample (bin/vcheck replay): the generated test is included here
#[cfg(verif_playback)]
include!("/verif/work/k/playback/arith_harness.rs");
