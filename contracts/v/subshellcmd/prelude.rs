// ---------------------------------------------------------------------------
// Prelude of unit subshellcmd (properties C02 / C10 / C08, kernel): the subshell compound command
// (yash-semantics/src/command/compound_command/subshell.rs execute, subshell_main).
// C02 "a compound command's status is that of the last command it ran": `$?` after `( ... )` is the status the awaited
// child's result stands for.  C10 "under errexit, when a ... subshell fails": errexit is consulted exactly once, after
// the status was set, with that status.  C08: exactly one child is started and everything the body does happens in it
// (subshell_main runs on the child's environment).  C10 "the EXIT trap runs exactly once": in the child the body runs
// once, its result is applied, then the EXIT trap runs once.
//
// Hand-written model text (ASSUMED): Config::foreground().start_and_wait(..) with its async closure, handle_job_status
// (job.rs), apply_errexit / apply_result (unit errexit verifies the real ones), print_error, executing the body and
// run_exit_trap (unit trapsrun) are opaque calls that update a ghost monitor in the reduced Env.  Await points dropped.
// ---------------------------------------------------------------------------
pub assume_specification<B, C>[ <ControlFlow<B, C> as core::ops::Try>::branch ](cf: ControlFlow<B, C>) -> (r: ControlFlow<<ControlFlow<B, C> as core::ops::Try>::Residual, <ControlFlow<B, C> as core::ops::Try>::Output>)
    ensures match cf { ControlFlow::Continue(c) => r == ControlFlow::<ControlFlow<B, core::convert::Infallible>, C>::Continue(c), ControlFlow::Break(b) => r == ControlFlow::<ControlFlow<B, core::convert::Infallible>, C>::Break(ControlFlow::Break(b)) };
pub assume_specification<B, C>[ <ControlFlow<B, C> as core::ops::FromResidual<ControlFlow<B, core::convert::Infallible>>>::from_residual ](res: ControlFlow<B, core::convert::Infallible>) -> (r: ControlFlow<B, C>)
    ensures res matches ControlFlow::Break(b) ==> r == ControlFlow::<B, C>::Break(b);

pub trait Runtime {}
pub struct List { pub verif_id: int }
pub struct Location { pub verif_opaque: u8 }
pub struct Errno(pub i32);
#[derive(Clone, Copy)]
pub struct Pid(pub i32);
#[derive(Clone, Copy)]
pub struct ProcessResult { pub verif_opaque: u8 }
/// the exit status a process result stands for (job.rs From<ProcessResult> for ExitStatus, unit waitsub)
pub uninterp spec fn status_of(r: ProcessResult) -> ExitStatus;

pub enum Phase {
    Idle,
    StartFailed,
    /// the child was started and awaited
    Awaited,
    /// handle_job_status interpreted the result of this child
    Handled { pid: Pid, result: ProcessResult, answer: ControlFlow<Divert, ExitStatus> },
}
pub enum Ev { Ran { id: int, result: Result }, Applied { result: Result }, ExitTrap }
pub struct Mon {
    pub phase: Phase,
    /// bodies for which a subshell was started
    pub started: Seq<int>,
    pub awaited: Option<(Pid, ProcessResult)>,
    pub errexit_consulted: nat,
    pub errexit_status: Option<ExitStatus>,
    pub errexit_result: Option<Result>,
    /// inside the child
    pub events: Seq<Ev>,
}
/// the runtime stack as far as a body of this file may look at it (the pinned code does not; a change that does is then judged)
#[derive(Debug, PartialEq, Eq)] pub enum Frame { Subshell, Other(u8) }
impl vstd::std_specs::cmp::PartialEqSpecImpl for Frame {
    open spec fn obeys_eq_spec() -> bool { true }
    open spec fn eq_spec(&self, other: &Frame) -> bool { *self == *other }
}
pub struct Stack { pub verif_frames: Vec<Frame> }
impl Stack {
    #[verifier::external_body]
    pub fn last(&self) -> (r: Option<&Frame>) ensures (match r { Some(f) => self.verif_frames@.len() > 0 && *f == self.verif_frames@.last(), None => self.verif_frames@.len() == 0 }) { unimplemented!() }
}
pub struct Env<S> { pub exit_status: ExitStatus, pub mon: Ghost<Mon>, pub stack: Stack, pub system: S }

/// `Config::foreground().start_and_wait(env, async move |sub_env, _job_control| subshell_main(sub_env, body_2).await)`:
/// starts a child that runs subshell_main on `body` and waits for it
#[verifier::external_body]
pub fn verif_start_and_wait<S>(env: &mut Env<S>, body: Rc<List>) -> (r: std::result::Result<(Pid, ProcessResult), Errno>)
    ensures
        final(env).mon@ == (Mon {
            phase: if r is Ok { Phase::Awaited } else { Phase::StartFailed },
            started: old(env).mon@.started.push(body.verif_id),
            awaited: match r { Ok(p) => Some(p), Err(_) => None },
            ..old(env).mon@ }),
        final(env).exit_status == old(env).exit_status
{ unimplemented!() }
/// job.rs handle_job_status(env, pid, result, || body.to_string())
#[verifier::external_body]
pub fn verif_handle_job_status<S>(env: &mut Env<S>, pid: Pid, result: ProcessResult) -> (r: ControlFlow<Divert, ExitStatus>)
    requires old(env).mon@.phase is Awaited
    ensures
        final(env).mon@ == (Mon { phase: Phase::Handled { pid, result, answer: r }, ..old(env).mon@ }),
        final(env).exit_status == old(env).exit_status,
        r matches ControlFlow::Continue(st) ==> st == status_of(result)
{ unimplemented!() }
#[verifier::external_body]
pub fn verif_print_error<S>(env: &mut Env<S>, location: &Location)
    ensures final(env).mon@ == old(env).mon@, final(env).exit_status == old(env).exit_status
{ unimplemented!() }
impl<S> Env<S> {
    #[verifier::external_body]
    pub fn apply_errexit(&mut self) -> (r: Result)
        ensures final(self).mon@ == (Mon { errexit_consulted: old(self).mon@.errexit_consulted + 1, errexit_status: Some(old(self).exit_status), errexit_result: Some(r), ..old(self).mon@ }),
            final(self).exit_status == old(self).exit_status
    { unimplemented!() }
    #[verifier::external_body]
    pub fn apply_result(&mut self, result: Result)
        ensures final(self).mon@ == (Mon { events: old(self).mon@.events.push(Ev::Applied { result }), ..old(self).mon@ })
    { unimplemented!() }
}
impl List {
    #[verifier::external_body]
    pub fn execute<S>(&self, env: &mut Env<S>) -> (r: Result)
        ensures final(env).mon@ == (Mon { events: old(env).mon@.events.push(Ev::Ran { id: self.verif_id, result: r }), ..old(env).mon@ })
    { unimplemented!() }
}
/// trap/exit.rs run_exit_trap (unit trapsrun)
#[verifier::external_body]
pub fn run_exit_trap<S>(env: &mut Env<S>)
    ensures final(env).mon@ == (Mon { events: old(env).mon@.events.push(Ev::ExitTrap), ..old(env).mon@ })
{ unimplemented!() }
