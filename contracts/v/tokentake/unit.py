# Unit tokentake: where the parser takes tokens and offers them to alias substitution (kernel of C17 / C18).
PC = 'yash-syntax/src/parser/core.rs'
LC = 'yash-syntax/src/parser/lex/core.rs'
IMPL = "impl<'a, 'b> Parser<'a, 'b>"
MOD_HEAD = '''    use vstd::prelude::*;
'''
O0 = 'old(self).offers@'
O1 = 'final(self).offers@'
G0 = 'old(self).lexer.log@'
G1 = 'final(self).lexer.log@'
UNIT = {
    'name': 'tokentake',
    'property': 'C17',
    'rlimit': 60,
    'verus_args': ['--edition=2024'],
    'vacuity_floor': 2,
    'controls': {PC + "::<'a, 'b> Parser<'a, 'b>::take_token_auto": {'ensures': {'append': 'false'}}, PC + "::<'a, 'b> Parser<'a, 'b>::take_token_manual": {'ensures': {'append': 'false'}}},
    'control_expect': ['take_token_auto', 'take_token_manual'],
    'items': [
        ('@raw', 'pub mod tt {\n' + MOD_HEAD),
        (LC, ['enum TokenId'], {}),
        (LC, ['struct Token'], {'drop_derives': 'all'}),
        ('@raw', 'pub use TokenId::*;\n'),
        (PC, ['enum Rec'], {'drop_derives': 'all'}),
        ('@file', 'prelude.rs'),
        (PC, [IMPL, 'fn require_token'], {'rewrites': ['strip-async'],
            'ensures': [
                # a cached token: the lexer is not asked
                'old(self).token is Some ==> final(self).token == old(self).token && ' + G1 + ' == ' + G0,
                # none: blanks and comments are skipped, then - only if that went well - ONE token is read and cached
                'old(self).token is None ==> final(self).token is Some && ' + G1 + '.len() >= ' + G0 + '.len() + 1 && ' + G1 + '.subrange(0, ' + G0 + '.len() as int) =~= ' + G0
                + ' && (match ' + G1 + '[' + G0 + '.len() as int] { LexEv::Skipped { ok } => (ok ==> ' + G1 + '.len() == ' + G0 + '.len() + 2 && (' + G1 + '.last() matches LexEv::Tokenized { token } && token == (match final(self).token->0 { Ok(t) => Some(t), Err(_) => None::<Token> }))) '
                '&& (!ok ==> ' + G1 + '.len() == ' + G0 + '.len() + 1 && final(self).token->0 is Err), _ => false })',
                O1 + ' == ' + O0,
            ]}),
        (PC, [IMPL, 'fn take_token_raw'], {'ret': 'r', 'rewrites': ['strip-async'],
            'ensures': [
                # the cached token is handed out and the cache is empty: the next request reads a new one
                'final(self).token is None', O1 + ' == ' + O0,
                'old(self).token matches Some(t) ==> r == t && ' + G1 + ' == ' + G0,
                'old(self).token is None ==> ' + G1 + '.len() > ' + G0 + '.len() && ' + G1 + '.len() <= ' + G0 + '.len() + 2 && ' + G1 + '.subrange(0, ' + G0 + '.len() as int) =~= ' + G0,
            ]}),
        (PC, [IMPL, 'fn take_token_manual'], {'ret': 'r', 'rewrites': ['strip-async'],
            'ensures': [
                # the token taken is offered to alias substitution exactly once, with exactly the caller's command-position flag
                'r matches Ok(rec) ==> ' + O1 + '.len() == ' + O0 + '.len() + 1 && ' + O1 + '.subrange(0, ' + O0 + '.len() as int) =~= ' + O0 + ' && ' + O1 + '.last().is_command_name == is_command_name '
                '&& (rec matches Rec::Parsed(t) ==> t == ' + O1 + '.last().token && !' + O1 + '.last().replaced) && (rec is AliasSubstituted ==> ' + O1 + '.last().replaced)',
                'r is Err ==> ' + O1 + ' == ' + O0,
                '(r is Ok && old(self).token is Some) ==> old(self).token->0 == Ok::<Token, Error>(' + O1 + '.last().token)',
            ]}),
        (PC, [IMPL, 'fn take_token_auto'], {'ret': 'r', 'rewrites': ['strip-async', 'let-chain-nest'],
            'attrs': ['#[verifier::exec_allows_no_decreases_clause]'],
            'token_rewrites': [('keywords . contains ( & keyword )', 'verif_contains(keywords, &keyword)')],
            'ensures': [
                O1 + '.len() >= ' + O0 + '.len() && ' + O1 + '.subrange(0, ' + O0 + '.len() as int) =~= ' + O0,
                # never in command position; a reserved word the caller asked for is never offered
                'forall|k: int| ' + O0 + '.len() <= k < ' + O1 + '.len() ==> !(#[trigger] ' + O1 + '[k]).is_command_name && !(' + O1 + '[k].token.id matches TokenId::Token(Some(kw)) && keywords@.contains(kw))',
                # every token taken before the one handed back was replaced by an alias; the one handed back was not
                'forall|k: int| ' + O0 + '.len() <= k < ' + O1 + '.len() - 1 ==> (#[trigger] ' + O1 + '[k]).replaced',
                'r matches Ok(t) ==> ((t.id matches TokenId::Token(Some(kw)) && keywords@.contains(kw)) || (' + O1 + '.len() > ' + O0 + '.len() && ' + O1 + '.last().token == t && !' + O1 + '.last().replaced))',
                'r is Err ==> forall|k: int| ' + O0 + '.len() <= k < ' + O1 + '.len() ==> (#[trigger] ' + O1 + '[k]).replaced',
            ],
            'loops': {0: {'invariant': [
                'self.offers@.len() >= ' + O0 + '.len()', 'self.offers@.subrange(0, ' + O0 + '.len() as int) =~= ' + O0,
                'forall|k: int| ' + O0 + '.len() <= k < self.offers@.len() ==> !(#[trigger] self.offers@[k]).is_command_name && !(self.offers@[k].token.id matches TokenId::Token(Some(kw)) && keywords@.contains(kw)) && self.offers@[k].replaced',
            ]}}}),
        ('@raw', '}\n'),
    ],
}
