# Unit rwall: the write_all / read_all loops over partial transfers (kernel of property C14).
RW = 'yash-env/src/system/concurrency/rw_all.rs'
MOD_HEAD = '''    use vstd::prelude::*;
'''
ASYNC = {'rewrites': ['strip-async'], 'mut_params': ['self']}
UNIT = {
    'name': 'rwall',
    'property': 'C14',
    'rlimit': 60,
    'verus_args': ['--edition=2024'],
    'crate_attrs': ['#![feature(allocator_api)]'],
    'vacuity_floor': 2,
    'items': [
        ('@raw', 'pub mod rw {\n' + MOD_HEAD),
        ('yash-env/src/system/errno.rs', ['type RawErrno']),
        ('yash-env/src/system/errno.rs', ['struct Errno']),
        ('yash-env/src/io.rs', ['struct Fd']),
        ('@file', 'prelude.rs'),
        (RW, ['impl<S> WriteAll for Concurrent<S>', 'fn write_all'], dict(ASYNC, ret='r',
            wrapper='impl<S: Fcntl + Sigmask + Write> Concurrent<S>',
            attrs=['#[verifier::exec_allows_no_decreases_clause]', '#[verifier::loop_isolation(false)]'],
            entry_snapshots=['data'],
            token_rewrites=[('TemporaryNonBlockingGuard :: new ( self , fd )', 'self')],
            ensures=[
                # "bytes written ... reach the reader completely, exactly once and in order": success means that the system
                # has accepted exactly the data, once, in order, whatever the sizes of the partial transfers were
                'r is Ok ==> final(self).inner.written(fd) == old(self).inner.written(fd) + data@',
                # on an error what has been accepted is a beginning of the data
                'r is Err ==> exists|k: int| 0 <= k <= data@.len() && final(self).inner.written(fd) == old(self).inner.written(fd) + #[trigger] data@.take(k)',
                'forall|other: Fd| other != fd ==> final(self).inner.written(other) == old(self).inner.written(other)',
            ],
            ghost_before=[('data = & data [', 'proof { if n <= data@.len() { lemma_advance(verif_entry_data@, verif_entry_data@.len() - data@.len(), data@, n as int); } }')],
            loops={0: {
                'invariant': [
                    '0 < data@.len() <= verif_entry_data@.len()',
                    # what remains to be written is the rest of the data, and the system has accepted exactly what went before
                    'data@ == verif_entry_data@.skip(verif_entry_data@.len() - data@.len())',
                    'this.inner.written(fd) == old(self).inner.written(fd) + verif_entry_data@.take(verif_entry_data@.len() - data@.len())',
                    'forall|other: Fd| other != fd ==> this.inner.written(other) == old(self).inner.written(other)',
                ]}})),
        (RW, ['impl<S> ReadAll for Concurrent<S>', 'fn read_all_to'], dict(ASYNC, ret='r',
            wrapper='impl<S: Fcntl + Read + Sigmask> Concurrent<S>',
            attrs=['#[verifier::exec_allows_no_decreases_clause]', '#[verifier::loop_isolation(false)]'],
            token_rewrites=[
                ('TemporaryNonBlockingGuard :: new ( self , fd )', 'self'),
                ('buffer . reserve (', 'verif_reserve(buffer, '),
                ('buffer . extend ( repeat_n ( 0 ,', 'verif_extend_zeros(buffer, ('),
                ('this . inner . read ( fd , & mut buffer [ effective_length .. ] )', 'verif_read_tail(&mut this.inner, fd, buffer, effective_length)'),
            ],
            ensures=[
                # what was in the buffer stays, and what the system handed out is what was appended: completely, once, in order
                # -- on success and on failure alike
                'final(buffer)@.len() >= old(buffer)@.len() && final(buffer)@.take(old(buffer)@.len() as int) == old(buffer)@',
                'final(self).inner.consumed(fd) == old(self).inner.consumed(fd) + final(buffer)@.skip(old(buffer)@.len() as int)',
                # success means the end of input has been seen
                'r is Ok ==> final(self).inner.at_eof(fd)',
            ],
            ghost_before=[
                ('match this . inner . read', 'let ghost verif_b1 = buffer@;'),
            ],
            loops={0: {
                'body_start': 'let ghost verif_b0 = buffer@; let ghost verif_e0 = effective_length;',
                # sequence algebra for the invariant (one more piece of the stream has been appended); says nothing by itself
                'body_end': 'proof { let ol = old(buffer)@.len() as int; let e0 = verif_e0 as int; let e = effective_length as int; if ol <= e0 <= e <= buffer@.len() && e0 <= verif_b0.len() && e0 <= verif_b1.len() { '
                 'assert(verif_b1.take(e0) =~= verif_b0.take(e0)); assert(buffer@.take(e0) =~= verif_b0.take(e0)); '
                 'assert(buffer@.subrange(ol, e0) =~= buffer@.take(e0).skip(ol)); assert(verif_b0.subrange(ol, e0) =~= verif_b0.take(e0).skip(ol)); assert(buffer@.subrange(ol, e0) =~= verif_b0.subrange(ol, e0)); '
                 'assert(buffer@.subrange(ol, e) =~= buffer@.subrange(ol, e0) + buffer@.subrange(e0, e)); '
                 'assert(buffer@.take(ol) =~= verif_b0.take(ol)); } }',
                'invariant': [
                    'old(buffer)@.len() <= effective_length <= buffer@.len()',
                    'buffer@.take(old(buffer)@.len() as int) == old(buffer)@',
                    'this.inner.consumed(fd) == old(self).inner.consumed(fd) + buffer@.subrange(old(buffer)@.len() as int, effective_length as int)',
                ]}})),
        ('@raw', '}\n'),
    ],
}
