# Unit cmdlist: command.rs - a command followed by its trap round; a sequential list (kernel shared by C02 and C11).
CM = 'yash-semantics/src/command.rs'
SEM = 'yash-env/src/semantics.rs'
MOD_HEAD = '''    use vstd::prelude::*;
    use std::ops::ControlFlow::{self, Break, Continue};
    use std::ffi::c_int;
'''
L0 = 'old(env).log@'
L1 = 'final(env).log@'
N0 = L0 + '.len() as int'
UNIT = {
    'name': 'cmdlist',
    'property': 'C02',
    'rlimit': 60,
    'verus_args': ['--edition=2024'],
    'vacuity_floor': 2,
    'items': [
        ('@raw', 'pub mod semantics { pub type Result<T = ()> = std::ops::ControlFlow<crate::cl::Divert, T>; }\n'),
        ('@raw', 'pub mod cl {\n' + MOD_HEAD + '    pub use crate::semantics::Result;\n'),
        (SEM, ['struct ExitStatus']),
        (SEM, ['enum Divert']),
        ('@file', 'prelude.rs'),
        (CM, ["impl<S: Runtime + 'static> Command<S> for syntax::Command", 'fn execute'], {'ret': 'r', 'rewrites': ['strip-async'],
            'token_rewrites': [('use syntax :: Command :: * ;', 'use crate::cl::syntax::Command::*;')],
            'ensures': [
                # exactly: the command (whichever kind it is), once; then one trap round; then the job statuses - nothing else
                L1 + '.len() == ' + N0 + ' + 3', L1 + '.subrange(0, ' + N0 + ') =~= ' + L0,
                L1 + '[' + N0 + '] == what_ran(*self, ev_result(' + L1 + '[' + N0 + '])) && ' + L1 + '[' + N0 + ' + 1] is Traps && r == combine(ev_result(' + L1 + '[' + N0 + ']), ev_result(' + L1 + '[' + N0 + ' + 1]))',
                L1 + '[' + N0 + ' + 2] is UpdateStatuses',
            ]}),
        (CM, ["impl<S: Runtime + 'static> Command<S> for syntax::List", 'fn execute'], {'ret': 'r', 'rewrites': ['strip-async'],
            'attrs': ['#[verifier::loop_isolation(false)]'],
            'token_rewrites': [
                ('Box :: pin ( async move {', '{'),
                ('Continue ( ( ) ) } ) . await', 'Continue(()) }'),
                ('for item in & self . 0', 'let mut verif_i: usize = 0; while verif_i < self.0.len()'),
            ],
            'ensures': [
                # the items run in order, each exactly once, up to and including the first that diverts
                L1 + '.len() >= ' + N0, L1 + '.subrange(0, ' + N0 + ') =~= ' + L0, L1 + '.len() - ' + N0 + ' <= self.0@.len()',
                'forall|k: int| 0 <= k < ' + L1 + '.len() - ' + N0 + ' ==> ((#[trigger] ' + L1 + '[' + N0 + ' + k]) matches Ev::Item { id, result } && id == self.0@[k].verif_id && (result is Break <==> (k == ' + L1 + '.len() - ' + N0 + ' - 1 && r is Break)) && (result is Break ==> r == result))',
                # no divert: every item ran
                'r is Continue ==> ' + L1 + '.len() - ' + N0 + ' == self.0@.len()',
                'r is Break ==> ' + L1 + '.len() > ' + N0,
            ],
            'loops': {0: {'body_start': 'let item = &self.0[verif_i]; verif_i += 1;',
                'invariant': [
                    'verif_i <= self.0@.len()', 'env.log@.len() == ' + N0 + ' + verif_i', 'env.log@.subrange(0, ' + N0 + ') =~= ' + L0,
                    'forall|k: int| 0 <= k < verif_i ==> ((#[trigger] env.log@[' + N0 + ' + k]) matches Ev::Item { id, result } && id == self.0@[k].verif_id && result is Continue)',
                ], 'decreases': ['self.0@.len() - verif_i']}}}),
        ('@raw', '}\n'),
    ],
}
