// assumed contracts on std functions used by Phrase (a module of their own: broadcast rule)
/// the elements an `IntoIterator` argument yields (meaning of the argument of `extend`); a Vec yields its elements
pub uninterp spec fn yielded<T, I>(i: I) -> Seq<T>;
pub broadcast axiom fn axiom_yielded_vec<T>(v: Vec<T>)
    ensures #[trigger] yielded::<T, Vec<T>>(v) == v@;
pub assume_specification<T, A: std::alloc::Allocator, I: IntoIterator<Item = T>>[ <Vec<T, A> as Extend<T>>::extend ](v: &mut Vec<T, A>, i: I)
    ensures final(v)@ == old(v)@ + yielded::<T, I>(i);
