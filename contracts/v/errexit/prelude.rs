// ---------------------------------------------------------------------------
// Prelude of unit errexit (property C10, kernel): where the ErrExit option applies.
// "under errexit, a failing command ends the shell outside the exempt contexts (conditions of if/while/until,
// every pipeline of an and-or list but the last, a negated pipeline)": the exempt contexts are recorded as
// Frame::Condition on the runtime stack by the (async) interpreter; they stay exempt however deeply the failing
// command is nested in them -- groups, loops, functions, built-ins, dot scripts, traps AND subshells -- so the
// decision is "the option is on and NO frame of the whole stack is a Condition".
// ---------------------------------------------------------------------------

// placeholders for types the frames merely carry
#[derive(Clone, Debug, Eq, PartialEq)]
pub struct Field { pub verif_opaque: u8 }

/// the option set, seen as a predicate "is on" (yash-env/src/option.rs keeps an EnumSet)
#[verifier::external_body]
pub struct OptionSet { enabled_options: u64 }
impl OptionSet {
    pub uninterp spec fn is_on(&self, option: ShellOption) -> bool;
    /// ASSUMED contract of OptionSet::get (yash-env/src/option.rs: On iff the option is in the set)
    #[verifier::external_body]
    pub fn get(&self, option: ShellOption) -> (r: State)
        ensures r == (if self.is_on(option) { State::On } else { State::Off }),
    { unimplemented!() }
}
/// the one option this unit talks about (yash-env/src/option.rs enum Option has some thirty members)
#[derive(Clone, Copy)]
pub enum ShellOption { ErrExit, Other(u8) }
pub use ShellOption::ErrExit;

// derived PartialEq (ASSUMED structural)
impl vstd::std_specs::cmp::PartialEqSpecImpl for State {
    open spec fn obeys_eq_spec() -> bool { true }
    open spec fn eq_spec(&self, other: &State) -> bool { *self == *other }
}
impl vstd::std_specs::cmp::PartialEqSpecImpl for Frame {
    open spec fn obeys_eq_spec() -> bool { true }
    open spec fn eq_spec(&self, other: &Frame) -> bool { *self == *other }
}

/// struct Env reduced to the three fields the functions under contract read (the real struct has 18)
pub struct Env<S> {
    pub exit_status: ExitStatus,
    pub options: OptionSet,
    pub stack: Stack,
    pub system: S,
}

/// some enclosing construct, at ANY depth of the stack, is an exempt context
pub open spec fn in_condition(frames: Seq<Frame>) -> bool {
    exists|k: int| 0 <= k < frames.len() && #[trigger] frames[k] == Frame::Condition
}

impl Divert {
    /// the exit status a divert carries: loop control carries none
    pub open spec fn exit_status_spec(&self) -> Option<ExitStatus> {
        match *self {
            Divert::Continue { .. } => None,
            Divert::Break { .. } => None,
            Divert::Return(e) => e,
            Divert::Interrupt(e) => e,
            Divert::Exit(e) => e,
            Divert::Abort(e) => e,
        }
    }
}

/// ASSUMED contract of `<[T]>::contains` (std: "returns true if the slice contains an element with the given value"),
/// for element types whose `==` is the specified equality
pub assume_specification<T: std::cmp::PartialEq> [ <[T]>::contains ](s: &[T], x: &T) -> (r: bool)
    ensures T::obeys_eq_spec() ==> r == (exists|k: int| 0 <= k < s@.len() && (#[trigger] s@[k]).eq_spec(x));
