// ---------------------------------------------------------------------------
// Prelude of unit varset (assumed contracts on std functions that vstd does not specify).
// ---------------------------------------------------------------------------

pub assume_specification<T, P: FnOnce(&T) -> bool>[ Option::<T>::filter ](o: Option<T>, p: P) -> (r: Option<T>)
    requires
        o is Some ==> p.requires((&o->0,)),
    ensures
        o is None ==> r is None,
        o is Some ==> (r == o || r is None),
        o is Some ==> p.ensures((&o->0,), r is Some);

// `assert_eq!` / `assert_ne!` expand to a call of `assert_failed` on the failing branch: with `requires false`
// every such assertion of the extracted code becomes a proof obligation (the documented panics are excluded
// by the preconditions of the contracts).
#[verifier::external_type_specification]
pub struct ExAssertKind(core::panicking::AssertKind);

pub assume_specification<T: core::fmt::Debug + ?Sized, U: core::fmt::Debug + ?Sized>[ core::panicking::assert_failed::<T, U> ](
    kind: core::panicking::AssertKind, left: &T, right: &U, args: Option<core::fmt::Arguments<'_>>) -> !
    requires false;

/// ASSUMED: `String`'s `Hash` and `Eq` are deterministic and agree (the std contract of a HashMap key);
/// vstd states the same axiom for the primitive types and `Box`.
pub broadcast axiom fn axiom_string_obeys_key_model()
    ensures #[trigger] vstd::std_specs::hash::obeys_key_model::<String>();

// ---- HashMap::get_mut ------------------------------------------------------------------------------
/// `kk` is the owned key that the borrowed form `k` designates (`kk.borrow() == k`)
pub uninterp spec fn key_borrows<K, Q: ?Sized>(kk: K, k: &Q) -> bool;
pub broadcast axiom fn axiom_key_borrows_str(kk: String, k: &str)
    ensures #[trigger] key_borrows::<String, str>(kk, k) <==> kk@ == k@;

/// ASSUMED contract of `HashMap::get_mut`: a mutable reference to the value of the designated key; when the
/// reference expires the map holds its final value under the same key and nothing else has changed.
pub assume_specification<'a, K, V, S, A, Q>[ std::collections::HashMap::<K, V, S, A>::get_mut ](m: &'a mut HashMap<K, V, S, A>, k: &Q) -> (r: Option<&'a mut V>)
    where
        A: std::alloc::Allocator,
        K: std::cmp::Eq + std::hash::Hash + std::borrow::Borrow<Q>,
        Q: std::marker::MetaSized + std::hash::Hash + std::cmp::Eq + ?Sized,
        S: std::hash::BuildHasher,
    ensures
        vstd::std_specs::hash::obeys_key_model::<K>() && vstd::std_specs::hash::builds_valid_hashers::<S>() ==> match r {
            Some(v) => exists|kk: K| #![trigger key_borrows(kk, k)] key_borrows(kk, k) && old(m)@.contains_key(kk) && *v == old(m)@[kk]
                && final(m)@ == old(m)@.insert(kk, *final(v)),
            None => (forall|kk: K| #[trigger] old(m)@.contains_key(kk) ==> !key_borrows(kk, k)) && final(m)@ == old(m)@,
        };

// ---- slices ----------------------------------------------------------------------------------------
pub open spec fn partitioned_at<T, P: FnMut(&T) -> bool>(s: Seq<T>, p: P, k: int) -> bool {
    &&& 0 <= k <= s.len()
    &&& forall|i: int| 0 <= i < k ==> call_ensures(p, (&#[trigger] s[i],), true)
    &&& forall|i: int| k <= i < s.len() ==> call_ensures(p, (&#[trigger] s[i],), false)
}
/// the predicate can never answer false on an element and true on a later one: the slice is partitioned.
/// (`call_ensures(p, args, b)` reads "p may return b on args"; only that direction is known of a closure.)
pub open spec fn partitioned<T, P: FnMut(&T) -> bool>(s: Seq<T>, p: P) -> bool {
    forall|i: int, j: int| 0 <= i < j < s.len() ==> !(call_ensures(p, (&#[trigger] s[i],), false) && call_ensures(p, (&#[trigger] s[j],), true))
}
/// ASSUMED contract of `<[T]>::partition_point` (std documentation: the slice is assumed to be partitioned by
/// the predicate; the result is the index of the first element of the second partition).
pub assume_specification<T, P>[ <[T]>::partition_point ](s: &[T], p: P) -> (r: usize)
    where P: FnMut(&T) -> bool
    requires
        forall|i: int| 0 <= i < s@.len() ==> call_requires(p, (&#[trigger] s@[i],)),
    ensures
        r <= s@.len() <= usize::MAX,
        partitioned(s@, p) ==> partitioned_at(s@, p, r as int);

/// `s.iter().rposition(p)` behind a contract (rewrite rule iter-rposition-to-helper): the index of the last
/// element satisfying `p`.  ASSUMED; the body is what the extracted code called.
#[verifier::external_body]
pub fn verif_rposition<T, P: FnMut(&T) -> bool>(s: &[T], p: P) -> (r: Option<usize>)
    requires
        forall|i: int| 0 <= i < s@.len() ==> call_requires(p, (&#[trigger] s@[i],)),
    ensures
        match r {
            Some(k) => k < s@.len() && call_ensures(p, (&s@[k as int],), true)
                && forall|j: int| k < j < s@.len() ==> call_ensures(p, (&#[trigger] s@[j],), false),
            None => forall|j: int| 0 <= j < s@.len() ==> call_ensures(p, (&#[trigger] s@[j],), false),
        }
{
    s.iter().rposition(p)
}

// ---- Vec::drain ------------------------------------------------------------------------------------
/// `v.drain(from..).next_back()` behind a contract (rewrite rule drain-from-next-back-to-helper): everything from
/// position `from` on is removed and the last removed element returned.  ASSUMED (the temporary `Drain` is dropped
/// at the end of the statement, which is when std completes the removal); the body is what the code called.
#[verifier::external_body]
pub fn verif_drain_from_next_back<T>(v: &mut Vec<T>, from: usize) -> (r: Option<T>)
    requires
        from <= old(v)@.len(),
    ensures
        final(v)@ == old(v)@.subrange(0, from as int),
        r == (if from < old(v)@.len() { Some(old(v)@.last()) } else { None::<T> }),
{
    v.drain(from..).next_back()
}

// ---- HashMap::retain / Vec::pop_if -----------------------------------------------------------------
/// `m.retain(f)` behind a contract (rewrite rule tokens-to-helper): every entry is offered to `f` once, by mutable
/// reference; it stays (with whatever `f` made of the value) iff `f` answers true.  ASSUMED; the body is what the
/// code called.
#[verifier::external_body]
pub fn verif_retain<K: std::cmp::Eq + std::hash::Hash, V, F: FnMut(&K, &mut V) -> bool>(m: &mut HashMap<K, V>, f: F)
    requires
        forall|k: &K, v: &mut V| call_requires(f, (k, v)),
    ensures
        forall|k: K| #[trigger] final(m)@.contains_key(k) ==> old(m)@.contains_key(k),
        forall|k: K| #[trigger] old(m)@.contains_key(k) ==> exists|v: &mut V, b: bool| *v == old(m)@[k] && call_ensures(f, (&k, v), b)
             && (b ==> final(m)@.contains_key(k) && final(m)@[k] == *final(v)) && (!b ==> !final(m)@.contains_key(k)),
{
    m.retain(f)
}

/// ASSUMED contract of `Vec::pop_if`: the last element is offered to the predicate by mutable reference and
/// removed iff the predicate answers true.
pub assume_specification<T, A: std::alloc::Allocator, F: FnOnce(&mut T) -> bool>[ Vec::<T, A>::pop_if ](v: &mut Vec<T, A>, f: F) -> (r: Option<T>)
    requires
        forall|x: &mut T| call_requires(f, (x,)),
    ensures
        old(v)@.len() == 0 ==> r is None && final(v)@ == old(v)@,
        old(v)@.len() > 0 ==> exists|x: &mut T, b: bool| *x == old(v)@.last() && call_ensures(f, (x,), b)
            && (b ==> r == Some(*final(x)) && final(v)@ == old(v)@.drop_last())
            && (!b ==> r is None && final(v)@ == old(v)@.drop_last().push(*final(x)));

// ---- the environment of executed programs ----------------------------------------------------------
#[verifier::external_type_specification]
#[verifier::external_body]
pub struct ExCString(std::ffi::CString);

/// `t` is what `f` made of some entry of the map
pub open spec fn produced_by<K, V, T, F: FnMut((&K, &V)) -> Option<T>>(m: Map<K, V>, f: F, t: T) -> bool {
    exists|k: K| #![trigger m.contains_key(k)] m.contains_key(k) && call_ensures(f, ((&k, &m[k]),), Some(t))
}
/// `m.iter().filter_map(f).collect()` behind a contract (rewrite rule tokens-to-helper): the results `f` gives for
/// the entries of the map, in some order.  ASSUMED; the body is what the code called.
#[verifier::external_body]
pub fn verif_filter_map_collect<K: std::cmp::Eq + std::hash::Hash, V, T, F: FnMut((&K, &V)) -> Option<T>>(m: &HashMap<K, V>, f: F) -> (r: Vec<T>)
    requires
        forall|k: &K, v: &V| call_requires(f, ((k, v),)),
    ensures
        forall|i: int| 0 <= i < r@.len() ==> produced_by(m@, f, #[trigger] r@[i]),
        r@.len() <= m@.len(),
{
    m.iter().filter_map(f).collect()
}

/// `p` occurs in the string (meaning of `str::contains` for the pattern type `P`); ASSUMED: membership for a `char`
pub uninterp spec fn pat_in<P>(s: Seq<char>, p: P) -> bool;
pub broadcast axiom fn axiom_pat_char(s: Seq<char>, c: char)
    ensures #[trigger] pat_in::<char>(s, c) == s.contains(c);
pub assume_specification<P: core::str::pattern::Pattern>[ str::contains::<P> ](s: &str, p: P) -> (b: bool)
    ensures b == pat_in(s@, p);
