# Unit readsyntax: read's interpretation of the parsed options and operands (kernel of C20).
RS = 'yash-builtin/src/read/syntax.rs'
RD = 'yash-builtin/src/read.rs'
MOD_HEAD = '''    use vstd::prelude::*;
'''
UNIT = {
    'name': 'readsyntax',
    'property': 'C20',
    'rlimit': 60,
    'verus_args': ['--edition=2024'],
    'vacuity_floor': 1,
    'controls': {RS + '::parse': {'ensures': {'append': 'false'}}},
    'control_expect': ['parse'],
    'items': [
        ('@raw', 'pub mod rds {\n' + MOD_HEAD),
        ('@file', 'prelude.rs'),
        (RD, ['struct Command'], {'drop_derives': 'all'}),
        (RS, ['fn parse'], {'ret': 'r',
            'attrs': ['#[verifier::loop_isolation(false)]'],
            'token_rewrites': [
                ('parse_arguments ( OPTION_SPECS , mode , args ) ?', 'parse_arguments(verif_option_specs(), mode, args)?'),
                ('for option in options', 'let ghost verif_o = occs(options@); for option in verif_it: options'),
                ('arg . value . len ( )', 'verif_byte_len(&arg.value)'),
                ("arg . value . as_bytes ( ) [ 0 ]", 'verif_first_byte(&arg.value)'),
                ('_ => unreachable ! ( ) ,', '_ => { assert(false); }'),
                # a ghost annotation in front of the `return` of a match arm (the arm gets braces)
                ('_ => return Err ( Error :: MultibyteDelimiter { delimiter : arg } ) ,', '_ => { proof { lemma_delim_none(verif_o, verif_it.index() as int + 1, verif_o.len() as int); } return Err(Error::MultibyteDelimiter { delimiter: arg }); }'),
            ],
            'ensures': [
                'parsed(args@) is None ==> r is Err',
                # the answer is a function of the occurrences (letter and argument, in order) and the operands: the LAST -d names the
                # delimiter, a -d argument of more than one byte is rejected, -r means raw, the last operand is the last variable
                'parsed(args@) matches Some(p) ==> ({ let o = p.0; let ops = p.1; let n = o.len() as int; '
                '(r is Ok <==> delim_of(o, n) is Some && names_ok(ops, env.options.verif_portable) && ops.len() > 0) '
                '&& (r matches Ok(c) ==> Some(c.delimiter) == delim_of(o, n) && c.is_raw == raw_of(o, n) && c.last_variable == ops.last() && c.variables@ == ops.drop_last()) })',
            ],
            'loops': {0: {'invariant': [
                'verif_o == occs(options@)',
                'forall|k: int| 0 <= k < options@.len() ==> (((#[trigger] options@[k]).spec.verif_short == Some(\'d\') && options@[k].argument is Some) || options@[k].spec.verif_short == Some(\'r\'))',
                'delim_of(verif_o, verif_it.index() as int) == Some(delimiter)',
                'is_raw == raw_of(verif_o, verif_it.index() as int)',
            ]}}}),
        ('@raw', '}\n'),
    ],
}
