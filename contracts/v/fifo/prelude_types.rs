// ---------------------------------------------------------------------------
// Prelude of unit fifo (placeholder types): the byte containers of the simulated file system
// (yash-env/src/system/virtual/file_body.rs), kernel of property C14.
// The real enum FileBody mentions types that are only stored, never inspected, by the functions of this unit;
// they are replaced by opaque placeholders of the same names.
// ---------------------------------------------------------------------------
/// same definition as core::task::Poll (which Verus does not know)
pub enum Poll<T> { Ready(T), Pending }
pub struct Inode;
pub struct UnixStr;
pub struct PathBuf;
pub struct RefCell<T>(pub T);
pub struct Waker;
pub struct Cell<T>(pub T);
pub struct Weak<T>(pub core::marker::PhantomData<T>);

/// Set of wakers of tasks blocked on a FIFO.  Waking and registering tasks is scheduling (not decided here);
/// the two operations are opaque and touch nothing else.
pub struct WakerSet { pub n: usize }
impl WakerSet {
    #[verifier::external_body]
    pub fn insert(&mut self, waker: Weak<Cell<Option<Waker>>>) { unimplemented!() }
    #[verifier::external_body]
    pub fn wake_all(&mut self) { unimplemented!() }
}

/// error numbers used by this unit (the real constants come from libc; only their distinctness matters)
impl Errno {
    pub const EAGAIN: Errno = Errno(11);
    pub const EBADF: Errno = Errno(9);
    pub const EISDIR: Errno = Errno(21);
    pub const ENOTSUP: Errno = Errno(95);
    pub const EPIPE: Errno = Errno(32);
}
