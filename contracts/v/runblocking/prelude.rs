// ---------------------------------------------------------------------------
// Prelude of unit runblocking (properties C08 / C11, kernel): yash-env/src/job/tcsetpgrp.rs, the blanket impl of RunBlocking
// (run_blocking) - how the shell runs tcsetpgrp with SIGTTOU blocked when it moves a job to or from the foreground.
// C08 / C11 "the parent's state ... is exactly as before ... the disposition actually installed ... never dropping a handler":
// the set of blocked signals is part of that state: the function given runs exactly once, with exactly the one signal added to
// the mask that was in force; afterwards the mask is what it was, on every path on which it could be changed at all (a failing
// restoration is reported unless the function itself had failed); when the signal cannot be blocked the function does not run
// and nothing changes.
//
// Hand-written model text (ASSUMED): trait Sigmask with a ghost view of the blocked set (as in unit blocksig), the function to
// run as a value with a `call` method that leaves the mask alone and records the mask it ran under; the blanket impl is checked
// as a method of a wrapper struct (rule impl-header-override); `&self` as `&mut self` (rule param-shared-to-mut).
// ---------------------------------------------------------------------------
#[derive(Debug)]
pub struct Errno(pub i32);
#[derive(Clone, Copy)]
pub struct Number(pub i32);
pub enum SigmaskOp { Add, Remove, Set }
pub trait SigsetT: Sized {
    spec fn view(&self) -> Set<int>;
    fn new() -> (r: Self) ensures r.view() == Set::<int>::empty();
    fn from_signals(signals: [Number; 1]) -> (r: std::result::Result<Self, Errno>)
        ensures r matches Ok(s) ==> s.view() == Set::<int>::empty().insert(signals[0].0 as int);
}
pub open spec fn apply_op(op: SigmaskOp, arg: Set<int>, mask: Set<int>) -> Set<int> {
    match op { SigmaskOp::Add => mask.union(arg), SigmaskOp::Remove => mask.difference(arg), SigmaskOp::Set => arg }
}
pub trait Sigmask {
    type Sigset: SigsetT;
    /// the signals this process has blocked
    spec fn mask(&self) -> Set<int>;
    fn sigmask(&mut self, op: Option<(SigmaskOp, &Self::Sigset)>, old_mask: Option<&mut Self::Sigset>) -> (r: std::result::Result<(), Errno>)
        ensures
            r is Ok ==> (old_mask matches Some(o) ==> final(o).view() == old(self).mask()) && final(self).mask() == (match op { Some((o, a)) => apply_op(o, a.view(), old(self).mask()), None => old(self).mask() }),
            r is Err ==> final(self).mask() == old(self).mask();
}
/// an arbitrary implementor of Sigmask, wrapped so that the blanket impl can be checked as inherent methods
/// (with a ghost record of the masks installed by `Set` operations - attempted, whether they succeeded or not - and of how often the function ran)
pub struct VerifSys<S: Sigmask> { pub inner: S, pub sets: Ghost<Seq<Set<int>>>, pub ran: Ghost<nat> }
impl<S: Sigmask> VerifSys<S> {
    #[verifier::external_body]
    pub fn sigmask(&mut self, op: Option<(SigmaskOp, &S::Sigset)>, old_mask: Option<&mut S::Sigset>) -> (r: std::result::Result<(), Errno>)
        ensures
            r is Ok ==> (old_mask matches Some(o) ==> final(o).view() == old(self).inner.mask()) && final(self).inner.mask() == (match op { Some((o, a)) => apply_op(o, a.view(), old(self).inner.mask()), None => old(self).inner.mask() }),
            r is Err ==> final(self).inner.mask() == old(self).inner.mask(),
            final(self).ran == old(self).ran, final(self).sets@ == (match op { Some((SigmaskOp::Set, a)) => old(self).sets@.push(a.view()), _ => old(self).sets@ })
    { unimplemented!() }
}
pub type Result<T> = std::result::Result<T, Errno>;
pub mod signal { pub use super::Number; }
/// the function run under the changed mask: it records the mask it saw and leaves the mask as it found it
pub trait Task<S: Sigmask, T>: Sized {
    spec fn ran_under(&self) -> Set<int>;
    fn call(self, sys: &mut VerifSys<S>, Ghost(under): Ghost<Set<int>>) -> (r: Result<T>)
        requires old(sys).inner.mask() == under
        ensures final(sys).inner.mask() == old(sys).inner.mask(), final(sys).sets == old(sys).sets, final(sys).ran@ == old(sys).ran@ + 1;
}
