# Unit dotscript: the `.` built-in (kernel shared by C02, C09 and C18).
SEM = 'yash-env/src/semantics.rs'
BI = 'yash-env/src/builtin.rs'
SS = 'yash-builtin/src/source/semantics.rs'
MOD_HEAD = '''    use vstd::prelude::*;
    use std::ops::ControlFlow::{self, Break};
    use std::ffi::c_int;
'''
RUNS0 = 'old(env).verif_runs@'
RUNS1 = 'final(env).verif_runs@'
RUNBLOCK = '''let run_read_eval_loop = env
            .any
            .get::<RunReadEvalLoop<S>>()
            .cloned()
            .expect("`RunReadEvalLoop` should be in `env.any`");
        let system = env.system.clone();
        let ref_env = RefCell::new(&mut *env);
        let input = Box::new(Echo::new(FdReader2::new(fd, system), &ref_env));
        let mut config = Config::with_input(input);
        config.source = Some(Rc::new(Source::DotScript {
            name: self.file.value,
            origin: self.file.origin,
        }));
        let divert = run_read_eval_loop.0(&ref_env, config).await;'''
UNIT = {
    'name': 'dotscript',
    'property': 'C02',
    'rlimit': 60,
    'verus_args': ['--edition=2024'],
    'vacuity_floor': 2,
    'items': [
        ('@raw', 'pub mod semantics { pub type Result<T = ()> = std::ops::ControlFlow<crate::ds::Divert, T>; }\npub use ds::builtin::Result;\n'),
        ('@raw', 'pub mod ds {\n' + MOD_HEAD),
        (SEM, ['struct ExitStatus']),
        (SEM, ['enum Divert']),
        ('@raw', 'pub mod builtin {\n    use super::*;\n'),
        (BI, ['struct Result'], {'pub_fields': True}),
        (BI, ['impl Result', 'fn with_exit_status_and_divert'], {'ret': 'r', 'ensures': ['r.exit_status == exit_status', 'r.divert == divert']}),
        ('@raw', '}\n    pub use builtin::Result as BuiltinResult;\n'),
        ('@file', 'prelude.rs'),
        (SS, ['fn consume_return'], {'ret': 'r',
            'ensures': [
                # a Return divert ends here, handing out the status it carries; everything else passes through
                'divert matches ControlFlow::Break(Divert::Return(st)) ==> r.0 == st && r.1 is Continue',
                '!(divert matches ControlFlow::Break(Divert::Return(_))) ==> r.0 is None && r.1 == divert',
            ]}),
        (SS, ['impl Command', 'fn execute'], {'ret': 'r', 'rewrites': ['strip-async'],
            'token_rewrites': [
                ('let env = & mut * env . push_frame ( Frame :: DotScript ) ;', 'let mut verif_fg = env.push_frame(Frame::DotScript); let env = &mut *verif_fg.env;'),
                (RUNBLOCK, 'let verif_file = self.file; let divert = verif_run_script(env, fd, verif_file);'),
                ('_ = env . system . close ( fd ) ;', 'verif_close(env, fd);', '*'),
                ('find_and_open_file ( env , & self . file . value )', 'find_and_open_file(env, &self.file.value)'),
                ('crate :: Result :: with_exit_status_and_divert', 'crate::ds::BuiltinResult::with_exit_status_and_divert'),
            ],
            'sig_token_rewrites': [('crate :: Result', 'crate::ds::BuiltinResult')],
            'ensures': [
                # C09: no descriptor is left behind, the caller's frames are back
                'final(env).verif_open@ =~= old(env).verif_open@', 'final(env).verif_frames@ == old(env).verif_frames@',
                # the script could not be opened: one report, nothing runs
                RUNS1 + '.len() <= ' + RUNS0 + '.len() + 1',
                RUNS1 + '.len() == ' + RUNS0 + '.len() ==> final(env).verif_reported@ == old(env).verif_reported@ + 1 && r.exit_status.0 != 0 && !(r.divert matches ControlFlow::Break(Divert::Return(_)))',
                # otherwise it is read once, through a descriptor newly opened for it, which is open while it is read, inside a
                # DotScript frame on top of the caller's
                RUNS1 + '.len() == ' + RUNS0 + '.len() + 1 ==> final(env).verif_reported@ == old(env).verif_reported@ && !old(env).verif_open@.contains(' + RUNS1 + '.last().fd) && ' + RUNS1 + '.last().open.contains(' + RUNS1 + '.last().fd)'
                ' && ' + RUNS1 + '.last().frames == old(env).verif_frames@.push(Frame::DotScript)'
                # C02: a Return from the script ends the script only: its status (or `$?`) is the status of the built-in; every other
                # divert is handed on with `$?` as the status
                ' && (' + RUNS1 + '.last().result matches ControlFlow::Break(Divert::Return(st)) ==> r.divert is Continue && r.exit_status == (match st { Some(s) => s, None => final(env).exit_status }))'
                ' && (!(' + RUNS1 + '.last().result matches ControlFlow::Break(Divert::Return(_))) ==> r.divert == ' + RUNS1 + '.last().result && r.exit_status == final(env).exit_status)',
            ]}),
        ('@raw', '}\n'),
    ],
}
