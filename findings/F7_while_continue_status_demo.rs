// Finding F7 (property C02), native demonstration against the real code.
// Place inside `mod tests` of yash-semantics/src/command/compound_command/while_loop.rs and run
//     cargo test -p yash-semantics --offline --lib verif_exit_status
// Fails on /repo before commit 21ed7de (left: ExitStatus(5), right: ExitStatus(0)), passes after.
// Shell level: i=0; while [ $i -lt 2 ]; do i=$((i+1)); [ $i = 2 ] && continue; (exit 5); done; echo $?   printed 5 (dash, bash, and this shell's own for loop: 0)
    #[test]
    fn verif_exit_status_of_while_loop_whose_last_round_ended_with_continue() {
        // i=0; while [ $i -lt 2 ]; do i=$((i+1)); if [ $i = 2 ]; then continue; fi; (exit 5); done; echo $?
        // The last command run in the loop body is `continue` (exit status 0).
        let mut env = Env::new_virtual();
        env.builtins.insert("continue", continue_builtin());
        env.builtins.insert("return", return_builtin());
        env.exit_status = ExitStatus(123);
        let command: CompoundCommand = "while return -n $(((i+=1)>2)); do
            case $i in
                (2) continue ;;
            esac
            return -n 5
        done"
            .parse()
            .unwrap();

        let result = command.execute(&mut env).now_or_never().unwrap();
        assert_eq!(result, Continue(()));
        assert_eq!(env.exit_status, ExitStatus::SUCCESS);
    }
