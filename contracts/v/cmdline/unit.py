# Unit cmdline: how far the parser looks when it parses one command line (kernel of C18).
LS = 'yash-syntax/src/parser/list.rs'
IMPL = "impl Parser<'_, '_>"
MOD_HEAD = '''    use vstd::prelude::*;
'''
M0 = 'old(self).mon@'
M1 = 'final(self).mon@'
UNIT = {
    'name': 'cmdline',
    'property': 'C18',
    'rlimit': 60,
    'verus_args': ['--edition=2024'],
    'vacuity_floor': 2,
    'controls': 'auto',
    'items': [
        ('@raw', 'pub mod cl {\n' + MOD_HEAD),
        ('@file', 'prelude.rs'),
        (LS, [IMPL, 'fn newline_and_here_doc_contents'], {'ret': 'r', 'rewrites': ['strip-async'],
            'requires': [M0 + '.newlines == 0'],
            'ensures': [
                # no newline next: nothing is taken
                'r matches Ok(false) ==> ' + M1 + ' == ' + M0,
                # a newline: exactly that token is taken, then the here-document contents that follow it - and nothing is looked at
                'r matches Ok(true) ==> ' + M1 + ' == (Mon { newlines: 1, heredocs: ' + M0 + '.heredocs + 1, ..' + M0 + ' })',
                M1 + '.beyond == ' + M0 + '.beyond && ' + M1 + '.newlines <= 1 && ' + M1 + '.others == ' + M0 + '.others && ' + M1 + '.lists == ' + M0 + '.lists',
            ]}),
        (LS, [IMPL, 'fn command_line'], {'ret': 'r', 'rewrites': ['strip-async'],
            'attrs': ['#[verifier::exec_allows_no_decreases_clause]'],
            'token_rewrites': [
                # rule loop-break-value
                ('let list = loop { if let Rec :: Parsed ( list ) = self . list ( ) . await ? { break list ; } } ;',
                 'let verif_lv: List; loop invariant_except_break self.mon@ == ' + M0 + ' invariant ' + M0 + '.newlines == 0 ensures self.mon@ == (Mon { lists: ' + M0 + '.lists + 1, ..' + M0 + ' }) { if let Rec::Parsed(list) = self.list()? { verif_lv = list; break; } } let list = verif_lv;'),
            ],
            'requires': [M0 + '.newlines == 0'],
            'ensures': [
                # "no further than the running command needs": nothing is peeked, taken or parsed beyond the newline that ends the line
                M1 + '.beyond == ' + M0 + '.beyond',
                # at most that ONE newline is taken, and no other token by the command-line parser itself
                M1 + '.newlines <= 1 && ' + M1 + '.others == ' + M0 + '.others',
                # a command line is one list
                'r is Ok ==> ' + M1 + '.lists == ' + M0 + '.lists + 1',
                # "no command" is answered only when the line has not even a newline (end of input)
                'r matches Ok(None) ==> ' + M1 + '.newlines == 0',
            ]}),
        ('@raw', '}\n'),
    ],
}
