// ---------------------------------------------------------------------------
// Prelude of unit startwait (property C13, kernel): Config::start_and_wait (yash-env/src/subshell/config.rs), the way every
// synchronously awaited child (a `( )` subshell, an external utility, a job-controlled pipeline, the redirection subshell
// of a command without a name) is awaited.  C13 "`wait`, `$?` ... report each child's true exit status": the result
// handed out is a halt of exactly the child that was started, and it is a mere STOP only when the child is
// job-controlled - a child without job control that is stopped and continued later goes on being awaited until it
// really ends; every earlier report was such a stop.
//
// Hand-written model text (ASSUMED): Config::start (fork + the child-side closure), Env::wait_for_subshell_to_halt (unit
// waitsub has the real function), ProcessResult::is_stopped, tcsetpgrp_with_block are opaque calls driving a ghost
// monitor; the task closure is an opaque value (its AsyncFnOnce bound is dropped from the signature: rule sig-tokens).
// Await points dropped; termination of the waiting loop is not claimed (it ends when the child does).
// ---------------------------------------------------------------------------
pub trait BlockSignals {} pub trait Close {} pub trait Dup {} pub trait Exit {} pub trait Fork {} pub trait GetPid {} pub trait Open {}
pub trait RunBlocking {} pub trait RunUnblocking {} pub trait SendSignal {} pub trait SetPgid {} pub trait SetRlimit {} pub trait SignalSystem {}
pub trait TcSetPgrp {} pub trait Wait {} pub trait WaitForSignals {}
#[derive(Debug)]
pub struct Errno(pub i32);
#[derive(Clone, Copy)]
pub struct Pid(pub i32);
#[derive(Clone, Copy)]
pub struct Fd(pub i32);
#[derive(Clone, Copy)]
pub struct ProcessResult { pub verif_stopped: bool, pub verif_opaque: u8 }
impl ProcessResult {
    #[verifier::external_body]
    pub fn is_stopped(&self) -> (r: bool) ensures r == self.verif_stopped { unimplemented!() }
}
impl vstd::std_specs::cmp::PartialEqSpecImpl for JobControl {
    open spec fn obeys_eq_spec() -> bool { true }
    open spec fn eq_spec(&self, other: &JobControl) -> bool { *self == *other }
}
pub struct Mon {
    /// what Config::start answered
    pub started: Option<(Pid, Option<JobControl>)>,
    pub starts: nat,
    /// the halts reported so far: for which child, what
    pub halts: Seq<(Pid, ProcessResult)>,
    /// the terminal was handed back to the shell's process group after so many halts
    pub tty_restored_after: Seq<nat>,
}
pub struct Env<S> { pub tty: Option<Fd>, pub main_pgid: Pid, pub mon: Ghost<Mon>, pub system: S }
impl Config {
    /// Config::start: forks; in the child the closure runs `task`
    #[verifier::external_body]
    pub fn start<S, F>(self, env: &mut Env<S>, task: F) -> (r: Result<(Pid, Option<JobControl>), Errno>)
        ensures final(env).mon@ == (Mon { started: match r { Ok(p) => Some(p), Err(_) => None }, starts: old(env).mon@.starts + 1, ..old(env).mon@ }),
            final(env).tty == old(env).tty, final(env).main_pgid == old(env).main_pgid
    { unimplemented!() }
}
impl<S> Env<S> {
    /// lib.rs wait_for_subshell_to_halt (unit waitsub): the next time the target exits, is killed or stops
    #[verifier::external_body]
    pub fn wait_for_subshell_to_halt(&mut self, target: Pid) -> (r: Result<(Pid, ProcessResult), Errno>)
        ensures
            r matches Ok(p) ==> p.0 == target && final(self).mon@ == (Mon { halts: old(self).mon@.halts.push(p), ..old(self).mon@ }),
            r is Err ==> final(self).mon@ == old(self).mon@,
            final(self).tty == old(self).tty, final(self).main_pgid == old(self).main_pgid
    { unimplemented!() }
}
#[verifier::external_body]
pub fn tcsetpgrp_with_block<S>(system: &S, tty: Fd, pgid: Pid) -> (r: Result<(), Errno>) { unimplemented!() }
