    // Finding F8 (C08): a process forked in the virtual system did not get its parent's working directory, umask and
    // resource limits (append inside `mod tests` of yash-env/src/system/virtual/process.rs;
    // cargo test -p yash-env --offline --lib demo_f8_)
    #[test]
    fn demo_f8_fork_from_copies_working_directory_umask_and_limits() {
        let mut parent = Process::with_parent_and_group(Pid(1), Pid(2));
        parent.cwd = PathBuf::from("/dir");
        parent.umask = Mode::from_bits_retain(0o027);
        parent.resource_limits.insert(Resource::NOFILE, LimitPair { soft: 10, hard: 20 });
        let child = Process::fork_from(Pid(2), &parent);
        assert_eq!(child.cwd, PathBuf::from("/dir"), "the child starts in the parent's working directory");
        assert_eq!(child.umask, Mode::from_bits_retain(0o027), "the child has the parent's umask");
        assert_eq!(child.resource_limits, parent.resource_limits, "the child has the parent's resource limits");
    }
