"""Minimal Rust lexer: enough to cut items out of a source file byte-for-byte.

Tokens carry byte offsets into the *str* (we work on str indices; files are
read as UTF-8 and written back the same way, so a slice of the str is a slice of
the file text).

Kinds: 'ident', 'lifetime', 'char', 'str', 'num', 'punct', 'comment', 'doc'.
Whitespace is skipped.  '->', '=>' and '::' are lexed as single punct tokens so
that angle-bracket counting is not confused by them.
"""
from dataclasses import dataclass


@dataclass
class Tok:
    kind: str
    text: str
    start: int
    end: int

    def __repr__(self):
        return f"{self.kind}:{self.text!r}@{self.start}"


class LexError(Exception):
    pass


def _ident_start(c):
    return c == '_' or c.isalpha()


def _ident_cont(c):
    return c == '_' or c.isalnum()


def lex(src, keep_comments=True):
    toks = []
    i = 0
    n = len(src)
    while i < n:
        c = src[i]
        if c.isspace():
            i += 1
            continue
        # comments
        if src.startswith('//', i):
            j = src.find('\n', i)
            if j < 0:
                j = n
            text = src[i:j]
            is_doc = (text.startswith('///') and not text.startswith('////')) or text.startswith('//!')
            if keep_comments:
                toks.append(Tok('doc' if is_doc else 'comment', text, i, j))
            i = j
            continue
        if src.startswith('/*', i):
            depth = 1
            j = i + 2
            while j < n and depth > 0:
                if src.startswith('/*', j):
                    depth += 1
                    j += 2
                elif src.startswith('*/', j):
                    depth -= 1
                    j += 2
                else:
                    j += 1
            if depth != 0:
                raise LexError('unterminated block comment at %d' % i)
            text = src[i:j]
            is_doc = (text.startswith('/**') and not text.startswith('/***') and text != '/**/') or text.startswith('/*!')
            if keep_comments:
                toks.append(Tok('doc' if is_doc else 'comment', text, i, j))
            i = j
            continue
        # raw strings / byte strings / raw identifiers
        if c in 'rb':
            j = i
            if src.startswith('br', i) or src.startswith('cr', i):
                j = i + 2
                raw = True
            elif c == 'r':
                j = i + 1
                raw = True
            else:
                j = i + 1
                raw = False
            if raw:
                k = j
                while k < n and src[k] == '#':
                    k += 1
                if k < n and src[k] == '"':
                    hashes = k - j
                    close = '"' + '#' * hashes
                    e = src.find(close, k + 1)
                    if e < 0:
                        raise LexError('unterminated raw string at %d' % i)
                    e += len(close)
                    toks.append(Tok('str', src[i:e], i, e))
                    i = e
                    continue
                if c == 'r' and j < n and src[j] == '#' and j + 1 < n and _ident_start(src[j + 1]):
                    k = j + 1
                    while k < n and _ident_cont(src[k]):
                        k += 1
                    toks.append(Tok('ident', src[i:k], i, k))
                    i = k
                    continue
            else:
                if j < n and src[j] == '"':
                    e = _scan_string(src, j)
                    toks.append(Tok('str', src[i:e], i, e))
                    i = e
                    continue
                if j < n and src[j] == "'":
                    e = _scan_char(src, j)
                    if e is not None:
                        toks.append(Tok('char', src[i:e], i, e))
                        i = e
                        continue
        if c == '"':
            e = _scan_string(src, i)
            toks.append(Tok('str', src[i:e], i, e))
            i = e
            continue
        if c == "'":
            e = _scan_char(src, i)
            if e is not None:
                toks.append(Tok('char', src[i:e], i, e))
                i = e
                continue
            # lifetime
            k = i + 1
            while k < n and _ident_cont(src[k]):
                k += 1
            toks.append(Tok('lifetime', src[i:k], i, k))
            i = k
            continue
        if _ident_start(c):
            k = i + 1
            while k < n and _ident_cont(src[k]):
                k += 1
            toks.append(Tok('ident', src[i:k], i, k))
            i = k
            continue
        if c.isdigit():
            k = i + 1
            while k < n and (src[k].isalnum() or src[k] == '_' or
                             (src[k] == '.' and k + 1 < n and src[k + 1].isdigit()
                              and not src.startswith('..', k))):
                k += 1
            toks.append(Tok('num', src[i:k], i, k))
            i = k
            continue
        for two in ('->', '=>', '::'):
            if src.startswith(two, i):
                toks.append(Tok('punct', two, i, i + 2))
                i += 2
                break
        else:
            toks.append(Tok('punct', c, i, i + 1))
            i += 1
    return toks


def _scan_string(src, i):
    # src[i] == '"'
    j = i + 1
    n = len(src)
    while j < n:
        if src[j] == '\\':
            j += 2
            continue
        if src[j] == '"':
            return j + 1
        j += 1
    raise LexError('unterminated string at %d' % i)


def _scan_char(src, i):
    """src[i] == "'". Return end offset if this is a char literal, else None (lifetime)."""
    n = len(src)
    if i + 1 >= n:
        return None
    if src[i + 1] == '\\':
        j = i + 2
        # escape: \n \' \\ \x41 \u{...}
        if j < n and src[j] == 'u' and j + 1 < n and src[j + 1] == '{':
            e = src.find('}', j)
            if e < 0:
                return None
            j = e + 1
        elif j < n and src[j] == 'x':
            j += 3
        else:
            j += 1
        if j < n and src[j] == "'":
            return j + 1
        return None
    if i + 2 < n and src[i + 2] == "'" and src[i + 1] != "'":
        return i + 3
    return None


OPEN = {'(': ')', '[': ']', '{': '}'}
CLOSE = {')', ']', '}'}


def match_close(toks, i):
    """toks[i] is an opening bracket token; return index of its matching close."""
    assert toks[i].kind == 'punct' and toks[i].text in OPEN, toks[i]
    depth = 0
    j = i
    while j < len(toks):
        t = toks[j]
        if t.kind == 'punct':
            if t.text in OPEN:
                depth += 1
            elif t.text in CLOSE:
                depth -= 1
                if depth == 0:
                    return j
        j += 1
    raise LexError('unbalanced bracket at token %r' % toks[i])


def skip_angles(toks, i):
    """toks[i] is '<'; return index just after the matching '>'."""
    assert toks[i].text == '<'
    depth = 0
    j = i
    while j < len(toks):
        t = toks[j]
        if t.kind == 'punct':
            if t.text == '<':
                depth += 1
            elif t.text == '>':
                depth -= 1
                if depth == 0:
                    return j + 1
            elif t.text in OPEN:
                j = match_close(toks, j)
        j += 1
    raise LexError('unbalanced angle at token %r' % toks[i])
