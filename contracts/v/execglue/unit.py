# Unit execglue: replace_current_process (kernel shared by C16, C11 and C02).
CMD = 'yash-env/src/semantics/command.rs'
SEM = 'yash-env/src/semantics.rs'
MOD_HEAD = '''    use vstd::prelude::*;
    use std::convert::Infallible;
    use std::ffi::c_int;
'''
L0 = 'old(env).log@'
L1 = 'final(env).log@'
N0 = L0 + '.len() as int'
UNIT = {
    'name': 'execglue',
    'property': 'C16',
    'rlimit': 60,
    'verus_args': ['--edition=2024'],
    'vacuity_floor': 1,
    'items': [
        ('@raw', 'pub mod eg {\n' + MOD_HEAD),
        ('yash-env/src/system/errno.rs', ['type RawErrno']),
        ('yash-env/src/system/errno.rs', ['struct Errno']),
        (SEM, ['struct ExitStatus']),
        (SEM, ['impl ExitStatus#1', 'const NOT_FOUND']), (SEM, ['impl ExitStatus#1', 'const NOEXEC']),
        ('@file', 'prelude.rs'),
        (CMD, ['fn replace_current_process'], {'ret': 'r', 'rewrites': ['strip-async'],
            'token_rewrites': [
                ('env . traps . disable_internal_dispositions ( & env . system )', 'verif_disable_internal(env)', '*'),
                ('env . variables . env_c_strings ( )', 'verif_env_c_strings(env)'),
                ('let Err ( errno ) = env . system . execve ( path . as_c_str ( ) , args . as_slice ( ) , envs . as_slice ( ) ) . await ;', 'let errno = verif_execve(env, &path, &args, &envs);'),
                ('fall_back_on_sh ( & env . system , path . clone ( ) , args , envs )', 'verif_fall_back_on_sh(env, path.clone(), args, envs)'),
            ],
            'ensures': [
                # C11: the internal dispositions are disabled first; C16: then the program is started with the fields of the command
                # as arguments and EXACTLY the exported variables as they are at that moment as its environment
                L1 + '.len() >= ' + N0 + ' + 2', L1 + '.subrange(0, ' + N0 + ') =~= ' + L0, L1 + '[' + N0 + '] is DisabledInternal',
                L1 + '[' + N0 + ' + 1] == (Ev::Execve { path: path.verif_id, args: field_ids(args@), envs: old(env).verif_exported@ })',
                # it only comes back when that failed: the status is 127 when there is no such file, 126 otherwise - after one attempt to
                # run it as a shell script when its format is not recognised - and the error names the path and the errno
                'r matches Err(e) && e.path == path && final(env).exit_status == (if e.errno == Errno::ENOENT || e.errno == Errno::ENOTDIR { ExitStatus(127) } else { ExitStatus(126) })',
                '(r matches Err(e) && e.errno == Errno::ENOEXEC) ==> ' + L1 + '.len() == ' + N0 + ' + 3 && ' + L1 + '[' + N0 + ' + 2] == (Ev::FellBack { path: path.verif_id })',
                '(r matches Err(e) && e.errno != Errno::ENOEXEC) ==> ' + L1 + '.len() == ' + N0 + ' + 2',
            ]}),
        (CMD, ['fn run_external_utility_in_subshell'], {'ret': 'r', 'rewrites': ['strip-async'],
            'sig_token_rewrites': [
                ('env : & mut Env < S >', 'env: &mut XEnv<S>'),
                ('handle_start_subshell_error : fn ( & mut Env < S > , StartSubshellError ) -> PinFuture < \'_ >', 'handle_start_subshell_error: StartErrorHandler'),
                ('handle_replace_current_process_error : fn ( & mut Env < S > , ReplaceCurrentProcessError , Location , ) -> PinFuture < \'_ >', 'handle_replace_current_process_error: ExecErrorHandler'),
                ('+ Exec', ''), ('+ ShellPath', ''), ('+ SignalSystem', ''),
            ],
            'token_rewrites': [
                # rule closure-to-nested-fn: the closure handed to start_and_wait
                ('let subshell_result = Config :: foreground ( ) . start_and_wait ( env , async move | env , _job_control | {', 'let ghost verif_args = args@; let subshell_result = verif_start_and_wait(env, &path, &args); fn verif_child<S>(env: &mut XEnv<S>, _job_control: Option<JobControl>, path: CString, args: Vec<Field>, handle_replace_current_process_error: ExecErrorHandler)\n    requires args@.len() >= 1\n    ensures final(env).xlog@ == old(env).xlog@.push(XEv::Replaced { path: path.verif_id, args: field_ids(args@) }).push(XEv::ExecErrorReported { path: path.verif_id })\n{'),
                ('let Err ( e ) = replace_current_process ( env , path , args ) . await ;', 'let e = verif_replace(env, path, args);'),
                ('handle_replace_current_process_error ( env , e , location ) . await ; } ) ;', 'handle_replace_current_process_error.call(env, e, location); }'),
                ('match subshell_result . await {', 'match subshell_result {'),
                ('handle_job_status ( env , pid , result , | | job_name )', 'verif_handle_job_status(env, pid, result, job_name)'),
                ('handle_start_subshell_error ( env , StartSubshellError { utility , errno } ) . await ;', 'handle_start_subshell_error.call(env, StartSubshellError { utility, errno });'),
            ],
            'requires': ['args@.len() >= 1'],
            'ensures': [
                # exactly one child is started, for exactly this path and these arguments
                'final(env).xlog@.len() == old(env).xlog@.len() + 2', 'final(env).xlog@.subrange(0, old(env).xlog@.len() as int) =~= old(env).xlog@',
                'final(env).xlog@[old(env).xlog@.len() as int] == (XEv::Child { path: path.verif_id, args: field_ids(args@), controls_jobs: old(env).verif_controls_jobs })',
                # it was started and awaited: its result is interpreted once (with a job name exactly when the shell controls jobs) and
                # that answer is the answer; it could not be started: one report, status 126, the shell goes on
                'final(env).xlog@.last() matches XEv::JobStatus { pid, result, named, answer } ==> r == answer',
                '!(final(env).xlog@.last() is JobStatus) ==> final(env).xlog@.last() == (XEv::StartErrorReported { utility: args@[0].verif_id }) && r == std::ops::ControlFlow::<Divert, ExitStatus>::Continue(ExitStatus(126))',
            ]}),
        ('@raw', '}\n'),
    ],
}
