# Unit fullcompound: a compound command with redirections (kernel shared by C09 and C10).
CC = 'yash-semantics/src/command/compound_command.rs'
SEM = 'yash-env/src/semantics.rs'
MOD_HEAD = '''    use vstd::prelude::*;
    use std::ops::ControlFlow::{self, Break, Continue};
    use std::ffi::c_int;
'''
M0 = 'old(env).mon@'
M1 = 'final(env).mon@'
UNIT = {
    'name': 'fullcompound',
    'property': 'C09',
    'rlimit': 60,
    'verus_args': ['--edition=2024'],
    'vacuity_floor': 2,
    'items': [
        ('@raw', 'pub mod semantics { pub type Result<T = ()> = std::ops::ControlFlow<crate::fcc::Divert, T>; }\n'),
        ('@raw', 'pub mod redir { pub type Error = crate::fcc::RedirError; }\n'),
        ('@raw', 'pub mod fcc {\n' + MOD_HEAD + '    pub use crate::semantics::Result;\n'),
        (SEM, ['struct ExitStatus']),
        (SEM, ['enum Divert']),
        ('@file', 'prelude.rs'),
        (CC, ['fn perform_redirs'], {'ret': 'r', 'rewrites': ['strip-async'],
            'token_rewrites': [
                ('& env . options', '&env.env.options'),
                ('xtrace . as_mut ( )', 'verif_as_mut(&mut xtrace)'),
                ('finish ( env , xtrace )', 'finish(env.env, xtrace)'),
                ('env . system . print_error ( & xtrace )', 'verif_print_error(env.env, &xtrace)'),
            ],
            'ensures': [
                # exactly the guard's perform_redirs on exactly these redirections, its answer handed on; tracing changes nothing
                'mut_ref_future(final(env).env) == mut_ref_future(old(env).env)',
                'final(env).env.mon@ == (Mon { rcalls: old(env).env.mon@.rcalls.push((redir_ids(redirs@), r is Ok)), ..old(env).env.mon@ })',
                'r is Ok ==> final(env).env.verif_redirs@ == old(env).env.verif_redirs@ + redir_ids(redirs@)',
            ]}),
        (CC, ["impl<S: Runtime + 'static> Command<S> for syntax::FullCompoundCommand", 'fn execute'], {'ret': 'r', 'rewrites': ['strip-async'],
            'token_rewrites': [
                ('self . command . execute ( & mut env )', 'self.command.execute(env.env)', '*'),
                ('error . handle ( & mut env )', 'error.handle(env.env)', '*'),
                ('env . apply_errexit ( )', 'env.env.apply_errexit()', '*'),
            ],
            'ensures': [
                # C09: the redirections are performed once, all of them, first ...
                M1 + '.rcalls == ' + M0 + '.rcalls.push((redir_ids(self.redirs@), ' + M1 + '.rcalls.last().1))',
                # ... and afterwards the redirections in effect are the caller\'s (RAII of the guard assumed)
                'final(env).verif_redirs@ == old(env).verif_redirs@',
                # they succeeded: the command runs once, with exactly them in effect on top of the caller\'s, and its result is
                # the result; no error is reported and errexit is left to the command
                M1 + '.rcalls.last().1 ==> ' + M1 + '.cruns == ' + M0 + '.cruns.push(CRun { what: self.command.verif_id, redirs: old(env).verif_redirs@ + redir_ids(self.redirs@), result: r })'
                ' && ' + M1 + '.handled == ' + M0 + '.handled && ' + M1 + '.errexit_consulted == ' + M0 + '.errexit_consulted',
                # C10: one failed: reported once, the command does not run, and errexit is consulted at most once, after the
                # report, with the status the handler left; its answer is the result unless the handler itself diverted
                '!' + M1 + '.rcalls.last().1 ==> ' + M1 + '.cruns == ' + M0 + '.cruns && ' + M1 + '.handled == ' + M0 + '.handled + 1'
                ' && ' + M1 + '.errexit_consulted <= ' + M0 + '.errexit_consulted + 1'
                ' && (' + M1 + '.errexit_consulted == ' + M0 + '.errexit_consulted + 1 ==> ' + M1 + '.errexit_status == ' + M1 + '.handled_status && ' + M1 + '.errexit_result == Some(r))'
                ' && (' + M1 + '.errexit_consulted == ' + M0 + '.errexit_consulted ==> r is Break)',
            ]}),
        ('@raw', '}\n'),
    ],
}
