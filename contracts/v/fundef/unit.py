# Unit fundef: a function definition command (kernel of property C02).
FD = 'yash-semantics/src/command/function_definition.rs'
SEM = 'yash-env/src/semantics.rs'
MOD_HEAD = '''    use vstd::prelude::*;
    use std::ops::ControlFlow::{self, Break, Continue};
    use std::ffi::c_int;
    use std::rc::Rc;
'''
M0 = 'old(env).mon@'
M1 = 'final(env).mon@'
F0 = 'old(env).functions.log@'
F1 = 'final(env).functions.log@'
DEFPOST = [
    # the name is expanded once
    M1 + '.expanded == ' + M0 + '.expanded.push(def.name.verif_id)',
    # an error there: handled once, nothing is defined, the handler's answer is the result
    M1 + '.expansion_result is None ==> ' + F1 + ' == ' + F0 + ' && ' + M1 + '.handled == ' + M0 + '.handled + 1 && ' + M1 + '.handler_result == Some(r) && ' + M1 + '.reported == ' + M0 + '.reported',
    # otherwise a function of exactly that name, with the body of this definition, is handed to the function set, once
    M1 + '.expansion_result matches Some(name) ==> ' + F1 + '.len() == ' + F0 + '.len() + 1 && ' + F1 + '.subrange(0, ' + F0 + '.len() as int) =~= ' + F0
    + ' && ' + F1 + '.last().name == name && ' + F1 + '.last().body == def.body.verif_id && r is Continue && ' + M1 + '.handled == ' + M0 + '.handled'
    # accepted: `$?` is 0; refused (an existing read-only function): reported once, `$?` is 2
    ' && (' + F1 + '.last().accepted ==> final(env).exit_status == ExitStatus(0) && ' + M1 + '.reported == ' + M0 + '.reported)'
    ' && (!' + F1 + '.last().accepted ==> final(env).exit_status == ExitStatus(2) && ' + M1 + '.reported == ' + M0 + '.reported + 1)',
]
UNIT = {
    'name': 'fundef',
    'property': 'C02',
    'rlimit': 60,
    'verus_args': ['--edition=2024'],
    'vacuity_floor': 2,
    'items': [
        ('@raw', 'pub mod semantics { pub type Result<T = ()> = std::ops::ControlFlow<crate::fd::Divert, T>; }\n'),
        ('@raw', 'pub mod fd {\n' + MOD_HEAD + '    pub use crate::semantics::Result;\n'),
        (SEM, ['struct ExitStatus']),
        (SEM, ['impl ExitStatus#1', 'const SUCCESS']), (SEM, ['impl ExitStatus#1', 'const ERROR']),
        (SEM, ['enum Divert']),
        ('@file', 'prelude.rs'),
        (FD, ['fn define_function'], {'ret': 'r', 'rewrites': ['strip-async'],
            'token_rewrites': [
                ('let body : Rc < syntax :: FullCompoundCommand > = Rc :: clone ( & def . body ) ; let body = Rc :: into_raw ( body ) . cast :: < BodyImpl > ( ) ; let body = unsafe { Rc :: from_raw ( body ) } ;',
                 'let body = verif_body_object(&def.body);'),
                ('body as Rc < dyn FunctionBodyObject < S > >', 'body'),
            ],
            'ensures': DEFPOST + [M1 + '.errexit_consulted == ' + M0 + '.errexit_consulted']}),
        (FD, ["impl<S: Runtime + 'static> Command<S> for syntax::FunctionDefinition", 'fn execute'], {'ret': 'r', 'rewrites': ['strip-async'],
            'token_rewrites': [('define_function ( env , self )', '{ let def = self; define_function(env, def) }')],
            'ensures': [
                M1 + '.expanded == ' + M0 + '.expanded.push(self.name.verif_id)',
                # errexit is consulted exactly once, after the definition, with the status it left - unless the handler of an
                # expansion error diverted, which is handed on
                M1 + '.errexit_consulted <= ' + M0 + '.errexit_consulted + 1',
                M1 + '.errexit_consulted == ' + M0 + '.errexit_consulted + 1 ==> ' + M1 + '.errexit_status == Some(final(env).exit_status) && ' + M1 + '.errexit_result == Some(r)',
                M1 + '.errexit_consulted == ' + M0 + '.errexit_consulted ==> r is Break && ' + M1 + '.handler_result == Some(r)',
                M1 + '.expansion_result is Some ==> ' + M1 + '.errexit_consulted == ' + M0 + '.errexit_consulted + 1 && ' + F1 + '.len() == ' + F0 + '.len() + 1 && ' + F1 + '.last().body == self.body.verif_id',
            ]}),
        ('@raw', '}\n'),
    ],
}
