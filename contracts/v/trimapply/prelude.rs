// ---------------------------------------------------------------------------
// Prelude of unit trimapply (properties C04 / C01, kernel): yash-semantics/src/expansion/initial/param/trim.rs apply, trim_value:
// the `#` `##` `%` `%%` modifiers of parameter expansion.
// C04 "prefix and suffix removal delete exactly the shortest or longest matching prefix or suffix": the pattern word is expanded
// once, joined, its backslashes turned into quoting (apply_escapes: unit attrfn) and parsed with a configuration that is
// anchored at the BEGINNING for `#` / `##` and at the END for `%` / `%%`, shortest-match for the single-character forms and
// longest otherwise, nothing else set; a pattern that does not parse leaves the value alone; otherwise every value - each
// element of an array - has the matched range removed, once; the search used is the right-to-left one exactly for the
// shortest suffix (the case in which the leftmost match is not the shortest), the left-to-right one otherwise.
//
// Hand-written model text (ASSUMED): expanding the pattern word, Phrase::ifs_join, apply_escapes, to_pattern_chars +
// Pattern::parse_with_config (units fnparse / fnregex), Pattern::find / rfind (the regex engine; unit nothing) and String::drain are
// opaque calls over uninterpreted functions; the function items `Pattern::rfind` / `Pattern::find` used as values are a two-valued
// enum with a call method (Verus has no function items as values); `for value in array` is a while loop over the index.
// ---------------------------------------------------------------------------
pub trait Runtime {}
pub struct Word { pub verif_id: int }
pub struct Error { pub verif_opaque: u8 }
pub struct VariableSet { pub verif_opaque: u8 }
pub struct InnerEnv<S> { pub variables: VariableSet, pub system: S }
pub struct Env<'a, S> { pub inner: &'a mut InnerEnv<S>, pub expanded: Ghost<Seq<int>> }
pub struct Expansion { pub verif_id: int }
pub struct PatternText { pub verif_id: int, pub verif_escaped: bool }
pub struct Trim { pub side: TrimSide, pub length: TrimLength, pub pattern: Word }
pub use TrimSide::{Prefix, Suffix};
pub use TrimLength::{Longest, Shortest};
pub enum Value { Scalar(String), Array(Vec<String>) }
pub use Value::{Array, Scalar};
impl Word {
    #[verifier::external_body]
    pub fn expand<S>(&self, env: &mut Env<'_, S>) -> (r: Result<Expansion, Error>)
        ensures final(env).expanded@ == old(env).expanded@.push(self.verif_id), r matches Ok(e) ==> e.verif_id == self.verif_id,
            mut_ref_future(final(env).inner) == mut_ref_future(old(env).inner)
    { unimplemented!() }
}
impl Expansion {
    #[verifier::external_body]
    pub fn ifs_join(&self, variables: &VariableSet) -> (r: PatternText) ensures r.verif_id == self.verif_id, !r.verif_escaped { unimplemented!() }
}
/// attr_fnmatch.rs apply_escapes (unit attrfn)
#[verifier::external_body]
pub fn apply_escapes(p: &mut PatternText) ensures final(p).verif_id == old(p).verif_id, final(p).verif_escaped { unimplemented!() }
pub struct PatternChars { pub verif_id: int, pub verif_escaped: bool }
#[verifier::external_body]
pub fn to_pattern_chars(p: &PatternText) -> (r: PatternChars) ensures r.verif_id == p.verif_id, r.verif_escaped == p.verif_escaped { unimplemented!() }
pub struct Pattern { pub verif_text: int, pub verif_config: Config, pub verif_escaped: bool }
impl Config {
    /// the derived Default: nothing set
    #[verifier::external_body]
    pub fn default() -> (c: Config) ensures !c.anchor_begin, !c.anchor_end, !c.literal_period, !c.shortest_match, !c.case_insensitive { unimplemented!() }
}
impl Pattern {
    #[verifier::external_body]
    pub fn parse_with_config(chars: PatternChars, config: Config) -> (r: Result<Pattern, ()>)
        ensures r matches Ok(p) ==> p.verif_text == chars.verif_id && p.verif_config == config && p.verif_escaped == chars.verif_escaped
    { unimplemented!() }
    #[verifier::external_body]
    pub fn config(&self) -> (c: Config) ensures c == self.verif_config { unimplemented!() }
}
/// `Pattern::find` / `Pattern::rfind` used as values
pub enum FindFn { Find, Rfind }
pub uninterp spec fn found(which: FindFn, p: Pattern, value: Seq<char>) -> Option<(int, int)>;
pub uninterp spec fn removed(value: Seq<char>, range: (int, int)) -> Seq<char>;
pub struct FoundRange { pub verif_r: (int, int) }
impl FindFn {
    #[verifier::external_body]
    pub fn call(&self, pattern: &Pattern, value: &String) -> (r: Option<FoundRange>)
        ensures (match r { Some(x) => Some(x.verif_r), None => None }) == found(*self, *pattern, value@)
    { unimplemented!() }
}
/// `value.drain(range);`
#[verifier::external_body]
pub fn verif_drain(value: &mut String, range: FoundRange) ensures final(value)@ == removed(old(value)@, range.verif_r) { unimplemented!() }
/// what trimming does to one string
pub open spec fn trimmed(p: Pattern, v: Seq<char>) -> Seq<char> {
    let which = if p.verif_config.anchor_end && p.verif_config.shortest_match { FindFn::Rfind } else { FindFn::Find };
    match found(which, p, v) { Some(r) => removed(v, r), None => v }
}
