// ---------------------------------------------------------------------------
// Prelude of unit globchars (property C05, kernel): how the characters of a field become pattern characters for
// pathname expansion (yash-semantics/src/expansion/glob.rs, the iterator `Chars` inside to_pattern).
// "quoted characters and tilde results are literal ... never treats quoted text as wildcards".
// ---------------------------------------------------------------------------
pub enum PatternChar { Normal(char), Literal(char) }
impl PatternChar {
    pub open spec fn value(self) -> char { match self { PatternChar::Normal(c) => c, PatternChar::Literal(c) => c } }
}
impl vstd::std_specs::cmp::PartialEqSpecImpl for Origin {
    open spec fn obeys_eq_spec() -> bool { true }
    open spec fn eq_spec(&self, other: &Origin) -> bool { *self == *other }
}
/// ASSUMED contract of std::mem::replace
pub assume_specification<T>[ std::mem::replace::<T> ](dest: &mut T, src: T) -> (r: T)
    ensures r == *old(dest), *final(dest) == src;

/// a character that must stand for itself in a pattern: it was quoted in the source, or it is the result of a tilde
/// expansion or another "hard" expansion
pub open spec fn protected(c: AttrChar) -> bool { c.is_quoted || c.origin == Origin::HardExpansion }
/// the quoting characters themselves (quotes, the backslash of an escape) do not appear in the pattern
pub open spec fn all_quoting(s: Seq<&AttrChar>) -> bool { forall|i: int| 0 <= i < s.len() ==> s[i].is_quoting }
