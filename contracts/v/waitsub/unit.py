# Unit waitsub: how the shell awaits a child (object-level kernel of property C13).
LIB = 'yash-env/src/lib.rs'
JOB = 'yash-env/src/job.rs'
SEM = 'yash-env/src/semantics.rs'
MOD_HEAD = '''    use vstd::prelude::*;
    use std::ffi::c_int;
'''
ASYNC = {'rewrites': ['strip-async']}
M0 = 'old(self).mon@'
M1 = 'final(self).mon@'
W = "impl<S> Env<S>#1"
WRAP = 'impl<S: SignalSystem + WaitForSignals + Wait> Env<S>'
CALLS = [
    ('self . traps . enable_internal_disposition_for_sigchld ( & self . system )', 'verif_enable_sigchld(self)', '*'),
    ('self . system . wait ( target )', 'verif_wait(self, target)', '*'),
    ('self . system . wait ( Pid :: ALL )', 'verif_wait(self, Pid::ALL)', '*'),
    ('self . jobs . update_status ( pid , state )', 'verif_update_status(self, pid, state)', '*'),
]
UNIT = {
    'name': 'waitsub',
    'property': 'C13',
    'rlimit': 60,
    'verus_args': ['--edition=2024'],
    'controls': 'auto',
    'vacuity_floor': 3,
    'items': [
        ('@raw', 'pub mod ws {\n' + MOD_HEAD),
        (SEM, ['struct ExitStatus']),
        (SEM, ['impl ExitStatus#1', 'const SUCCESS']), (SEM, ['impl ExitStatus#1', 'const FAILURE']), (SEM, ['impl ExitStatus#1', 'const ERROR']),
        (JOB, ['enum ProcessResult'], {}),
        (JOB, ['impl ProcessResult', 'fn is_stopped'], {'ret': 'r', 'ensures': ['r == (*self is Stopped)']}),
        (JOB, ['enum ProcessState'], {}),
        ('@file', 'prelude.rs'),
        # the two conversions from a reported state to an exit status
        (JOB, ['impl From<ProcessResult> for ExitStatus', 'fn from'], {'ret': 'e',
            'ensures': ['e == exit_status_of(result)']}),
        (JOB, ['struct RunningProcess'], {}),
        (JOB, ['impl TryFrom<ProcessState> for ExitStatus', 'fn try_from'], {'ret': 'r', 'keep_assoc_types': True,
            # only a child that is not running has a status: the one its result stands for
            'ensures': ['r == (match state { ProcessState::Halted(res) => Ok::<ExitStatus, RunningProcess>(exit_status_of(res)), ProcessState::Running => Err::<ExitStatus, RunningProcess>(RunningProcess) })']}),
        (LIB, [W, 'fn wait_for_subshell'], dict(ASYNC, ret='r', wrapper=WRAP,
            attrs=['#[verifier::exec_allows_no_decreases_clause]'],
            token_rewrites=CALLS,
            requires=[M0 + '.pending is None'],
            ensures=[
                # no wait() before the internal SIGCHLD disposition is in place (a SIGCHLD arriving between a wait() that found
                # nothing and the sleep would be lost otherwise); sleeps only for SIGCHLD and only right after such a wait();
                # every status the system reported went to the job table unchanged
                M1 + '.unarmed_wait == ' + M0 + '.unarmed_wait',
                M1 + '.dropped == ' + M0 + '.dropped && ' + M1 + '.bad_sleep == ' + M0 + '.bad_sleep && ' + M1 + '.pending is None',
                # what is reported is what the system reported for the awaited child in the last wait(), and that is what the
                # job table was told
                'r matches Ok(p) ==> ' + M1 + '.armed && ' + M1 + '.last_wait == Some((target, Ok::<Option<(Pid, ProcessState)>, Errno>(Some(p)))) && ' + M1 + '.last_update == Some(p)',
                # without the disposition nothing is waited for
                'r is Ok ==> ' + M1 + '.waits > ' + M0 + '.waits',
                '!' + M1 + '.armed ==> r is Err && ' + M1 + '.waits == ' + M0 + '.waits',
            ],
            loops={0: {'invariant': [
                'self.mon@.armed', 'self.mon@.unarmed_wait == ' + M0 + '.unarmed_wait',
                'self.mon@.dropped == ' + M0 + '.dropped', 'self.mon@.bad_sleep == ' + M0 + '.bad_sleep', 'self.mon@.pending is None',
                'self.mon@.waits >= ' + M0 + '.waits',
            ]}})),
        (LIB, [W, 'fn wait_for_subshell_to_halt'], dict(ASYNC, ret='r', wrapper=WRAP,
            attrs=['#[verifier::exec_allows_no_decreases_clause]'],
            requires=[M0 + '.pending is None'],
            ensures=[
                M1 + '.dropped == ' + M0 + '.dropped && ' + M1 + '.bad_sleep == ' + M0 + '.bad_sleep && ' + M1 + '.pending is None',
                M1 + '.unarmed_wait == ' + M0 + '.unarmed_wait',
                # only a child that has halted is reported, with the result the system reported last
                'r matches Ok(p) ==> ' + M1 + '.last_wait == Some((target, Ok::<Option<(Pid, ProcessState)>, Errno>(Some((p.0, ProcessState::Halted(p.1)))))) && ' + M1 + '.last_update == Some((p.0, ProcessState::Halted(p.1)))',
            ],
            loops={0: {'invariant': [
                'self.mon@.dropped == ' + M0 + '.dropped', 'self.mon@.bad_sleep == ' + M0 + '.bad_sleep', 'self.mon@.pending is None',
                'self.mon@.unarmed_wait == ' + M0 + '.unarmed_wait',
            ]}})),
        (LIB, [W, 'fn wait_for_subshell_to_finish'], dict(ASYNC, ret='r', wrapper=WRAP,
            attrs=['#[verifier::exec_allows_no_decreases_clause]'],
            requires=[M0 + '.pending is None'],
            ensures=[
                M1 + '.dropped == ' + M0 + '.dropped && ' + M1 + '.bad_sleep == ' + M0 + '.bad_sleep && ' + M1 + '.pending is None',
                # a stopped child is not a finished one; the exit status is the one the reported result stands for
                'r matches Ok(p) ==> exists|res: ProcessResult| !(res is Stopped) && p.1 == exit_status_of(res) && #[trigger] ' + M1 + '.last_wait == Some((target, Ok::<Option<(Pid, ProcessState)>, Errno>(Some((p.0, ProcessState::Halted(res))))))',
            ],
            loops={0: {'invariant': [
                'self.mon@.dropped == ' + M0 + '.dropped', 'self.mon@.bad_sleep == ' + M0 + '.bad_sleep', 'self.mon@.pending is None',
            ]}})),
        (LIB, [W, 'fn update_all_subshell_statuses'], {'wrapper': 'impl<S: Wait> Env<S>',
            'attrs': ['#[verifier::exec_allows_no_decreases_clause]'],
            'token_rewrites': CALLS,
            'requires': [M0 + '.pending is None'],
            'ensures': [
                # every status the system hands out reaches the job table unchanged; the sweep ends when the system has no more
                M1 + '.dropped == ' + M0 + '.dropped && ' + M1 + '.pending is None',
                M1 + '.last_wait matches Some(w) && w.0 == Pid::ALL && !(w.1 matches Ok(Some(_)))',
            ],
            'loops': {0: {'invariant': ['self.mon@.dropped == ' + M0 + '.dropped', 'self.mon@.pending is None'],
                           'ensures': ['self.mon@.dropped == ' + M0 + '.dropped', 'self.mon@.pending is None',
                                       'self.mon@.last_wait matches Some(w) && w.0 == Pid::ALL && !(w.1 matches Ok(Some(_)))']}}}),
        ('@raw', '}\n'),
    ],
}
