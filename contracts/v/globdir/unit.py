# Unit globdir: one level of the directory walk of pathname expansion (kernel of C05).
GL = 'yash-semantics/src/expansion/glob.rs'
MOD_HEAD = '''    use vstd::prelude::*;
    use std::ops::ControlFlow::{self, Break, Continue};
'''
L0 = 'old(self).env.log@'
L1 = 'final(self).env.log@'
N0 = '(' + L0 + '.len() as int)'
THIS = '(match verif_cut(suffix@) { Some(i) => suffix@.subrange(0, i), None => suffix@ })'
REST = '(match verif_cut(suffix@) { Some(i) => Some(suffix@.subrange(i + 1, suffix@.len() as int)), None => None::<Seq<AttrChar>> })'
UNIT = {
    'name': 'globdir',
    'property': 'C05',
    'rlimit': 120,
    'verus_args': ['--edition=2024'],
    'vacuity_floor': 1,
    'items': [
        ('@raw', 'pub mod gd {\n' + MOD_HEAD),
        ('@file', 'prelude.rs'),
        ('@raw', '''/// the index of the first slash of the field, if any
pub open spec fn verif_cut(s: Seq<AttrChar>) -> Option<int> {
    if exists|i: int| 0 <= i < s.len() && #[trigger] s[i].value == '/' && (forall|k: int| 0 <= k < i ==> (#[trigger] s[k]).value != '/') {
        Some(choose|i: int| 0 <= i < s.len() && #[trigger] s[i].value == '/' && (forall|k: int| 0 <= k < i ==> (#[trigger] s[k]).value != '/'))
    } else { None }
}
'''),
        (GL, ["impl<S: Fstat + Open + Select + Signals + WaitForSignals> SearchEnv<'_, S>", 'fn search_dir'], {'ret': 'r', 'rewrites': ['let-chain-nest'],
            'attrs': ['#[verifier::loop_isolation(false)]', '#[verifier::allow_complex_invariants]', '#[verifier::exec_allows_no_decreases_clause]'],
            'wrapper': "impl<'e, S> SearchEnv<'e, S>",
            'sig_token_rewrites': [('suffix : & [ AttrChar ]', 'suffix: &[AttrChar]')],
            'token_rewrites': [
                ("suffix . iter ( ) . position ( | c | c . value == '/' )", 'verif_first_slash(suffix)'),
                ('( & suffix [ .. index ] , Some ( & suffix [ index + 1 .. ] ) )', '(verif_before(suffix, index), Some(verif_after(suffix, index)))'),
                ('to_pattern ( this ) . map ( Pattern :: into_literal )', 'verif_component(this)'),
                ('self . push_component ( new_suffix , false , | prefix | { prefix . extend ( remove_quotes_and_strip ( this ) ) } )', 'self.verif_push(new_suffix, false, Ghost(What::Unquoted(this@)))'),
                ('self . push_component ( new_suffix , false , | prefix | prefix . push_str ( & literal ) )', 'self.verif_push(new_suffix, false, Ghost(What::Literal(literal.verif_id)))'),
                ('let dir_path = if self . prefix . is_empty ( ) { c"." . to_owned ( ) } else if let Ok ( dir_path ) = CString :: new ( self . prefix . as_str ( ) ) { dir_path } else { return Continue ( ( ) ) ; } ;', 'let dir_path = match self.verif_dir_path() { Some(p) => p, None => { return Continue(()); } };'),
                ('self . env . system . opendir ( & dir_path )', 'self.verif_opendir(&dir_path)'),
                ('self . interruptible && self . env . poll_signals ( ) . is_some_and ( | sigs | sigs . contains ( & S :: SIGINT ) )', 'self.verif_interrupted()'),
                ('ExitStatus :: from ( S :: SIGINT )', 'verif_sigint_status()'),
                ('name != "."', 'name.ne_dot()', '*'), ('name != ".."', 'name.ne_dotdot()', '*'),
                ('pattern . is_match ( name )', 'pattern.is_match(&name)'),
                ('self . push_component ( new_suffix , $b , | prefix | prefix . push_str ( name ) )', 'self.verif_push(new_suffix, $b, Ghost(What::Entry(name.verif_id)))'),
            ],
            'ensures': [
                L1 + '.len() >= ' + N0, L1 + '.subrange(0, ' + N0 + ') =~= ' + L0,
                # a component that is no pattern, or a literal: appended as it is, once; the directory is not read
                'component_of(' + THIS + ') is NotAPattern ==> ' + L1 + '.len() == ' + N0 + ' + 1 && ' + L1 + '.last() == (Ev::Pushed { what: What::Unquoted(' + THIS + '), rest: ' + REST + ', exists: false, result: r })',
                'component_of(' + THIS + ') matches Component::Literal(l) ==> ' + L1 + '.len() == ' + N0 + ' + 1 && ' + L1 + '.last() == (Ev::Pushed { what: What::Literal(l), rest: ' + REST + ', exists: false, result: r })',
                # a pattern: the directory is read (at most) once; every event after that is an entry going on to the rest of the field,
                # marked existing, and only entries that are text, not `.` / `..`, and matched are taken, in the directory's order
                'component_of(' + THIS + ') matches Component::Pat(p) ==> (' + L1 + '.len() > ' + N0 + ' ==> ' + L1 + '[' + N0 + '] is Opened) && '
                '(forall|i: int| ' + N0 + ' < i < ' + L1 + '.len() ==> ((#[trigger] ' + L1 + '[i]) matches Ev::Pushed { what, rest, exists, result } && exists && rest == ' + REST + ' && (what matches What::Entry(n) && taken(p.verif_id, n))))',
            ],
            'loops': {0: {
                'body_start': 'proof { let es = self.env.log@[' + N0 + ']->Opened_entries; let h = es.len() - dir.rest@.len(); assert(es.subrange(0, h).drop_last() =~= es.subrange(0, h - 1)); assert(es.subrange(0, h).last() == entry.name.verif_id); }',
                # "never omits a matching one": at the exit of the directory loop (no interrupt, no divert from below) as many entries were
                # taken as qualify among ALL the entries of the directory (stated on the loop: as a postcondition of the function the same
                # clause did not go through, for a reason I did not find within the time I gave it)
                'ensures': [
                    '(self.env.log@[' + N0 + ']->Opened_entries).subrange(0, (self.env.log@[' + N0 + ']->Opened_entries).len() as int) =~= (self.env.log@[' + N0 + ']->Opened_entries)',
                    'dir.rest@.len() == 0',
                    'self.env.log@.len() - ' + N0 + ' - 1 == qcount(self.env.log@[' + N0 + ']->Opened_entries, (component_of(' + THIS + ')->Pat_0).verif_id)',
                    'self.env.log@.len() > ' + N0, 'self.env.log@[' + N0 + '] is Opened',
                ],
                'invariant': [
                'dir.rest@.len() <= (self.env.log@[' + N0 + ']->Opened_entries).len()',
                'dir.rest@ =~= (self.env.log@[' + N0 + ']->Opened_entries).subrange((self.env.log@[' + N0 + ']->Opened_entries).len() - dir.rest@.len(), (self.env.log@[' + N0 + ']->Opened_entries).len() as int)',
                # as many entries were taken as qualify among those handed out so far: none omitted
                'self.env.log@.len() - ' + N0 + ' - 1 == qcount((self.env.log@[' + N0 + ']->Opened_entries).subrange(0, (self.env.log@[' + N0 + ']->Opened_entries).len() - dir.rest@.len()), pattern.verif_id)',
                'self.env.log@.len() > ' + N0, 'self.env.log@.subrange(0, ' + N0 + ') =~= ' + L0, 'self.env.log@[' + N0 + '] is Opened',
                'component_of(this@) == Component::Pat(pattern)', 'this@ == ' + THIS, '(match new_suffix { Some(x) => Some(x@), None => None::<Seq<AttrChar>> }) == ' + REST,
                'forall|i: int| ' + N0 + ' < i < self.env.log@.len() ==> ((#[trigger] self.env.log@[i]) matches Ev::Pushed { what, rest, exists, result } && exists && rest == ' + REST + ' && (what matches What::Entry(n) && taken(pattern.verif_id, n)))',
            ]}},
            }),
        ('@raw', '}\n'),
    ],
}
