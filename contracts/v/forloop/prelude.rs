// ---------------------------------------------------------------------------
// Prelude of unit forloop (property C02, kernel): the for loop (yash-semantics/src/command/compound_command/for_loop.rs
// execute).  "loops honour break/continue levels ... a compound command's status is that of the last command it ran
// (zero if none)": the body runs once per value, in order, each time right after the variable has been assigned that
// value, inside a Loop frame; `break` / `continue` arrive as Divert::Break { count } / Divert::Continue { count } and
// the loop takes one level off; every other divert passes through unchanged; no value: status 0.
//
// Hand-written model text (ASSUMED): expanding the name and the words, the positional parameters, tracing, assigning
// the loop variable (get_or_create_variable + assign, one helper call), executing the body and the error handlers are
// opaque calls that update a ghost monitor in the reduced Env.  RAII of the frame guard is assumed in the contract of
// Env::push_frame (Verus does not model destructors; the destructor body is verified in unit condframe).  Await points
// are dropped.
// ---------------------------------------------------------------------------
pub assume_specification<B, C>[ <ControlFlow<B, C> as core::ops::Try>::branch ](cf: ControlFlow<B, C>) -> (r: ControlFlow<<ControlFlow<B, C> as core::ops::Try>::Residual, <ControlFlow<B, C> as core::ops::Try>::Output>)
    ensures match cf { ControlFlow::Continue(c) => r == ControlFlow::<ControlFlow<B, core::convert::Infallible>, C>::Continue(c), ControlFlow::Break(b) => r == ControlFlow::<ControlFlow<B, core::convert::Infallible>, C>::Break(ControlFlow::Break(b)) };
pub assume_specification<B, C>[ <ControlFlow<B, C> as core::ops::FromResidual<ControlFlow<B, core::convert::Infallible>>>::from_residual ](res: ControlFlow<B, core::convert::Infallible>) -> (r: ControlFlow<B, C>)
    ensures res matches ControlFlow::Break(b) ==> r == ControlFlow::<B, C>::Break(b);

pub trait Runtime {}
pub struct Location { pub verif_opaque: u8 }
pub struct Value { pub verif_opaque: u8 }
pub struct Word { pub verif_id: int }
pub struct Field { pub value: String, pub origin: Location, pub verif_id: int }
pub struct Item { pub verif_opaque: u8 }
pub struct List(pub Vec<Item>);
pub enum Frame { Loop, Condition, Subshell, Other }
#[derive(Clone, Copy)]
pub enum Scope { Global, Local, Volatile }
pub struct ExpError { pub verif_opaque: u8 }
pub struct AssignError { pub new_value: Value, pub read_only_location: Location }
pub struct AssignReadOnlyError { pub name: String, pub new_value: Value, pub read_only_location: Location, pub vacancy: Option<u8> }
pub enum ErrorCause { AssignReadOnly(AssignReadOnlyError), Other }
pub struct Error { pub cause: ErrorCause, pub location: Location }
pub open spec fn field_ids(s: Seq<Field>) -> Seq<int> { Seq::new(s.len(), |i: int| s[i].verif_id) }

/// one execution of the body: the values assigned to the loop variable so far, the stack of frames it ran with, what came out
pub struct BodyRun { pub assigned: Seq<int>, pub stack: Seq<Frame>, pub result: Result, pub status_before: ExitStatus, pub status_after: ExitStatus }
pub struct Mon {
    /// the values of the loop, as handed to the tracer (the expanded words, or the positional parameters)
    pub values: Option<Seq<int>>,
    /// `$?` when the values were handed to the tracer (after the words were expanded, before anything of the loop ran)
    pub values_status: Option<ExitStatus>,
    /// the values assigned to the loop variable so far (successful assignments only), in order
    pub assigned: Seq<int>,
    pub runs: Seq<BodyRun>,
    /// errors handled (reported)
    pub handled: nat,
    /// what the error handler last answered
    pub last_handled: Option<Result>,
}
pub struct Env<S> { pub exit_status: ExitStatus, pub verif_stack: Ghost<Seq<Frame>>, pub mon: Ghost<Mon>, pub system: S }
pub struct EnvFrameGuard<'a, S> { pub env: &'a mut Env<S> }
impl<S> Env<S> {
    /// yash-env/src/stack.rs Env::push_frame + the Drop impl of the guard (ASSUMED as a whole, see above)
    #[verifier::external_body]
    pub fn push_frame(&mut self, frame: Frame) -> (g: EnvFrameGuard<'_, S>)
        ensures
            g.env.verif_stack@ == old(self).verif_stack@.push(frame), g.env.exit_status == old(self).exit_status, g.env.mon@ == old(self).mon@,
            final(self).verif_stack@.len() + 1 == final(g.env).verif_stack@.len(),
            forall|i: int| 0 <= i < final(self).verif_stack@.len() ==> #[trigger] final(self).verif_stack@[i] == final(g.env).verif_stack@[i],
            final(self).exit_status == final(g.env).exit_status, final(self).mon@ == final(g.env).mon@
    { unimplemented!() }
}
#[verifier::external_body]
pub fn expand_word<S>(env: &mut Env<S>, word: &Word) -> (r: std::result::Result<(Field, Option<ExitStatus>), ExpError>)
    ensures final(env).mon@ == old(env).mon@, final(env).verif_stack@ == old(env).verif_stack@
{ unimplemented!() }
#[verifier::external_body]
pub fn expand_words<S>(env: &mut Env<S>, words: &Vec<Word>) -> (r: std::result::Result<(Vec<Field>, Option<ExitStatus>), ExpError>)
    ensures final(env).mon@ == old(env).mon@, final(env).verif_stack@ == old(env).verif_stack@
{ unimplemented!() }
/// `env.variables.positional_params().values.iter().map(|value| Field { value: value.clone(), origin: name.origin.clone() }).collect()`
#[verifier::external_body]
pub fn verif_positional_fields<S>(env: &Env<S>, name: &Field) -> (r: Vec<Field>) { unimplemented!() }
/// tracing the values: records which values the loop is about to go through
#[verifier::external_body]
pub fn trace_values<S>(env: &mut Env<S>, name: &Field, values: &Vec<Field>)
    ensures final(env).mon@ == (Mon { values: Some(field_ids(values@)), values_status: Some(old(env).exit_status), ..old(env).mon@ }), final(env).verif_stack@ == old(env).verif_stack@, final(env).exit_status == old(env).exit_status
{ unimplemented!() }
/// `env.get_or_create_variable(name.value.clone(), Scope::Global)` followed by `.assign(value, origin)` (one helper call):
/// a successful assignment is recorded
#[verifier::external_body]
pub fn verif_assign<S>(env: &mut Env<S>, name: &String, scope: Scope, value: String, origin: Location, Ghost(id): Ghost<int>) -> (r: std::result::Result<Option<Value>, AssignError>)
    ensures final(env).mon@ == (Mon { assigned: if r is Ok { old(env).mon@.assigned.push(id) } else { old(env).mon@.assigned }, ..old(env).mon@ }),
        final(env).verif_stack@ == old(env).verif_stack@, final(env).exit_status == old(env).exit_status
{ unimplemented!() }
/// taking the first element off the values still to go (what `for x in values` does on every round; ASSUMED)
#[verifier::external_body]
pub fn verif_next(rest: &mut Vec<Field>) -> (r: Option<Field>)
    ensures old(rest)@.len() == 0 ==> r is None && final(rest)@ == old(rest)@,
        old(rest)@.len() > 0 ==> r == Some(old(rest)@[0]) && final(rest)@ == old(rest)@.subrange(1, old(rest)@.len() as int)
{ if rest.is_empty() { None } else { Some(rest.remove(0)) } }
impl List {
    #[verifier::external_body]
    pub fn execute<S>(&self, env: &mut Env<S>) -> (r: Result)
        ensures final(env).mon@ == (Mon { runs: old(env).mon@.runs.push(BodyRun { assigned: old(env).mon@.assigned, stack: old(env).verif_stack@, result: r, status_before: old(env).exit_status, status_after: final(env).exit_status }), ..old(env).mon@ }),
            final(env).verif_stack@ == old(env).verif_stack@
    { unimplemented!() }
}
impl ExpError {
    #[verifier::external_body]
    pub fn handle<S>(&self, env: &mut Env<S>) -> (r: Result)
        ensures final(env).mon@ == (Mon { handled: old(env).mon@.handled + 1, last_handled: Some(r), ..old(env).mon@ }), final(env).verif_stack@ == old(env).verif_stack@
    { unimplemented!() }
}
impl Error {
    #[verifier::external_body]
    pub fn handle<S>(&self, env: &mut Env<S>) -> (r: Result)
        ensures final(env).mon@ == (Mon { handled: old(env).mon@.handled + 1, last_handled: Some(r), ..old(env).mon@ }), final(env).verif_stack@ == old(env).verif_stack@
    { unimplemented!() }
}
/// XCU 2.15 break / continue, one enclosing loop: what the loop hands on for what its body returned
pub open spec fn loop_reaction(x: Result) -> Result {
    match x {
        ControlFlow::Break(Divert::Break { count }) => if count == 0 { ControlFlow::Continue(()) } else { ControlFlow::Break(Divert::Break { count: (count - 1) as usize }) },
        ControlFlow::Break(Divert::Continue { count }) => if count == 0 { ControlFlow::Continue(()) } else { ControlFlow::Break(Divert::Continue { count: (count - 1) as usize }) },
        other => other,
    }
}
/// the body's result lets the loop go on with the next value
pub open spec fn goes_on(x: Result) -> bool {
    x == ControlFlow::<Divert, ()>::Continue(()) || x == ControlFlow::<Divert, ()>::Break(Divert::Continue { count: 0 })
}
/// the k-th run of this loop (runs[base + k]) happened right after the k-th value was assigned (it was the k+1-th
/// assignment of this loop and the latest one), inside a Loop frame pushed on the caller's stack
pub open spec fn run_ok(run: BodyRun, m0: Mon, vals: Seq<int>, stack0: Seq<Frame>, k: int) -> bool {
    run.assigned.len() == m0.assigned.len() + k + 1 && run.assigned.last() == vals[k] && run.stack == stack0.push(Frame::Loop)
}
