# Unit aliassplice: LexerCore::substitute_alias, the splice (kernel of C17).
LX = 'yash-syntax/src/parser/lex/core.rs'
IMPL = "impl<'a> LexerCore<'a>"
MOD_HEAD = '''    use vstd::prelude::*;
'''
UNIT = {
    'name': 'aliassplice',
    'property': 'C17',
    'rlimit': 40,
    'verus_args': ['--edition=2024'],
    'vacuity_floor': 1,
    'controls': 'auto',
    'items': [
        ('@raw', 'pub mod asp {\n' + MOD_HEAD),
        ('@file', 'prelude.rs'),
        (LX, [IMPL, 'fn substitute_alias'], {
            'token_rewrites': [
                ('assert ! ( begin < end , "begin index {begin} should be less than end index {end}" ) ;', 'assert(begin < end);'),
                ('let source = Rc :: new ( Source :: Alias { original : self . location_range ( begin .. end ) , alias : alias . clone ( ) , } ) ; let code = Rc :: new ( Code { value : RefCell :: new ( alias . replacement . clone ( ) ) , start_line_number : NonZeroU64 :: new ( 1 ) . unwrap ( ) , source , } ) ; let repl = ex ( source_chars ( & alias . replacement , & code , 0 ) ) ;',
                 'let repl = verif_alias_chars(self, begin, end, alias);'),
                ('self . source . splice ( $a .. $b , repl ) ;', 'verif_splice(&mut self.source, $a, $b, repl);'),
            ],
            'requires': ['begin < old(self).index <= old(self).source@.len()'],
            'ensures': [
                # the word is replaced by exactly the alias value, tagged; what was before it and after the position stays
                'final(self).source@ =~= old(self).source@.subrange(0, begin as int) + alias_chars(**alias) + old(self).source@.subrange(old(self).index as int, old(self).source@.len() as int)',
                # the position goes back to the beginning of the replacement: it is scanned next
                'final(self).index == begin',
            ]}),
        ('@raw', '}\n'),
    ],
}
