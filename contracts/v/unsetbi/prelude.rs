// ---------------------------------------------------------------------------
// Prelude of unit unsetbi (property C16, kernel): the unset built-in (yash-builtin/src/unset.rs main,
// yash-builtin/src/unset/semantics.rs unset_variables, unset_functions).
// C16 "... and unsets ... looking up a variable returns the value from the innermost visible scope; a read-only variable
// is never ... unset": the built-in asks the variable store to unset EVERY operand, each exactly once, in order, in the
// GLOBAL scope (so that every definition of the name, in whatever context, goes away - what VariableSet::unset does with that
// request is under contract in unit varset, including its refusal for read-only variables); it never touches the
// functions in variable mode and vice versa; one error comes back per refused name, and the built-in fails exactly when
// there is one.
//
// Hand-written model text (ASSUMED): VariableSet::unset / FunctionSet::unset are opaque calls that log the request in ghost
// state (FunctionSet::unset fails only for a read-only function, whose read_only_location is Some); syntax::parse,
// merge_reports, report_error, report_failure opaque; `for name in names` over a slice is a while loop over the index.
// ---------------------------------------------------------------------------
pub trait Isatty {} pub trait WriteAll {}
#[derive(Clone, Debug, PartialEq, Eq)]
pub struct Location { pub verif_opaque: u8 }
#[derive(Clone, Debug, PartialEq, Eq)]
pub struct Field { pub value: String, pub origin: Location }
#[derive(Clone, Copy, Debug, PartialEq, Eq)]
pub enum Scope { Global, Local, Volatile }
pub use Scope::{Global, Local, Volatile};
pub struct Variable { pub verif_opaque: u8 }
pub struct VarUnsetError<'a> { pub name: &'a str, pub read_only_location: &'a Location }
/// one request to the store
pub struct UnsetCall { pub name: Seq<char>, pub scope: Scope, pub ok: bool }
pub struct VariableSet { pub log: Ghost<Seq<UnsetCall>> }
impl VariableSet {
    /// variable.rs VariableSet::get_scoped / get (unit varset): look-ups change nothing
    #[verifier::external_body]
    pub fn get_scoped(&self, name: &str, scope: Scope) -> (r: Option<&Variable>) { unimplemented!() }
    #[verifier::external_body]
    pub fn get(&self, name: &str) -> (r: Option<&Variable>) { unimplemented!() }
    /// variable.rs VariableSet::unset (unit varset)
    #[verifier::external_body]
    pub fn unset<'a>(&'a mut self, name: &'a str, scope: Scope) -> (r: Result<Option<Variable>, VarUnsetError<'a>>)
        ensures final(self).log@ == old(self).log@.push(UnsetCall { name: name@, scope, ok: r is Ok })
    { unimplemented!() }
}
pub struct Function { pub read_only_location: Option<Location> }
pub struct FnUnsetError { pub existing: Rc<Function> }
pub struct FunctionSet { pub log: Ghost<Seq<UnsetCall>> }
impl FunctionSet {
    /// function.rs FunctionSet::unset: refuses exactly a read-only function
    #[verifier::external_body]
    pub fn unset(&mut self, name: &str) -> (r: Result<Option<Rc<Function>>, FnUnsetError>)
        ensures final(self).log@ == old(self).log@.push(UnsetCall { name: name@, scope: Scope::Global, ok: r is Ok }),
            r matches Err(e) ==> e.existing.read_only_location is Some
    { unimplemented!() }
}
pub struct Env<S> { pub variables: VariableSet, pub functions: FunctionSet, pub verif_reported: Ghost<nat>, pub system: S }
/// how many of the requests log[from..] were refused
pub open spec fn refused(log: Seq<UnsetCall>, from: int) -> nat
    decreases log.len()
{
    if log.len() <= from || log.len() == 0 { 0 } else { refused(log.drop_last(), from) + (if log.last().ok { 0nat } else { 1nat }) }
}
pub open spec fn requests(names: Seq<Field>) -> Seq<(Seq<char>, Scope)> { Seq::new(names.len(), |i: int| (names[i].value@, Scope::Global)) }
pub open spec fn asked(log: Seq<UnsetCall>) -> Seq<(Seq<char>, Scope)> { Seq::new(log.len(), |i: int| (log[i].name, log[i].scope)) }
