# Unit errhandle: the consequences of shell errors (kernel of property C10).
H = 'yash-semantics/src/handle.rs'
MOD_HEAD = '''    use vstd::prelude::*;
    use std::rc::Rc;
    use std::ops::ControlFlow::{self, Break, Continue};
'''
UNIT = {
    'name': 'errhandle',
    'property': 'C10',
    'rlimit': 60,
    'verus_args': ['--edition=2024'],
    'vacuity_floor': 3,
    'items': [
        ('@raw', MOD_HEAD.replace('    use', 'use')),
        ('@file', 'prelude.rs'),
        ('@raw', 'pub mod handle {\n    use super::*;\n'),
        (H, ['impl<S> Handle<S> for yash_syntax::parser::Error', 'fn handle'], {'ret': 'r', 'rewrites': ['strip-async'],
            'ensures': [
                # a syntax error (and a read error inside a dot script) interrupts with status 2, any other read error with 128;
                # the error is reported once; $? is left to the one who acts on the interrupt
                'r == ControlFlow::<Divert, ()>::Break(Divert::Interrupt(Some(if self.cause is Syntax || *self.location.code.source is DotScript { ExitStatus(2) } else { ExitStatus(128) })))',
                'final(env).verif_reports@ == old(env).verif_reports@ + 1',
            ]}),
        (H, ['impl<S> Handle<S> for crate::expansion::Error', 'fn handle'], {'ret': 'r', 'rewrites': ['strip-async'],
            'ensures': [
                # an expansion error stops the command: it ends the shell where errexit applies and interrupts otherwise, status 2;
                # an interrupted expansion hands on the interrupt with its status and reports nothing
                'self.cause matches ErrorCause::Interrupted(st) ==> r == ControlFlow::<Divert, ()>::Break(Divert::Interrupt(Some(st))) && final(env).verif_reports@ == old(env).verif_reports@',
                '!(self.cause is Interrupted) ==> final(env).verif_reports@ == old(env).verif_reports@ + 1 && r == ControlFlow::<Divert, ()>::Break(if old(env).verif_errexit_applies { Divert::Exit(Some(ExitStatus(2))) } else { Divert::Interrupt(Some(ExitStatus(2))) })',
            ]}),
        (H, ['impl<S> Handle<S> for crate::redir::Error', 'fn handle'], {'ret': 'r', 'rewrites': ['strip-async'],
            'ensures': [
                # a redirection error only sets $? (to 2) and execution continues
                'r == ControlFlow::<Divert, ()>::Continue(())', 'final(env).exit_status == ExitStatus(2)', 'final(env).verif_reports@ == old(env).verif_reports@ + 1',
            ]}),
        ('@raw', '}\n'),
    ],
}
