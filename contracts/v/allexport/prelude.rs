// ---------------------------------------------------------------------------
// Prelude of unit allexport (property C16, kernel): yash-env/src/lib.rs Env::get_or_create_variable.
// C16 "exports ... the environment handed to executed programs is exactly the exported variables": the variable handed out is
// the one the store answers for exactly this name and scope (VariableSet::get_or_new: unit varset), and it is marked for export
// here exactly when the `allexport` option is on - never un-exported.
//
// Hand-written model text (ASSUMED): VariableSet::get_or_new, VariableRefMut::export and OptionSet::get are opaque calls; the
// name is checked at `String` (the code takes `N: Into<String>`).
// ---------------------------------------------------------------------------
#[derive(Clone, Copy)] pub enum Scope { Global, Local, Volatile }
pub enum ShellOption { AllExport, Other(u8) }
pub use ShellOption::AllExport;
#[derive(Clone, Copy, PartialEq, Eq)] pub enum State { On, Off }
pub use State::On;
impl vstd::std_specs::cmp::PartialEqSpecImpl for State {
    open spec fn obeys_eq_spec() -> bool { true }
    open spec fn eq_spec(&self, other: &State) -> bool { *self == *other }
}
pub struct OptionSet { pub verif_allexport: bool }
impl OptionSet {
    #[verifier::external_body]
    pub fn get(&self, o: ShellOption) -> (r: State) ensures o is AllExport ==> (r == State::On <==> self.verif_allexport) { unimplemented!() }
}
pub enum Ev { Requested { name: Seq<char>, scope: Scope }, Exported { on: bool } }
pub struct VariableSet { pub log: Ghost<Seq<Ev>> }
pub struct VariableRefMut<'a> { pub set: &'a mut VariableSet }
impl VariableSet {
    #[verifier::external_body]
    pub fn get_or_new(&mut self, name: String, scope: Scope) -> (v: VariableRefMut<'_>)
        ensures v.set.log@ == old(self).log@.push(Ev::Requested { name: name@, scope }), final(self).log@ == final(v.set).log@
    { unimplemented!() }
}
impl<'a> VariableRefMut<'a> {
    #[verifier::external_body]
    pub fn export(&mut self, on: bool)
        ensures mut_ref_future(final(self).set) == mut_ref_future(old(self).set), final(self).set.log@ == old(self).set.log@.push(Ev::Exported { on })
    { unimplemented!() }
}
pub struct Env<S> { pub variables: VariableSet, pub options: OptionSet, pub system: S }
