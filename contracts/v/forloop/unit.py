# Unit forloop: the for loop (kernel of property C02).
FL = 'yash-semantics/src/command/compound_command/for_loop.rs'
SEM = 'yash-env/src/semantics.rs'
MOD_HEAD = '''    use vstd::prelude::*;
    use std::ops::ControlFlow::{self, Break, Continue};
    use std::ffi::c_int;
'''
M0 = 'old(env).mon@'
M1 = 'final(env).mon@'
NEW = '(' + M1 + '.runs.len() - ' + M0 + '.runs.len())'
VALS = M1 + '.values->0'
KK = '(env.env.mon@.runs.len() - verif_m0.runs.len())'
UNIT = {
    'name': 'forloop',
    'property': 'C02',
    'rlimit': 80,
    'verus_args': ['--edition=2024'],
    'controls': 'auto',
    'vacuity_floor': 1,
    'items': [
        ('@raw', 'pub mod semantics { pub type Result<T = ()> = std::ops::ControlFlow<crate::fl::Divert, T>; }\n'),
        ('@raw', 'pub mod fl {\n' + MOD_HEAD + '    pub use crate::semantics::Result;\n'),
        (SEM, ['struct ExitStatus']),
        (SEM, ['impl ExitStatus#1', 'const SUCCESS']),
        (SEM, ['enum Divert']),
        ('@file', 'prelude.rs'),
        (FL, ['fn execute'], {'ret': 'r', 'rewrites': ['strip-async'],
            'attrs': ['#[verifier::loop_isolation(false)]', '#[verifier::allow_complex_invariants]', '#[verifier::exec_allows_no_decreases_clause]'],
            'entry_ghost': 'let ghost verif_m0 = env.mon@; let ghost verif_stack0 = env.verif_stack@;',
            'token_rewrites': [
                ('env . variables . positional_params ( ) . values . iter ( ) . map ( | value | Field { value : value . clone ( ) , origin : name . origin . clone ( ) , } ) . collect ( )',
                 'verif_positional_fields(env, &name)'),
                # `let env = &mut <temporary guard>;` = an owning binding; the guard passes itself where `&mut Env` is expected
                ('let env = & mut env . push_frame ( Frame :: Loop ) ;', 'let ghost verif_vals = field_ids(values@); let ghost verif_all = values@; let mut env = env.push_frame(Frame::Loop);'),
                ('env . exit_status = ExitStatus :: SUCCESS ;', 'env.env.exit_status = ExitStatus::SUCCESS;', '*'),
                # `for PATTERN in vec` = `while let Some(x) = <take the first element off>` with the element destructured first thing
                # in the body (Verus has no `continue` in for loops); the helper has the ASSUMED contract "removes and returns the
                # first element"
                ('for Field { value , origin } in values', 'let mut verif_rest = values; while let Some(verif_f) = verif_next(&mut verif_rest)'),
                # get_or_create_variable + assign: one opaque helper call
                ('let mut $v = env . get_or_create_variable ( name . value . clone ( ) , Scope :: Global ) ; match $v . assign ( value , origin )',
                 'match verif_assign(env.env, &name.value, Scope::Global, value, origin, Ghost(verif_id))'),
                ('body . execute ( env )', 'body.execute(env.env)'),
                ('Error { cause , location } ; return error . handle ( env )', 'Error { cause, location }; return error.handle(env.env)'),
            ],
            # a fresh monitor: no values recorded yet
            # ... and a body that is not empty (the parser rejects `do done`: "the `do` clause is missing its content"; with an
            # empty body the function leaves `$?` alone instead of setting it to 0)
            'requires': ['old(env).mon@.values is None', 'body.0@.len() > 0'],
            'ensures': [
                # afterwards the stack of frames is the caller's (RAII assumed)
                'final(env).verif_stack@ =~= old(env).verif_stack@',
                M1 + '.runs.len() >= ' + M0 + '.runs.len()',
                'forall|j: int| 0 <= j < ' + M0 + '.runs.len() ==> #[trigger] ' + M1 + '.runs[j] == ' + M0 + '.runs[j]',
                # an error while expanding the name or the words: reported, nothing runs
                M1 + '.values is None ==> ' + M1 + '.runs.len() == ' + M0 + '.runs.len() && ' + M1 + '.handled == ' + M0 + '.handled + 1 && ' + M1 + '.last_handled == Some(r)',
                # otherwise the body runs for the values in order: the k-th run right after the k-th value was assigned, in a
                # Loop frame on top of the caller's stack; at most one run per value
                M1 + '.values is Some ==> ' + NEW + ' <= (' + VALS + ').len() && (forall|k: int| 0 <= k < ' + NEW + ' ==> run_ok(#[trigger] ' + M1 + '.runs[' + M0 + '.runs.len() + k], ' + M0 + ', ' + VALS + ', old(env).verif_stack@, k))',
                # `$?` at every point: the first run of the body starts with the `$?` the loop was entered with (the status of the
                # last command before the loop, or of the last command substitution in its words), every later run with the `$?`
                # the previous run left
                M1 + '.values is Some ==> (forall|k: int| 0 <= k < ' + NEW + ' ==> (#[trigger] ' + M1 + '.runs[' + M0 + '.runs.len() + k]).status_before == (if k == 0 { ' + M1 + '.values_status->0 } else { ' + M1 + '.runs[' + M0 + '.runs.len() + k - 1].status_after }))',
                # every run but the last ended normally or with a `continue` for this loop
                M1 + '.values is Some ==> (forall|k: int| 0 <= k < ' + NEW + ' - 1 ==> goes_on((#[trigger] ' + M1 + '.runs[' + M0 + '.runs.len() + k]).result))',
                # no value at all: status 0, nothing runs ("zero if none")
                M1 + '.values is Some && (' + VALS + ').len() == 0 ==> ' + NEW + ' == 0 && r is Continue && final(env).exit_status == ExitStatus(0)',
                # no error: the loop stopped early only because the last run did not let it go on, and what it hands on is
                # that result with one break / continue level taken off (break / continue of this loop: the loop ends normally)
                M1 + '.values is Some && ' + M1 + '.handled == ' + M0 + '.handled && ' + NEW + ' > 0 ==> r == loop_reaction(' + M1 + '.runs.last().result) && (goes_on(' + M1 + '.runs.last().result) ==> ' + NEW + ' == (' + VALS + ').len()) && final(env).exit_status == ' + M1 + '.runs.last().status_after',
                # the loop variable is read-only: reported once, the loop is over
                M1 + '.values is Some ==> ' + M1 + '.handled <= ' + M0 + '.handled + 1',
                M1 + '.values is Some && ' + M1 + '.handled == ' + M0 + '.handled + 1 ==> ' + M1 + '.last_handled == Some(r) && ' + NEW + ' < (' + VALS + ').len()',
            ],
            'loops': {0: {
                'body_start': 'let ghost verif_id = verif_f.verif_id; let Field { value, origin, verif_id: _ } = verif_f;',
                'invariant': [
                    'verif_vals == field_ids(verif_all)', 'env.env.mon@.values == Some(verif_vals)',
                    'env.env.verif_stack@ == verif_stack0.push(Frame::Loop)',
                    'env.env.mon@.handled == verif_m0.handled', 'env.env.mon@.last_handled == verif_m0.last_handled',
                    'env.env.mon@.runs.len() >= verif_m0.runs.len()', KK + ' <= verif_all.len()',
                    'verif_rest@ =~= verif_all.subrange(' + KK + ', verif_all.len() as int)',
                    'env.env.mon@.assigned.len() == verif_m0.assigned.len() + ' + KK,
                    'forall|j: int| 0 <= j < verif_m0.runs.len() ==> #[trigger] env.env.mon@.runs[j] == verif_m0.runs[j]',
                    'forall|k: int| 0 <= k < ' + KK + ' ==> run_ok(#[trigger] env.env.mon@.runs[verif_m0.runs.len() + k], verif_m0, verif_vals, verif_stack0, k)',
                    'forall|k: int| 0 <= k < ' + KK + ' - 1 ==> goes_on((#[trigger] env.env.mon@.runs[verif_m0.runs.len() + k]).result)',
                    KK + ' > 0 ==> env.env.exit_status == env.env.mon@.runs.last().status_after',
                    'env.env.mon@.values_status is Some', KK + ' == 0 ==> env.env.exit_status == env.env.mon@.values_status->0',
                    'forall|k: int| 0 <= k < ' + KK + ' ==> (#[trigger] env.env.mon@.runs[verif_m0.runs.len() + k]).status_before == (if k == 0 { env.env.mon@.values_status->0 } else { env.env.mon@.runs[verif_m0.runs.len() + k - 1].status_after })',
                ],
                'invariant_except_break': [
                    KK + ' > 0 ==> goes_on(env.env.mon@.runs.last().result)',
                ],
                'ensures': [
                    KK + ' > 0 ==> (goes_on(env.env.mon@.runs.last().result) && ' + KK + ' == verif_all.len()) || env.env.mon@.runs.last().result == ControlFlow::<Divert, ()>::Break(Divert::Break { count: 0 })',
                    KK + ' == 0 ==> verif_all.len() == 0',
                ]}},
            }),
        ('@raw', '}\n'),
    ],
}
