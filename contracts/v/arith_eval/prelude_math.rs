// ---------------------------------------------------------------------------
// Prelude of unit arith_eval (hand-written specification text; no program text).
// Spec of C-like signed 64-bit arithmetic over mathematical integers, written
// from the property statement (C03) and ISO C 6.5.5-6.5.7, not from the code.
// ---------------------------------------------------------------------------

// ---- assumed specifications of std functions vstd has no spec for (listed in evidence) ----
pub assume_specification[ i64::checked_shl ](x: i64, n: u32) -> (r: Option<i64>)
    ensures
        n >= 64 ==> r is None,
        n < 64 ==> r == Some((x << n) as i64);

pub assume_specification[ i64::checked_shr ](x: i64, n: u32) -> (r: Option<i64>)
    ensures
        n >= 64 ==> r is None,
        n < 64 ==> r == Some((x >> n) as i64);

pub assume_specification[ i64::checked_neg ](x: i64) -> (r: Option<i64>)
    ensures
        x == i64::MIN ==> r is None,
        x != i64::MIN ==> r == Some((-x) as i64);

pub assume_specification<T, P: FnOnce(&T) -> bool>[ Option::<T>::filter ](o: Option<T>, p: P) -> (r: Option<T>)
    requires
        o is Some ==> p.requires((&o->0,)),
    ensures
        o is None ==> r is None,
        o is Some ==> (r == o || r is None),
        o is Some ==> p.ensures((&o->0,), r is Some);

pub mod math {
    use vstd::prelude::*;
#[verifier::external_type_specification]
#[verifier::external_body]
pub struct ExParseIntError(core::num::ParseIntError);

/// The integer a variable value denotes (yash-arith/src/eval.rs, parse_variable_value): uninterpreted.
pub uninterp spec fn value_spec(s: Seq<char>) -> Option<i64>;

// ---- mathematical semantics ---------------------------------------------------
pub open spec fn abs(x: int) -> int { if x < 0 { -x } else { x } }

/// C99 6.5.5p6: quotient truncated toward zero, defined through magnitudes.
pub open spec fn tdiv(l: int, r: int) -> int
    recommends r != 0
{
    if (l < 0) == (r < 0) { abs(l) / abs(r) } else { -(abs(l) / abs(r)) }
}

/// C99 6.5.5p6: (a/b)*b + a%b == a
pub open spec fn trem(l: int, r: int) -> int
    recommends r != 0
{
    l - r * tdiv(l, r)
}

pub open spec fn fits(v: int) -> bool { i64::MIN <= v <= i64::MAX }

pub open spec fn b2i(b: bool) -> int { if b { 1 } else { 0 } }

}
pub use math::*;

// ---- lemmas connecting machine operations to the mathematical semantics -------
pub mod lem {
    use vstd::prelude::*;
    use vstd::arithmetic::power2::*;
    use vstd::arithmetic::div_mod::*;
    use vstd::arithmetic::mul::*;
    use vstd::bits::*;
    use super::math::{abs, tdiv, trem};

    proof fn lemma_euc_neg_divisor(a: int, b: int)
        requires a >= 0, b < 0
        ensures a / b == -(a / (-b)), a % b == a % (-b)
    {
        assert(a / b == -(a / (-b)) && a % b == a % (-b)) by (nonlinear_arith) requires a >= 0, b < 0;
    }

    /// vstd specifies `checked_div` by this case split over Euclidean division;
    /// it equals truncating division.
    pub broadcast proof fn lemma_rust_div(l: int, r: int)
        requires r != 0
        ensures #[trigger] tdiv(l, r) == (if l == 0 { 0 } else if l > 0 { l / r } else { -((-l) / r) })
    {
        if r < 0 { lemma_euc_neg_divisor(abs(l), r); }
    }

    pub broadcast proof fn lemma_rust_rem(l: int, r: int)
        requires r != 0
        ensures #[trigger] trem(l, r) == (if l == 0 { 0 } else if l > 0 { l % r } else { -((-l) % r) })
    {
        if r < 0 { lemma_euc_neg_divisor(abs(l), r); }
        lemma_fundamental_div_mod(abs(l), abs(r));
        assert(abs(r) * (abs(l) / abs(r)) == (abs(l) / abs(r)) * abs(r)) by (nonlinear_arith);
        assert(r * -(abs(l) / abs(r)) == -(r * (abs(l) / abs(r)))) by (nonlinear_arith);
        assert((-r) * (abs(l) / abs(r)) == -(r * (abs(l) / abs(r)))) by (nonlinear_arith);
    }

    pub broadcast proof fn lemma_tdiv_range(l: int, r: int)
        requires r != 0, i64::MIN <= l <= i64::MAX, i64::MIN <= r <= i64::MAX
        ensures
            i64::MIN <= #[trigger] tdiv(l, r) <= i64::MAX + 1,
            (tdiv(l, r) == i64::MAX + 1 <==> (l == i64::MIN && r == -1)),
    {
        let q = abs(l) / abs(r);
        lemma_fundamental_div_mod(abs(l), abs(r));
        lemma_div_pos_is_pos(abs(l), abs(r));
        lemma_mod_bound(abs(l), abs(r));
        if abs(r) == 1 {
            assert(abs(l) == 1 * q + abs(l) % 1);
            assert(q == abs(l));
        } else {
            assert(abs(r) * q >= 2 * q) by (nonlinear_arith) requires abs(r) >= 2, q >= 0;
            assert(2 * q <= abs(l));
        }
    }

    pub broadcast proof fn lemma_trem_range(l: int, r: int)
        requires r != 0, i64::MIN <= l <= i64::MAX, i64::MIN <= r <= i64::MAX
        ensures -abs(r) < #[trigger] trem(l, r) < abs(r)
    {
        let q = abs(l) / abs(r);
        lemma_fundamental_div_mod(abs(l), abs(r));
        lemma_mod_bound(abs(l), abs(r));
        assert(abs(r) * q == q * abs(r)) by (nonlinear_arith);
        assert(r * -q == -(r * q)) by (nonlinear_arith);
        assert((-r) * q == -(r * q)) by (nonlinear_arith);
    }

    proof fn lemma_le_div_iff_mul_le(l: int, m: int, p: int)
        requires l >= 0, m >= 0, p > 0
        ensures l <= m / p <==> l * p <= m
    {
        lemma_fundamental_div_mod(m, p);
        if l <= m / p {
            lemma_mul_inequality(l, m / p, p);
            assert(p * (m / p) == (m / p) * p) by (nonlinear_arith);
        } else {
            lemma_mul_inequality(m / p + 1, l, p);
            assert((m / p + 1) * p == p * (m / p) + p) by (nonlinear_arith);
        }
    }

    /// `l << n` followed by the code's own overflow test (`result >= 0 && result >> n == l`)
    /// succeeds exactly when l * 2^n fits, and then the result is that product.
    pub broadcast proof fn lemma_i64_shl(l: i64, n: u32)
        requires l >= 0, n < 64
        ensures ({
            let s = #[trigger] (l << n) as i64;
            ((s >= 0 && (s >> n) == l) <==> l * pow2(n as nat) <= i64::MAX)
            && (s >= 0 && (s >> n) == l ==> s == l * pow2(n as nat))
        })
    {
        let s = (l << n) as i64;
        let lu = l as u64;
        let nu = n as u64;
        let m: u64 = 0x7fff_ffff_ffff_ffffu64;
        assert(l >= 0 && n < 64 ==> (((l << n) >= 0 && ((l << n) >> n) == l) <==> (l as u64) <= (0x7fff_ffff_ffff_ffffu64 >> (n as u64)))) by (bit_vector);
        lemma_u64_shr_is_div(m, nu);
        lemma_pow2_pos(n as nat);
        lemma_le_div_iff_mul_le(l as int, m as int, pow2(n as nat) as int);
        if s >= 0 && (s >> n) == l {
            assert(lu * pow2(n as nat) <= u64::MAX);
            lemma_u64_shl_is_mul(lu, nu);
            assert(l >= 0 && n < 64 ==> (l << n) as u64 == ((l as u64) << (n as u64))) by (bit_vector);
        }
    }

    /// `>>` on i64 is the arithmetic shift: floor division by 2^n.
    pub broadcast proof fn lemma_i64_shr(l: i64, n: u32)
        requires n < 64
        ensures #[trigger] (l >> n) as int == (l as int) / (pow2(n as nat) as int)
    {
        let p = pow2(n as nat) as int;
        lemma_pow2_pos(n as nat);
        if l >= 0 {
            assert(l >= 0 && n < 64 ==> (l >> n) as u64 == ((l as u64) >> (n as u64))) by (bit_vector);
            assert(l >= 0 && n < 64 ==> (l >> n) >= 0) by (bit_vector);
            lemma_u64_shr_is_div(l as u64, n as u64);
        } else {
            let k: i64 = !l;
            assert(l < 0 ==> !l >= 0) by (bit_vector);
            assert(!l == -l - 1) by (bit_vector);
            assert(n < 64 && l < 0 ==> (l >> n) == !((!l) >> n)) by (bit_vector);
            assert(k >= 0 && n < 64 ==> (k >> n) as u64 == ((k as u64) >> (n as u64))) by (bit_vector);
            assert(k >= 0 && n < 64 ==> (k >> n) >= 0) by (bit_vector);
            lemma_u64_shr_is_div(k as u64, n as u64);
            let q = (k as int) / p;
            let kk: i64 = (k >> n) as i64;
            assert(kk == q);
            assert(!kk == -kk - 1) by (bit_vector);
            lemma_fundamental_div_mod(k as int, p);
            let r = (k as int) % p;
            assert(l as int == p * (-q - 1) + (p - r - 1)) by (nonlinear_arith)
                requires l as int == -(k as int) - 1, k as int == p * q + r;
            lemma_fundamental_div_mod_converse(l as int, p, -q - 1, p - r - 1);
        }
    }
}
