// ---------------------------------------------------------------------------
// Prelude of unit whileloop (property C02, kernel): how while / until loops react to what their condition and body
// return (yash-semantics/src/command/compound_command/while_loop.rs Loop::iterate, Loop::execute).
// "loops honour break/continue levels": `break n` / `continue n` arrive as Divert::Break { count: n-1 } /
// Divert::Continue { count: n-1 }; every enclosing loop takes one level off; at level 0 the loop ends / starts its
// next round; every other divert (return, exit, interrupt, abort) passes through unchanged.
//
// Hand-written model text (ASSUMED): executing a command list is an opaque call that returns any result; each such
// call appends its result to a ghost log in the environment (`verif_log`), so that the contracts can say which result
// a loop reacted to.  Await points are dropped.
// ---------------------------------------------------------------------------
/// `?` on a ControlFlow value: Try::branch / FromResidual::from_residual of core (ASSUMED contracts: Continue(c) goes on
/// with c, Break(b) returns Break(b))
pub assume_specification<B, C>[ <ControlFlow<B, C> as core::ops::Try>::branch ](cf: ControlFlow<B, C>) -> (r: ControlFlow<<ControlFlow<B, C> as core::ops::Try>::Residual, <ControlFlow<B, C> as core::ops::Try>::Output>)
    ensures match cf { ControlFlow::Continue(c) => r == ControlFlow::<ControlFlow<B, core::convert::Infallible>, C>::Continue(c), ControlFlow::Break(b) => r == ControlFlow::<ControlFlow<B, core::convert::Infallible>, C>::Break(ControlFlow::Break(b)) };
pub assume_specification<B, C>[ <ControlFlow<B, C> as core::ops::FromResidual<ControlFlow<B, core::convert::Infallible>>>::from_residual ](res: ControlFlow<B, core::convert::Infallible>) -> (r: ControlFlow<B, C>)
    ensures res matches ControlFlow::Break(b) ==> r == ControlFlow::<B, C>::Break(b);

pub trait Runtime {}
pub struct List { pub verif_opaque: u8 }
/// `verif_bodies` counts the executions of a loop body so far, `verif_last_body` is the exit status the most recent one
/// left, `verif_last_is_body` says whether the most recent log entry came from a body (and not from a condition)
pub struct Env<S> { pub exit_status: ExitStatus, pub verif_log: Ghost<Seq<Result>>, pub verif_bodies: Ghost<nat>, pub verif_last_body: Ghost<ExitStatus>, pub verif_last_is_body: Ghost<bool>, pub system: S }

impl List {
    /// executing the commands of a list: any result, any exit status; recorded
    #[verifier::external_body]
    pub fn execute<S>(&self, env: &mut Env<S>) -> (r: Result)
        ensures final(env).verif_log@ == old(env).verif_log@.push(r),
            final(env).verif_bodies@ == old(env).verif_bodies@ + 1, final(env).verif_last_body@ == final(env).exit_status, final(env).verif_last_is_body@
    { unimplemented!() }
}
/// evaluating the condition of a loop: whether it held, or the divert that interrupted it; recorded
#[verifier::external_body]
pub fn evaluate_condition<S>(env: &mut Env<S>, condition: &List) -> (r: ControlFlow<Divert, bool>)
    ensures final(env).verif_log@ == old(env).verif_log@.push(match r { ControlFlow::Continue(_) => ControlFlow::<Divert, ()>::Continue(()), ControlFlow::Break(d) => ControlFlow::<Divert, ()>::Break(d) }),
        final(env).verif_bodies@ == old(env).verif_bodies@, final(env).verif_last_body@ == old(env).verif_last_body@, !final(env).verif_last_is_body@
{ unimplemented!() }

/// the log has only grown
pub open spec fn extends(new: Seq<Result>, old: Seq<Result>) -> bool {
    old.len() <= new.len() && forall|i: int| 0 <= i < old.len() ==> #[trigger] new[i] == old[i]
}
/// the entries [from, to) of the log are all "went on normally"
pub open spec fn quiet(log: Seq<Result>, from: int, to: int) -> bool {
    forall|i: int| from <= i < to ==> #[trigger] log[i] == ControlFlow::<Divert, ()>::Continue(())
}
/// the entries [from, to) of the log are all "went on normally" or "continue (this loop)"
pub open spec fn quiet_or_continue(log: Seq<Result>, from: int, to: int) -> bool {
    forall|i: int| from <= i < to ==> (#[trigger] log[i] == ControlFlow::<Divert, ()>::Continue(()) || log[i] == ControlFlow::<Divert, ()>::Break(Divert::Continue { count: 0 }))
}
/// "The exit status of a while or until loop is that of the last command run in the loop body, or 0 if the loop body
/// does not run" (docs/src/language/commands/loops.md; XCU 2.9.4.3): the status the loop has recorded is the one the
/// most recent execution of its body left - also when that execution ended with `continue` or `break` - and what it
/// started with if the body has not run
pub open spec fn body_status_recorded<S>(recorded: ExitStatus, before: Env<S>, recorded_before: ExitStatus, after: Env<S>) -> bool {
    if after.verif_bodies@ > before.verif_bodies@ { recorded == after.verif_last_body@ } else { recorded == recorded_before }
}
/// XCU 2.15 break / continue, one enclosing loop: what the loop hands on for what it received
pub open spec fn loop_reaction(x: Result) -> Result {
    match x {
        ControlFlow::Break(Divert::Break { count }) => if count == 0 { ControlFlow::Continue(()) } else { ControlFlow::Break(Divert::Break { count: (count - 1) as usize }) },
        ControlFlow::Break(Divert::Continue { count }) => if count == 0 { ControlFlow::Continue(()) } else { ControlFlow::Break(Divert::Continue { count: (count - 1) as usize }) },
        other => other,
    }
}
