// ---------------------------------------------------------------------------
// Prelude of unit redir (property C09): save-then-replace of the target descriptor and its restoration
// (yash-semantics/src/redir.rs: perform, RedirGuard::{new, perform_redir, undo_redirs, preserve_redirs, drop}).
//
// Hand-written model text (ASSUMED): the descriptor table of the shell process as the system traits `Close`, `Dup`,
// `Fcntl` present it.  `table()` maps every open descriptor to the open file description it refers to (an abstract
// identity) and its close-on-exec flag.  The real traits take `&self` (interior mutability); here the changing
// operations take `&mut self` so that the effect has a specification.  Everything the redirection code only hands on
// (source locations, words, expansion results, the tracer) is an opaque placeholder.
// ---------------------------------------------------------------------------
pub type RawFd = i32;
pub type RawErrno = i32;

/// what a descriptor refers to: an open file description (abstract identity) and the FD_CLOEXEC flag
pub struct Ofd { pub id: int, pub cloexec: bool }
pub type Table = Map<Fd, Ofd>;

/// model of enumset::EnumSet<T>: the set of flags as a ghost view (ASSUMED, as every fact about this model of the
/// enumset crate)
pub struct EnumSet<T> { pub verif_t: Option<T> }
pub uninterp spec fn flags_of<T>(s: EnumSet<T>) -> Set<T>;
impl<T> EnumSet<T> {
    #[verifier::external_body]
    pub fn empty() -> (r: EnumSet<T>) ensures flags_of(r) == Set::<T>::empty() { unimplemented!() }
}
/// `A | B` on two flags is the set of the two (enumset's BitOr); `enum_set!(A | B)` is the same set as a constant
impl core::ops::BitOr for OpenFlag {
    type Output = EnumSet<OpenFlag>;
    #[verifier::external_body]
    fn bitor(self, rhs: OpenFlag) -> (r: EnumSet<OpenFlag>)
        ensures flags_of(r) == set![self, rhs]
    { unimplemented!() }
}
impl vstd::std_specs::ops::BitOrSpecImpl<OpenFlag> for OpenFlag {
    open spec fn obeys_bitor_spec() -> bool { false }
    open spec fn bitor_req(self, rhs: OpenFlag) -> bool { true }
    uninterp spec fn bitor_spec(self, rhs: OpenFlag) -> EnumSet<OpenFlag>;
}
impl From<OpenFlag> for EnumSet<OpenFlag> {
    #[verifier::external_body]
    fn from(f: OpenFlag) -> (r: EnumSet<OpenFlag>) ensures flags_of(r) == set![f] { unimplemented!() }
}
impl vstd::std_specs::convert::FromSpecImpl<OpenFlag> for EnumSet<OpenFlag> {
    open spec fn obeys_from_spec() -> bool { false }
    uninterp spec fn from_spec(f: OpenFlag) -> EnumSet<OpenFlag>;
}
/// placeholder for the permission bits of a new file (only handed on)
pub struct Mode { pub verif_bits: u32 }
impl Mode {
    pub const ALL_READ: Mode = Mode { verif_bits: 0o444 };
    pub const ALL_WRITE: Mode = Mode { verif_bits: 0o222 };
    #[verifier::external_body]
    pub const fn union(self, other: Mode) -> Mode { Mode { verif_bits: self.verif_bits | other.verif_bits } }
}
/// placeholder for the result of fstat: all the code asks is whether the file is a regular file
pub struct FileStat { pub verif_regular: bool }
impl FileStat {
    pub fn is_regular_file(&self) -> (r: bool) ensures r == self.verif_regular { self.verif_regular }
}
/// how an open file description came into being: the access mode and flags of the open() that made it
pub struct How { pub access: OfdAccess, pub flags: Set<OpenFlag> }
impl EnumSet<FdFlag> {
    pub open spec fn has_cloexec(&self) -> bool { flags_of(*self).contains(FdFlag::CloseOnExec) }
    #[verifier::external_body]
    pub fn contains(&self, f: FdFlag) -> (r: bool) ensures r == flags_of(*self).contains(f) { unimplemented!() }
}
impl From<FdFlag> for EnumSet<FdFlag> {
    #[verifier::external_body]
    fn from(f: FdFlag) -> (r: EnumSet<FdFlag>) ensures flags_of(r) == set![f] { unimplemented!() }
}
impl vstd::std_specs::convert::FromSpecImpl<FdFlag> for EnumSet<FdFlag> {
    open spec fn obeys_from_spec() -> bool { false }
    uninterp spec fn from_spec(f: FdFlag) -> EnumSet<FdFlag>;
}

pub trait Fds: Sized {
    spec fn table(&self) -> Table;
    /// whether closing `fd` / duplicating `from` onto `to` fails now although the descriptors are valid (functions of
    /// the state; the code under contract ignores such errors where it restores)
    spec fn close_fails(&self, fd: Fd) -> bool;
    spec fn dup2_fails(&self, from: Fd, to: Fd) -> bool;
    /// per open file description: how it was opened, and whether the file behind it is a regular file
    spec fn how(&self, id: int) -> How;
    spec fn regular(&self, id: int) -> bool;

    /// open(): a descriptor that was not open refers to a NEW open file description made with this access mode and
    /// these flags; FD_CLOEXEC as asked; a failure changes nothing
    fn open(&mut self, path: &CString, access: OfdAccess, flags: EnumSet<OpenFlag>, mode: Mode) -> (r: Result<Fd, Errno>)
        ensures
            match r {
                Ok(fd) => !old(self).table().contains_key(fd) && final(self).table().contains_key(fd)
                    && final(self).table() == old(self).table().insert(fd, final(self).table()[fd])
                    && final(self).table()[fd].cloexec == flags_of(flags).contains(OpenFlag::CloseOnExec)
                    && (forall|fd2: Fd| old(self).table().contains_key(fd2) ==> old(self).table()[fd2].id != final(self).table()[fd].id)
                    && final(self).how(final(self).table()[fd].id) == (How { access, flags: flags_of(flags) })
                    && (forall|id: int| id != final(self).table()[fd].id ==> final(self).how(id) == old(self).how(id) && final(self).regular(id) == old(self).regular(id)),
                Err(_) => final(self).table() == old(self).table() && (forall|id: int| final(self).how(id) == old(self).how(id) && final(self).regular(id) == old(self).regular(id)),
            },
            forall|fd2: Fd| final(self).close_fails(fd2) == old(self).close_fails(fd2),
            forall|f2: Fd, t2: Fd| final(self).dup2_fails(f2, t2) == old(self).dup2_fails(f2, t2);
    /// an anonymous temporary file, open for reading and writing
    fn open_tmpfile(&mut self, parent_dir: &TmpDir) -> (r: Result<Fd, Errno>)
        ensures
            match r {
                Ok(fd) => !old(self).table().contains_key(fd) && final(self).table().contains_key(fd) && !final(self).table()[fd].cloexec
                    && final(self).table() == old(self).table().insert(fd, final(self).table()[fd]),
                Err(_) => final(self).table() == old(self).table(),
            },
            forall|id: int| (forall|fd2: Fd| old(self).table().contains_key(fd2) ==> old(self).table()[fd2].id != id) || (final(self).how(id) == old(self).how(id) && final(self).regular(id) == old(self).regular(id)),
            forall|fd2: Fd| final(self).close_fails(fd2) == old(self).close_fails(fd2),
            forall|f2: Fd, t2: Fd| final(self).dup2_fails(f2, t2) == old(self).dup2_fails(f2, t2);
    fn fstat(&self, fd: Fd) -> (r: Result<FileStat, Errno>)
        ensures r is Ok <==> self.table().contains_key(fd), r matches Ok(st) ==> st.verif_regular == self.regular(self.table()[fd].id);
    /// fcntl(F_GETFL) access mode: EBADF exactly for a descriptor that is not open
    fn ofd_access(&self, fd: Fd) -> (r: Result<OfdAccess, Errno>)
        ensures r is Ok <==> self.table().contains_key(fd), r matches Ok(a) ==> a == self.how(self.table()[fd].id).access;

    /// fcntl(F_GETFD): EBADF exactly for a descriptor that is not open
    fn fcntl_getfd(&self, fd: Fd) -> (r: Result<EnumSet<FdFlag>, Errno>)
        ensures
            r is Ok <==> self.table().contains_key(fd),
            r matches Ok(flags) ==> flags.has_cloexec() == self.table()[fd].cloexec;
    /// Close::close: "returns Ok(()) when the FD is already closed"
    fn close(&mut self, fd: Fd) -> (r: Result<(), Errno>)
        ensures
            r is Err <==> old(self).close_fails(fd),
            r is Ok ==> final(self).table() == old(self).table().remove(fd),
            r is Err ==> final(self).table() == old(self).table(),
            forall|id: int| final(self).how(id) == old(self).how(id) && final(self).regular(id) == old(self).regular(id),
            forall|fd2: Fd| final(self).close_fails(fd2) == old(self).close_fails(fd2),
            forall|f2: Fd, t2: Fd| final(self).dup2_fails(f2, t2) == old(self).dup2_fails(f2, t2);
    /// fcntl(F_DUPFD / F_DUPFD_CLOEXEC): a free descriptor >= to_min now refers to the same open file description;
    /// EBADF exactly when `from` is not open
    fn dup(&mut self, from: Fd, to_min: Fd, flags: EnumSet<FdFlag>) -> (r: Result<Fd, Errno>)
        ensures
            match r {
                Ok(new) => old(self).table().contains_key(from) && !old(self).table().contains_key(new) && new.0 >= to_min.0
                    && final(self).table() == old(self).table().insert(new, Ofd { id: old(self).table()[from].id, cloexec: flags.has_cloexec() }),
                Err(e) => final(self).table() == old(self).table() && (e == Errno::EBADF <==> !old(self).table().contains_key(from)),
            },
            forall|id: int| final(self).how(id) == old(self).how(id) && final(self).regular(id) == old(self).regular(id),
            forall|fd2: Fd| final(self).close_fails(fd2) == old(self).close_fails(fd2),
            forall|f2: Fd, t2: Fd| final(self).dup2_fails(f2, t2) == old(self).dup2_fails(f2, t2);
    /// dup2(): `to` now refers to the open file description of `from`, FD_CLOEXEC clear (what `to` referred to is
    /// closed); with from == to nothing happens
    fn dup2(&mut self, from: Fd, to: Fd) -> (r: Result<Fd, Errno>)
        ensures
            r is Err <==> (!old(self).table().contains_key(from) || old(self).dup2_fails(from, to)),
            match r {
                Ok(new) => new == to && final(self).table() == (if from == to { old(self).table() } else { old(self).table().insert(to, Ofd { id: old(self).table()[from].id, cloexec: false }) }),
                Err(_) => final(self).table() == old(self).table(),
            },
            forall|id: int| final(self).how(id) == old(self).how(id) && final(self).regular(id) == old(self).regular(id),
            forall|fd2: Fd| final(self).close_fails(fd2) == old(self).close_fails(fd2),
            forall|f2: Fd, t2: Fd| final(self).dup2_fails(f2, t2) == old(self).dup2_fails(f2, t2);
}
pub open spec fn same_failures<S: Fds>(a: S, b: S) -> bool {
    &&& forall|fd: Fd| a.close_fails(fd) == b.close_fails(fd)
    &&& forall|f: Fd, t: Fd| a.dup2_fails(f, t) == b.dup2_fails(f, t)
}
/// hypothesis of the restoration clauses: closing and dup2 of valid descriptors do not fail (the code ignores their
/// errors, and nothing could be restored if they did)
/// nothing about existing open file descriptions changed
pub open spec fn same_files<S: Fds>(a: S, b: S) -> bool {
    forall|id: int| a.how(id) == b.how(id) && a.regular(id) == b.regular(id)
}
pub open spec fn quiet<S: Fds>(s: S) -> bool {
    &&& forall|fd: Fd| !s.close_fails(fd)
    &&& forall|f: Fd, t: Fd| !s.dup2_fails(f, t)
}
/// the same system seen through the trait names the code uses as bounds
pub trait Close: Fds {}
pub trait Dup: Fds {}
pub trait Fcntl: Fds {}
pub trait Open: Fds {}
pub trait Fstat: Fds {}
pub trait Seek: Fds {}
pub trait WriteAll: Fds {}
pub trait Runtime: Fds + Close + Dup + Fcntl + Open + Fstat + Seek + WriteAll {}

/// the option set, reduced to the one option the openers ask for (ASSUMED contract of OptionSet::get)
pub struct OptionSet { pub verif_noclobber: bool }
pub enum ShellOption { Clobber, Other(u8) }
pub use ShellOption::Clobber;
impl OptionSet {
    pub open spec fn noclobber(&self) -> bool { self.verif_noclobber }
    #[verifier::external_body]
    pub fn get(&self, option: ShellOption) -> (r: State)
        ensures option == ShellOption::Clobber ==> (r == State::Off <==> self.noclobber())
    { unimplemented!() }
}
impl vstd::std_specs::cmp::PartialEqSpecImpl for State {
    open spec fn obeys_eq_spec() -> bool { true }
    open spec fn eq_spec(&self, other: &State) -> bool { *self == *other }
}
impl vstd::std_specs::cmp::PartialEqSpecImpl for OfdAccess {
    open spec fn obeys_eq_spec() -> bool { true }
    open spec fn eq_spec(&self, other: &OfdAccess) -> bool { *self == *other }
}

/// struct Env reduced to the fields the functions under contract use
pub struct Env<S> { pub system: S, pub options: OptionSet }
pub mod yash_env { pub use super::Env; }

// ---- opaque placeholders for what is only handed on -------------------------------------------------
pub struct Location { pub verif_opaque: u8 }
impl Clone for Location { fn clone(&self) -> (r: Location) { Location { verif_opaque: self.verif_opaque } } }
pub struct Word { pub location: Location }
pub struct Text { pub verif_opaque: u8 }
pub struct HereDoc { pub delimiter: Word, pub remove_tabs: bool, pub verif_content: Text }
pub struct Field { pub value: String, pub origin: Location }
pub struct ExitStatus(pub i32);
pub struct XTrace { pub verif_opaque: u8 }
pub struct ExpansionError { pub verif_opaque: u8 }
pub struct ExpansionErrorCause { pub verif_opaque: u8 }
pub struct NulError { pub verif_opaque: u8 }
pub struct ParseIntError { pub verif_opaque: u8 }
pub struct CString { pub verif_opaque: u8 }
impl CString {
    #[verifier::external_body]
    pub fn new(s: String) -> (r: Result<CString, NulError>) { unimplemented!() }
}
pub struct TmpDir { pub verif_opaque: u8 }
/// `Path::new("/tmp")`
#[verifier::external_body]
pub fn verif_tmp_dir() -> (r: &'static TmpDir) { unimplemented!() }
/// `target.value == "-"` and `target.value.parse()` of copy_fd: string code, only its outcome matters here
#[verifier::external_body]
pub fn verif_is_hyphen(s: &String) -> (r: bool) { unimplemented!() }
#[verifier::external_body]
pub fn verif_parse_fd(s: &String) -> (r: Result<RawFd, ParseIntError>) { unimplemented!() }
pub assume_specification<T, E, F: FnOnce(T) -> bool>[ Result::<T, E>::is_ok_and ](r: Result<T, E>, f: F) -> (b: bool)
    requires r matches Ok(v) ==> f.requires((v,)),
    ensures r is Err ==> !b, r matches Ok(v) ==> f.ensures((v,), b);

// derived PartialEq / Copy of Fd and Errno (ASSUMED structural)
impl vstd::std_specs::cmp::PartialEqSpecImpl for Fd {
    open spec fn obeys_eq_spec() -> bool { true }
    open spec fn eq_spec(&self, other: &Fd) -> bool { *self == *other }
}
impl vstd::std_specs::cmp::PartialEqSpecImpl for Errno {
    open spec fn obeys_eq_spec() -> bool { true }
    open spec fn eq_spec(&self, other: &Errno) -> bool { *self == *other }
}
// derived PartialOrd / Ord of Fd (ASSUMED to compare the numbers)
pub open spec fn fd_cmp(a: Fd, b: Fd) -> core::cmp::Ordering {
    if a.0 < b.0 { core::cmp::Ordering::Less } else if a.0 == b.0 { core::cmp::Ordering::Equal } else { core::cmp::Ordering::Greater }
}
impl vstd::std_specs::cmp::PartialOrdSpecImpl for Fd {
    open spec fn obeys_partial_cmp_spec() -> bool { true }
    open spec fn partial_cmp_spec(&self, other: &Fd) -> Option<core::cmp::Ordering> { Some(fd_cmp(*self, *other)) }
}
impl vstd::std_specs::cmp::OrdSpecImpl for Fd {
    open spec fn obeys_cmp_spec() -> bool { true }
    open spec fn cmp_spec(&self, other: &Fd) -> core::cmp::Ordering { fd_cmp(*self, *other) }
}
impl Errno { pub const EBADF: Errno = Errno(9); pub const EEXIST: Errno = Errno(17); pub const ENOENT: Errno = Errno(2); }

// `impl From<crate::expansion::Error> for Error` of the code (what `?` applies to an expansion error), ASSUMED total
impl From<ExpansionError> for Error {
    #[verifier::external_body]
    fn from(e: ExpansionError) -> (r: Error) { unimplemented!() }
}
impl vstd::std_specs::convert::FromSpecImpl<ExpansionError> for Error {
    open spec fn obeys_from_spec() -> bool { false }
    uninterp spec fn from_spec(e: ExpansionError) -> Error;
}

// ---- the parts of `perform` that run the expansion and open the file: ASSUMED contracts ------------------
/// word / text expansion of the operand may run command substitutions; ASSUMED to leave the shell's own descriptor
/// table as it was (a command substitution's pipe is opened and closed again inside)
#[verifier::external_body]
pub fn expand_word<S: Fds>(env: &mut Env<S>, word: &Word) -> (r: Result<(Field, Option<ExitStatus>), ExpansionError>)
    ensures final(env).system.table() == old(env).system.table(), same_failures(old(env).system, final(env).system), same_files(old(env).system, final(env).system), final(env).options == old(env).options
{ unimplemented!() }
#[verifier::external_body]
pub fn expand_text<S: Fds>(env: &mut Env<S>, text: &Text) -> (r: Result<(String, Option<ExitStatus>), ExpansionError>)
    ensures final(env).system.table() == old(env).system.table(), same_failures(old(env).system, final(env).system), same_files(old(env).system, final(env).system), final(env).options == old(env).options
{ unimplemented!() }
#[verifier::external_body]
pub fn trace_normal(xtrace: Option<&mut XTrace>, target_fd: Fd, operator: RedirOp, operand: &Field) { unimplemented!() }
#[verifier::external_body]
pub fn trace_here_doc(xtrace: Option<&mut XTrace>, target_fd: Fd, here_doc: &HereDoc, content: &String) { unimplemented!() }
#[verifier::external_body]
pub fn verif_here_doc_content(here_doc: &HereDoc) -> (r: &Text) { unimplemented!() }

/// what opening did to the table: nothing (an existing descriptor is borrowed, or the target is to be closed, or
/// opening failed), or exactly one descriptor that was not open now refers to a new open file description
pub open spec fn opened(before: Table, after: Table, spec: FdSpec) -> bool {
    match spec {
        FdSpec::Owned(fd) => !before.contains_key(fd) && after.contains_key(fd) && after == before.insert(fd, after[fd]),
        FdSpec::Borrowed(fd) => after == before && before.contains_key(fd) && !before[fd].cloexec,
        FdSpec::Closed => after == before,
    }
}
/// writing the here-document text into the temporary file and rewinding it: ASSUMED to leave the table alone
#[verifier::external_body]
pub fn fill_content<S: Fds>(env: &mut Env<S>, fd: Fd, content: &String) -> (r: Result<(), Errno>)
    ensures final(env).system.table() == old(env).system.table(), same_failures(old(env).system, final(env).system),
        forall|id: int| final(env).system.how(id) == old(env).system.how(id) && final(env).system.regular(id) == old(env).system.regular(id),
        final(env).options == old(env).options
{ unimplemented!() }

impl Redir {
    /// the descriptor a redirection is about: the one written before the operator, or 0 / 1 by the kind of operator
    pub open spec fn target(&self) -> Fd {
        match self.fd {
            Some(fd) => fd,
            None => match self.body {
                RedirBody::Normal { operator, .. } => match operator {
                    RedirOp::FileIn | RedirOp::FileInOut | RedirOp::FdIn | RedirOp::String => Fd(0),
                    _ => Fd(1),
                },
                RedirBody::HereDoc(_) => Fd(0),
            },
        }
    }
}

/// XCU 2.7: how each redirection operator opens its file.  `noclobber` is the state of the option (set -C).
pub open spec fn opens_as(op: RedirOp, noclobber: bool, h: How, regular: bool) -> bool {
    match op {
        RedirOp::FileIn => h == (How { access: OfdAccess::ReadOnly, flags: Set::<OpenFlag>::empty() }),
        RedirOp::FileOut if noclobber =>
            // never truncates: either the file was created by this very open (O_CREAT|O_EXCL), or it existed and is not a regular file
            h == (How { access: OfdAccess::WriteOnly, flags: set![OpenFlag::Create, OpenFlag::Exclusive] })
            || (h == (How { access: OfdAccess::WriteOnly, flags: Set::<OpenFlag>::empty() }) && !regular),
        RedirOp::FileOut | RedirOp::FileClobber => h == (How { access: OfdAccess::WriteOnly, flags: set![OpenFlag::Create, OpenFlag::Truncate] }),
        RedirOp::FileAppend => h == (How { access: OfdAccess::WriteOnly, flags: set![OpenFlag::Create, OpenFlag::Append] }),
        RedirOp::FileInOut => h == (How { access: OfdAccess::ReadWrite, flags: set![OpenFlag::Create] }),
        _ => false,
    }
}
pub open spec fn is_file_op(op: RedirOp) -> bool {
    op is FileIn || op is FileOut || op is FileClobber || op is FileAppend || op is FileInOut
}

// ---- C09 over the descriptor table -------------------------------------------------------------------
/// restoring one saved descriptor (what `undo_redirs` does for one record when nothing fails)
pub open spec fn undo_one(x: SavedFd, t: Table) -> Table {
    match x.save {
        Some(s) => t.insert(x.original, Ofd { id: t[s].id, cloexec: false }).remove(s),
        None => t.remove(x.original),
    }
}
pub open spec fn undo_all(saved: Seq<SavedFd>, t: Table) -> Table
    decreases saved.len()
{
    if saved.len() == 0 { t } else { undo_all(saved.drop_last(), undo_one(saved.last(), t)) }
}
/// every backing copy is still there when its turn comes
pub open spec fn undoable(saved: Seq<SavedFd>, t: Table) -> bool
    decreases saved.len()
{
    if saved.len() == 0 { true } else {
        let x = saved.last();
        &&& (x.save matches Some(s) ==> t.contains_key(s) && s != x.original)
        &&& undoable(saved.drop_last(), undo_one(x, t))
    }
}
/// the descriptors a guard holds for its own use
pub open spec fn saves_upto(saved: Seq<SavedFd>, n: int) -> Set<Fd>
    decreases n
{
    if n <= 0 || n > saved.len() { Set::<Fd>::empty() } else {
        match saved[n - 1].save { Some(s) => saves_upto(saved, n - 1).insert(s), None => saves_upto(saved, n - 1) }
    }
}
pub open spec fn saves(saved: Seq<SavedFd>) -> Set<Fd> { saves_upto(saved, saved.len() as int) }
/// no record names its own backing copy as the descriptor to restore (what `assert_ne!` in `undo_redirs` relies on)
pub open spec fn wf_records(saved: Seq<SavedFd>) -> bool {
    forall|i: int| 0 <= i < saved.len() ==> (#[trigger] saved[i]).save != Some(saved[i].original)
}
/// C09 as an invariant of the guard: undoing what has been recorded gives back the table the guard started from
pub open spec fn ginv(saved: Seq<SavedFd>, t: Table, base: Table) -> bool {
    undoable(saved, t) && undo_all(saved, t) =~= base
}
/// one successful redirection, seen from the table: `x` records how to get back
pub open spec fn performed(x: SavedFd, before: Table, after: Table) -> bool {
    &&& match x.save {
            // the previous meaning of the target lives on in a descriptor of the shell's own: >= 10, close-on-exec
            Some(s) => before.contains_key(x.original) && !before.contains_key(s) && s != x.original && s.0 >= 10
                && after.contains_key(s) && after[s] == (Ofd { id: before[x.original].id, cloexec: true }) && !before[x.original].cloexec,
            None => !before.contains_key(x.original),
        }
    // nothing else is opened, closed or changed
    &&& forall|fd: Fd| fd != x.original && x.save != Some(fd) ==> (#[trigger] after.contains_key(fd) <==> before.contains_key(fd)) && (before.contains_key(fd) ==> after[fd] == before[fd])
}
pub proof fn lemma_performed_undo(x: SavedFd, before: Table, after: Table)
    requires performed(x, before, after),
    ensures undo_one(x, after) =~= before, x.save matches Some(s) ==> after.contains_key(s) && s != x.original,
{
}
pub proof fn lemma_push(saved: Seq<SavedFd>, x: SavedFd, t: Table)
    ensures
        undo_all(saved.push(x), t) == undo_all(saved, undo_one(x, t)),
        undoable(saved.push(x), t) == ((x.save matches Some(s) ==> t.contains_key(s) && s != x.original) && undoable(saved, undo_one(x, t))),
{
    assert(saved.push(x).drop_last() =~= saved);
    assert(saved.push(x).last() == x);
}

/// `v.drain(..)` as a whole: hands out the elements in order and leaves the vector empty (ASSUMED)
#[verifier::external_body]
pub fn verif_drain_all(v: &mut Vec<SavedFd>) -> (r: Vec<SavedFd>)
    ensures r@ == old(v)@, final(v)@.len() == 0
{ v.drain(..).collect() }

// `assert_ne!` / `assert_eq!` expand to a call of `assert_failed` on the failing branch: with `requires false` every
// run-time assertion of the extracted code becomes a proof obligation (the code must not panic).
#[verifier::external_type_specification]
pub struct ExAssertKind(core::panicking::AssertKind);
pub assume_specification<T: core::fmt::Debug + ?Sized, U: core::fmt::Debug + ?Sized>[ core::panicking::assert_failed::<T, U> ](
    kind: core::panicking::AssertKind, left: &T, right: &U, args: Option<core::fmt::Arguments<'_>>) -> !
    requires false;

/// `xtrace.as_deref_mut()`: a shorter re-borrow of the optional tracer (std; ASSUMED to hand the tracer on)
#[verifier::external_body]
pub fn verif_reborrow<'a, 'b>(x: &'a mut Option<&'b mut XTrace>) -> (r: Option<&'a mut XTrace>) { x.as_deref_mut() }
/// ASSUMED contract of Option::or
pub assume_specification<T>[ Option::<T>::or ](a: Option<T>, b: Option<T>) -> (r: Option<T>)
    ensures r == (if a is Some { a } else { b });
