// ---------------------------------------------------------------------------
// Prelude of unit pipelineparse (properties C02 / C17, kernel): Parser::pipeline (yash-syntax/src/parser/pipeline.rs), the
// place where `!` and `|` are read.
// C02 "`!` inverts only the status": the pipeline handed out is negated exactly when this call consumed a `!` token, its
// commands are exactly the commands parsed, in order, and a `|` was consumed between every two of them and nowhere else.
// C17 "reserved words, operators ... that emerge from replacement text are recognised as such": when the first command
// position turns out to be an alias substitution the call gives up WITHOUT having consumed anything (the caller parses the
// replacement text from the start, so a `!` in it is recognised); after a `!` or a `|` has been consumed, an alias
// substitution makes the command be parsed again in place, and what was consumed is not forgotten.
//
// Hand-written model text (ASSUMED): the parser is reduced to a monitor of what it consumed: command() (simple, compound
// or function definition command, or an alias substitution, or nothing), peek_token / take_token_raw (the token peeked is
// the token taken next), newline_and_here_doc_contents, mode.  Keyword / Operator are reduced to the members this function
// names.  `let x = loop { .. break v; .. }` by rule loop-break-value (the invariants of those two loops are part of the
// replacement text).  Await points dropped; termination is not claimed (it depends on the input being finite).
// ---------------------------------------------------------------------------
pub mod lexm {
    use vstd::prelude::*;
    verus! {
    #[derive(Clone, Copy, Debug, Eq, PartialEq)]
    pub enum Keyword { Bang, Other(u8) }
    #[derive(Clone, Copy, Debug, Eq, PartialEq)]
    pub enum Operator { Bar, OpenParen, Other(u8) }
    #[derive(Clone, Copy, Debug, Eq, PartialEq)]
    pub enum TokenId { Token(Option<Keyword>), Operator(Operator), IoNumber, IoLocation, EndOfInput }
    impl vstd::std_specs::cmp::PartialEqSpecImpl for TokenId {
        open spec fn obeys_eq_spec() -> bool { true }
        open spec fn eq_spec(&self, other: &TokenId) -> bool { *self == *other }
    }
    }
}
pub use lexm::Keyword::Bang;
pub use lexm::Operator::{Bar, OpenParen};
pub use lexm::TokenId::{Operator, Token};
pub use lexm::TokenId;
#[derive(Clone)]
pub struct Location { pub verif_opaque: u8 }
pub struct Word { pub location: Location }
/// lex::Token
pub struct LexToken { pub word: Word, pub id: TokenId, pub index: usize }
pub struct Command { pub verif_id: int }
pub struct Pipeline { pub commands: Vec<Rc<Command>>, pub negation: bool }
pub enum Rec<T> { AliasSubstituted, Parsed(T) }
pub enum SyntaxError { UnsupportedExtendedGlob, DoubleNegation, MissingCommandAfterBang, BangAfterBar, MissingCommandAfterBar }
pub struct ErrorCause { pub verif_opaque: u8 }
impl From<SyntaxError> for ErrorCause { #[verifier::external_body] fn from(e: SyntaxError) -> ErrorCause { unimplemented!() } }
pub struct Error { pub cause: ErrorCause, pub location: Location }
pub type Result<T> = std::result::Result<T, Error>;
pub struct Mode { pub portable: bool }
pub open spec fn cmd_ids(s: Seq<Rc<Command>>) -> Seq<int> { Seq::new(s.len(), |i: int| s[i].verif_id) }
pub struct Mon {
    /// a `!` was consumed / how many `|` / how many other tokens
    pub bang_taken: bool, pub bars: nat, pub other_taken: nat,
    /// the commands parsed, in order
    pub cmds: Seq<int>,
    /// something out of turn: a second `!`, a `!` after a command, a `|` that does not follow a command, a command that
    /// follows neither the start, a `!` nor a `|`
    pub wrong: bool,
}
pub struct Parser<'a, 'b> { pub mon: Ghost<Mon>, pub verif_next: Ghost<TokenId>, pub verif_portable: bool, pub verif_a: core::marker::PhantomData<&'a u8>, pub verif_b: core::marker::PhantomData<&'b u8> }
pub open spec fn after_take(m: Mon, id: TokenId) -> Mon {
    if id == TokenId::Token(Some(lexm::Keyword::Bang)) { Mon { bang_taken: true, wrong: m.wrong || m.bang_taken || m.cmds.len() > 0, ..m } }
    else if id == TokenId::Operator(lexm::Operator::Bar) { Mon { bars: m.bars + 1, wrong: m.wrong || m.cmds.len() != m.bars + 1, ..m } }
    else { Mon { other_taken: m.other_taken + 1, ..m } }
}
impl Parser<'_, '_> {
    /// parser/command.rs Parser::command
    #[verifier::external_body]
    pub fn command(&mut self) -> (r: Result<Rec<Option<Command>>>)
        ensures final(self).verif_portable == old(self).verif_portable,
            final(self).mon@ == (match r { Ok(Rec::Parsed(Some(c))) => Mon { cmds: old(self).mon@.cmds.push(c.verif_id), wrong: old(self).mon@.wrong || old(self).mon@.cmds.len() != old(self).mon@.bars, ..old(self).mon@ }, _ => old(self).mon@ })
    { unimplemented!() }
    #[verifier::external_body]
    pub fn peek_token(&mut self) -> (r: Result<&LexToken>)
        ensures final(self).mon@ == old(self).mon@, final(self).verif_portable == old(self).verif_portable, r matches Ok(t) ==> t.id == final(self).verif_next@
    { unimplemented!() }
    /// the token peeked is the token taken
    #[verifier::external_body]
    pub fn take_token_raw(&mut self) -> (r: Result<LexToken>)
        ensures final(self).verif_portable == old(self).verif_portable,
            r matches Ok(t) ==> t.id == old(self).verif_next@ && t.index < usize::MAX && final(self).mon@ == after_take(old(self).mon@, t.id),
            r is Err ==> final(self).mon@ == old(self).mon@
    { unimplemented!() }
    #[verifier::external_body]
    pub fn mode(&self) -> (r: Mode) ensures r.portable == self.verif_portable { unimplemented!() }
    #[verifier::external_body]
    pub fn newline_and_here_doc_contents(&mut self) -> (r: Result<bool>)
        ensures final(self).mon@ == old(self).mon@, final(self).verif_portable == old(self).verif_portable
    { unimplemented!() }
}
