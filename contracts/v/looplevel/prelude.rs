// ---------------------------------------------------------------------------
// Prelude of unit looplevel (property C02, kernel): how many loops `break n` / `continue n` leave
// (yash-builtin/src/break/semantics.rs, continue/semantics.rs run; yash-env/src/stack.rs Stack::loop_count).
// "loops honour break/continue levels": break n leaves min(n, number of enclosing loops) loops, counting only the
// loops of the current execution environment (a loop outside a subshell, a dot script or a trap action is not
// enclosing); outside any loop it is an error.
// ---------------------------------------------------------------------------
#[derive(Clone, Debug, Eq, PartialEq)]
pub struct Field { pub verif_opaque: u8 }

impl Stack {
    /// ASSUMED in this unit (a chain of iterator adapters: rev / take_while / filter / take / count); the Kani unit
    /// loopcount checks exactly this contract on the real function for stacks of <= 3-4 frames
    #[verifier::external_body]
    pub fn loop_count(&self, max_count: usize) -> (r: usize)
        ensures r as int == (if loops_in_context(self.inner@) < max_count as int { loops_in_context(self.inner@) } else { max_count as int })
    { unimplemented!() }
}
/// the loops that enclose the current command in the current execution environment, counted from the innermost frame
/// outwards up to the first frame that starts another context
pub open spec fn loops_in_context(frames: Seq<Frame>) -> int
    decreases frames.len()
{
    if frames.len() == 0 { 0 } else {
        match frames.last() {
            Frame::Loop => 1 + loops_in_context(frames.drop_last()),
            Frame::Condition => loops_in_context(frames.drop_last()),
            Frame::Builtin(_) => loops_in_context(frames.drop_last()),
            _ => 0,
        }
    }
}
/// NonZeroUsize::get (ASSUMED: the number, which is not zero)
pub struct NonZeroUsize { pub verif_n: usize }
impl NonZeroUsize {
    pub open spec fn value(&self) -> int { self.verif_n as int }
    #[verifier::external_body]
    pub fn get(self) -> (r: usize) ensures r as int == self.value(), r > 0 { unimplemented!() }
}
impl ExitStatus { pub const SUCCESS: ExitStatus = ExitStatus(0); }
