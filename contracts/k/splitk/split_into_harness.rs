//! Kani check of `split_into` (property C01), injected as a child module of yash-env/src/semantics/expansion/split.rs.
//! `split_into` cuts a field at the ranges `Ranges::next` yields, re-using the original vector for the last one
//! (truncate + drain).  Contract: the k-th resulting field consists of exactly the characters of the k-th range, in
//! order, and there are as many fields as ranges.  Checked on concrete inputs of <= 3 characters (bounded).
#![allow(dead_code, unused_imports)]
use super::*;
use crate::semantics::expansion::attr::{AttrChar, AttrField, Origin};
use crate::source::Location;

fn ch(value: char) -> AttrChar {
    AttrChar { value, origin: Origin::SoftExpansion, is_quoted: false, is_quoting: false }
}

fn check_split_into<const N: usize>(ifs_chars: &str, input: [char; N]) {
    let ifs = Ifs::new(ifs_chars);
    let mut chars = Vec::new();
    let mut i = 0;
    while i < N {
        chars.push(ch(input[i]));
        i += 1;
    }
    // the ranges, from the iterator the Verus unit `split` proves correct
    let mut expected = [(0usize, 0usize); 4];
    let mut n = 0;
    let mut ranges = ifs.ranges(chars.iter().copied());
    while let Some(r) = ranges.next() {
        expected[n] = (r.start, r.end);
        n += 1;
    }
    // a second handle on the location keeps its reference count above zero: when `split_into` drops the field (no
    // resulting field) only a counter is decremented instead of CBMC executing the drop glue of Rc<Code> -> Source
    let origin = Location::dummy("");
    let keep = origin.clone();
    let field = AttrField { chars, origin };
    let mut results: Vec<AttrField> = Vec::new();
    split_into(field, &ifs, &mut results);
    assert!(results.len() == n, "as many fields as ranges");
    let mut k = 0;
    while k < n {
        let (a, b) = expected[k];
        assert!(results[k].chars.len() == b - a, "the k-th field has the length of the k-th range");
        let mut j = 0;
        while j < b - a {
            assert!(results[k].chars[j].value == input[a + j], "the k-th field holds the characters of the k-th range, in order");
            j += 1;
        }
        k += 1;
    }
    std::mem::forget(results);
    std::mem::forget(keep);
}

#[kani::proof]
#[kani::unwind(8)]
fn c01q_split_into_two_fields() {
    check_split_into::<3>(" ", ['a', ' ', 'b']);
}

#[kani::proof]
#[kani::unwind(8)]
fn c01q_split_into_leading_separator() {
    check_split_into::<3>(";", [';', 'a', 'b']);
}

#[kani::proof]
#[kani::unwind(8)]
fn c01t_split_into_one_separator() {
    check_split_into::<1>(";", [';']);
}

#[kani::proof]
#[kani::unwind(8)]
fn c01q_split_into_two_separators() {
    check_split_into::<2>(";", [';', ';']);
}

#[kani::proof]
#[kani::unwind(8)]
fn c01q_split_into_white_space_only() {
    check_split_into::<2>(" ", [' ', ' ']);
}

#[kani::proof]
#[kani::unwind(8)]
fn c01q_split_into_empty_input() {
    check_split_into::<0>(" ", []);
}

#[kani::proof]
#[kani::unwind(8)]
fn c01t_split_into_three_fields() {
    check_split_into::<3>(";", ['a', ';', ';']);
}

// native replay of a Kani counterexample (bin/vcheck replay): the generated test is included here
#[cfg(verif_playback)]
include!("/verif/work/k/playback/splitk_split_into_harness.rs");
