# Unit exitbi: the `exit` built-in (kernel of property C02).
SEM = 'yash-env/src/semantics.rs'
BI = 'yash-env/src/builtin.rs'
EX = 'yash-builtin/src/exit.rs'
MOD_HEAD = '''    use vstd::prelude::*;
    use std::ops::ControlFlow::{self, Break};
    use std::ffi::c_int;
'''
OPS = 'args_operands(args@)'
GO = '(args_force(args@) || !old(env).verif_guard)'
UNIT = {
    'name': 'exitbi',
    'property': 'C02',
    'rlimit': 60,
    'verus_args': ['--edition=2024'],
    'vacuity_floor': 2,
    'items': [
        ('@raw', 'pub mod semantics { pub type Result<T = ()> = std::ops::ControlFlow<crate::eb::Divert, T>; }\npub use eb::builtin::Result;\n'),
        ('@raw', 'pub mod eb {\n' + MOD_HEAD),
        (SEM, ['struct ExitStatus']),
        (SEM, ['impl ExitStatus#1', 'const SUCCESS']), (SEM, ['impl ExitStatus#1', 'const FAILURE']), (SEM, ['impl ExitStatus#1', 'const ERROR']),
        (SEM, ['enum Divert']),
        ('@raw', 'pub mod builtin {\n    use super::*;\n'),
        (BI, ['struct Result'], {'pub_fields': True}),
        (BI, ['impl Result', 'fn new'], {'ret': 'r', 'ensures': ['r.exit_status == exit_status', 'r.divert == ControlFlow::<Divert, ()>::Continue(())']}),
        (BI, ['impl Result', 'fn with_exit_status_and_divert'], {'ret': 'r', 'ensures': ['r.exit_status == exit_status', 'r.divert == divert']}),
        ('@raw', '}\n    pub use builtin::Result;\n'),
        ('@file', 'prelude.rs'),
        (EX, ['fn main'], {'ret': 'r', 'rewrites': ['strip-async'],
            'token_rewrites': [
                ("options . iter ( ) . any ( | o | o . spec . get_short ( ) == Some ( 'f' ) )", "verif_any_short(&options, 'f')"),
                ('args . get ( 1 )', 'verif_get(&args, 1)'),
                ('args . first ( )', 'verif_get(&args, 0)'),
                ('arg . value . parse ( )', 'verif_parse_i32(&arg.value)'),
                # the let chain, nested by hand: `if !force && <one opaque test binding config> {` = `if !force { if let Some(config) = <test> {`
                ('if ! force && env . is_interactive ( ) && env . options . get ( PosixlyCorrect ) == Off && let Some ( config ) = env . any . get :: < SuspendedJobsGuardConfig > ( ) && env . jobs . iter ( ) . any ( | ( _ , job ) | job . state . is_stopped ( ) ) {',
                 'if !force { if let Some(config) = verif_suspended_jobs_guard(env) { let verif_message = verif_clone_message(config);'),
                ('env . system . print_error ( & config . message )', 'verif_print_message(env, &verif_message)'),
                ('Break ( Divert :: Interrupt ( None ) ) , ) ; }', 'Break(Divert::Interrupt(None)),); } }'),
            ],
            'ensures': [
                # `$?` is left alone by the built-in itself
                'final(env).exit_status == old(env).exit_status',
                # a well-formed call: the shell is to end, with the operand as its exit status; without an operand with `$?` as it
                # is, so the built-in\'s own status is the current `$?`
                'args_parse_ok(args@) && ' + GO + ' && ' + OPS + '.len() == 0 ==> r.divert == ControlFlow::<Divert, ()>::Break(Divert::Exit(None)) && r.exit_status == old(env).exit_status',
                'args_parse_ok(args@) && ' + GO + ' && ' + OPS + '.len() == 1 && (parsed(' + OPS + '[0].value) matches Ok(n) && n >= 0) ==> r.divert == ControlFlow::<Divert, ()>::Break(Divert::Exit(Some(ExitStatus(parsed(' + OPS + '[0].value)->Ok_0)))) && r.exit_status == old(env).exit_status',
                # an interactive shell with stopped jobs refuses (unless -f): an interrupt with a failure status, no exit
                'args_parse_ok(args@) && !' + GO + ' && (' + OPS + '.len() == 0 || (' + OPS + '.len() == 1 && (parsed(' + OPS + '[0].value) matches Ok(n) && n >= 0))) ==> r.divert == ControlFlow::<Divert, ()>::Break(Divert::Interrupt(None)) && r.exit_status == ExitStatus::FAILURE',
                # an Exit divert is asked for in no other case, and every malformed call is an error reported once
                'r.divert matches ControlFlow::Break(Divert::Exit(_)) ==> final(env).verif_errors@ == old(env).verif_errors@',
                'final(env).verif_errors@ <= old(env).verif_errors@ + 1',
                'final(env).verif_errors@ == old(env).verif_errors@ + 1 ==> error_result(r)',
                '!args_parse_ok(args@) ==> final(env).verif_errors@ == old(env).verif_errors@ + 1',
                'args_parse_ok(args@) && ' + OPS + '.len() == 1 && !(parsed(' + OPS + '[0].value) matches Ok(n) && n >= 0) ==> final(env).verif_errors@ == old(env).verif_errors@ + 1',
                'args_parse_ok(args@) && ' + OPS + '.len() > 1 ==> final(env).verif_errors@ == old(env).verif_errors@ + 1',
            ]}),
        ('@raw', '}\n'),
    ],
}
