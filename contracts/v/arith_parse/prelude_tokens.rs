// ---------------------------------------------------------------------------
// Model of the token source (unit arith_parse).  `PeekableTokens` wraps the tokenizer, which works on
// `&str` slices and is outside Verus's string support; the parser only uses `next` and `peek`.
// The struct is opaque and the two methods are DECLARED here (bodies not included) with an assumed
// contract over the finite sequence of tokenization results still to come: everything up to and
// including the first end marker (EndOfInput or a tokenization error), which is delivered again and
// again once reached, as the real tokenizer does.
// ---------------------------------------------------------------------------
#[verifier::external_body]
pub struct PeekableTokens<'a> { _p: core::marker::PhantomData<&'a str> }

pub type TokSeq<'a> = Seq<Result<Token<'a>, Error>>;

pub uninterp spec fn rest<'a>(t: &PeekableTokens<'a>) -> TokSeq<'a>;

pub open spec fn is_end(r: Result<Token, Error>) -> bool {
    r is Err || r->Ok_0.value is EndOfInput
}

/// non-empty, ends with the end marker, no end marker before
pub open spec fn wf_stream(s: TokSeq) -> bool {
    s.len() >= 1 && is_end(s.last()) && (forall|k: int| 0 <= k < s.len() - 1 ==> !is_end(#[trigger] s[k]))
}

impl<'a> PeekableTokens<'a> {
    /// Consumes and returns the next token.
    #[verifier::external_body]
    pub fn next(&mut self) -> (r: Result<Token<'a>, Error>)
        requires wf_stream(rest(old(self))),
        ensures
            r == rest(old(self))[0],
            wf_stream(rest(final(self))),
            !is_end(r) ==> rest(final(self)) == rest(old(self)).drop_first(),
            is_end(r) ==> rest(final(self)) == rest(old(self)),
    {
        unimplemented!()
    }

    /// Returns the next token without consuming it.
    #[verifier::external_body]
    pub fn peek(&mut self) -> (r: &Result<Token<'a>, Error>)
        requires wf_stream(rest(old(self))),
        ensures
            *r == rest(old(self))[0],
            rest(final(self)) == rest(old(self)),
    {
        unimplemented!()
    }
}

// derived PartialEq (assumed structural)
impl vstd::std_specs::cmp::PartialEqSpecImpl for Operator {
    open spec fn obeys_eq_spec() -> bool { true }
    open spec fn eq_spec(&self, other: &Operator) -> bool { *self == *other }
}
impl<'a> vstd::std_specs::cmp::PartialEqSpecImpl for TokenValue<'a> {
    open spec fn obeys_eq_spec() -> bool { true }
    open spec fn eq_spec(&self, other: &TokenValue<'a>) -> bool { *self == *other }
}
