AST = 'yash-fnmatch/src/ast.rs'
PARSE = 'yash-fnmatch/src/ast/parse.rs'
CI = 'yash-fnmatch/src/char_iter.rs'
MOD_HEAD = '''    use vstd::prelude::*;
    use std::ops::RangeInclusive;
    use vstd::std_specs::iter::IteratorSpec;
'''
UNIT = {
    'name': 'fnparse',
    'property': 'C04',
    'rlimit': 60,
    'verus_args': ['--edition=2024'],
    'controls': 'auto',
    'items': [
        ('@raw', 'pub mod itax {\n' + MOD_HEAD),
        ('@file', 'prelude_iter.rs'),
        ('@raw', '}\n'),
        ('@raw', 'pub mod fp {\n' + MOD_HEAD),
        ('@broadcast', ['super::itax::axiom_iter_clone', 'super::itax::axiom_into_atom_id', 'super::itax::axiom_string_of_view', 'super::itax::axiom_string_of_inv']),
        (CI, ['enum PatternChar']),
        ('@raw', 'use PatternChar::*;\n'),
        (CI, ['impl PatternChar', 'fn char_value'], {'ret': 'r', 'ensures': ['r == self.char_value_spec()']}),
        (AST, ['enum BracketAtom']),
        (AST, ['enum BracketItem']),
        (AST, ['struct Bracket']),
        (AST, ['enum Atom']),
        ('@file', 'prelude.rs'),
        ('@file', 'prelude_ref.rs'),
        (AST, ['impl<T: Into<BracketAtom>> From<T> for BracketItem', 'fn from'], {'attrs': ['#[verifier::external_body]']}),
        (PARSE, ['fn make_range'], {'rewrites': ['let-chain-last'], 'ensures': [
            '!folds(old(items)@) ==> final(items)@ == old(items)@',
            'folds(old(items)@) ==> final(items)@.len() == old(items)@.len() - 2 && final(items)@.subrange(0, old(items)@.len() - 3) == old(items)@.subrange(0, old(items)@.len() - 3)',
            'folds(old(items)@) ==> final(items)@.last() is Range && final(items)@.last()->Range_0@.start == old(items)@[old(items)@.len() - 3]->Atom_0 && final(items)@.last()->Range_0@.end == old(items)@[old(items)@.len() - 1]->Atom_0',
            # the same, on the abstract items used by the reference parser
            'abs_items(final(items)@) =~= fold3(abs_items(old(items)@))',
        ]}),
        # inner expressions `[.x.]` `[=x=]` `[:x:]`: the three scanning loops against the reference definition
        # (the first `d]` ends the expression; the content is taken literally)
        (PARSE, ['impl BracketAtom', 'fn parse_inner'], {'ret': 'r',
            'attrs': ['#[verifier::loop_isolation(false)]', '#[verifier::allow_complex_invariants]'],
            'entry_snapshots': ['i'],
            'token_rewrites': [('value . into_iter ( ) . map ( PatternChar :: char_value ) . collect ( )', 'verif_collect_chars(value)', 3)],
            'ghost_before': [
                ('value . truncate (', 'let ghost verif_full = value@; proof { let w = verif_full.subrange(verif_full.len() - 2, verif_full.len() as int); assert(w[0] == verif_full[verif_full.len() - 2]); assert(w[1] == verif_full[verif_full.len() - 1]); assert(verif_full =~= verif_entry_i.remaining().skip(1).subrange(0, verif_full.len() as int)); }', 3),
                ('return Some ( ( BracketAtom :: CollatingSymbol (', 'proof { lemma_inner_found(verif_entry_i.remaining(), verif_full, value@); }'),
                ('return Some ( ( BracketAtom :: EquivalenceClass (', 'proof { lemma_inner_found(verif_entry_i.remaining(), verif_full, value@); }'),
                ('return Some ( ( BracketAtom :: CharClass (', 'proof { lemma_inner_found(verif_entry_i.remaining(), verif_full, class@); }'),
            ],
            'requires': ['i.obeys_prophetic_iter_laws()', 'i.decrease() is Some'],
            'ensures': [
                'r is None ==> ref_inner(i.remaining()) is None',
                'r is Some ==> r->Some_0.1.obeys_prophetic_iter_laws() && r->Some_0.1.decrease() is Some && r->Some_0.1.decrease()->0 <= i.decrease()->0',
                'r is Some ==> exists|n: int| #![trigger i.remaining().skip(n)] 0 < n <= i.remaining().len() && ref_inner(i.remaining()) == Some((r->Some_0.0, n)) && r->Some_0.1.remaining() == i.remaining().skip(n)',
                'r is Some ==> !(r->Some_0.0 is Char)',
            ],
            'loops': {0: {
                'ensures': ['forall|j: int| !closes_at(verif_entry_i.remaining().skip(1), \'.\', j)'],
                'invariant_except_break': [
                    'i.obeys_prophetic_iter_laws()',
                    'i.decrease() is Some',
                    'verif_entry_i.remaining().len() > 0',
                    # what has been collected is the beginning of what follows the delimiter, the iterator stands right after it,
                    # and no pair `d]` lies within it
                    'value@.len() <= verif_entry_i.remaining().len() - 1',
                    'value@ == verif_entry_i.remaining().skip(1).subrange(0, value@.len() as int)',
                    'i.remaining() == verif_entry_i.remaining().skip(1 + value@.len() as int)',
                    'forall|j: int| 0 <= j && j + 1 < value@.len() ==> !closes_at(verif_entry_i.remaining().skip(1), \'.\', j)',
                    'i.decrease()->0 <= verif_entry_i.decrease()->0',
                ],
                'decreases': ['i.decrease()->0'],
            }, 1: {
                'ensures': ['forall|j: int| !closes_at(verif_entry_i.remaining().skip(1), \'=\', j)'],
                'invariant_except_break': [
                    'i.obeys_prophetic_iter_laws()',
                    'i.decrease() is Some',
                    'verif_entry_i.remaining().len() > 0',
                    # what has been collected is the beginning of what follows the delimiter, the iterator stands right after it,
                    # and no pair `d]` lies within it
                    'value@.len() <= verif_entry_i.remaining().len() - 1',
                    'value@ == verif_entry_i.remaining().skip(1).subrange(0, value@.len() as int)',
                    'i.remaining() == verif_entry_i.remaining().skip(1 + value@.len() as int)',
                    'forall|j: int| 0 <= j && j + 1 < value@.len() ==> !closes_at(verif_entry_i.remaining().skip(1), \'=\', j)',
                    'i.decrease()->0 <= verif_entry_i.decrease()->0',
                ],
                'decreases': ['i.decrease()->0'],
            }, 2: {
                'ensures': ['forall|j: int| !closes_at(verif_entry_i.remaining().skip(1), \':\', j)'],
                'invariant_except_break': [
                    'i.obeys_prophetic_iter_laws()',
                    'i.decrease() is Some',
                    'verif_entry_i.remaining().len() > 0',
                    # what has been collected is the beginning of what follows the delimiter, the iterator stands right after it,
                    # and no pair `d]` lies within it
                    'value@.len() <= verif_entry_i.remaining().len() - 1',
                    'value@ == verif_entry_i.remaining().skip(1).subrange(0, value@.len() as int)',
                    'i.remaining() == verif_entry_i.remaining().skip(1 + value@.len() as int)',
                    'forall|j: int| 0 <= j && j + 1 < value@.len() ==> !closes_at(verif_entry_i.remaining().skip(1), \':\', j)',
                    'i.decrease()->0 <= verif_entry_i.decrease()->0',
                ],
                'decreases': ['i.decrease()->0'],
            }},
        }),
        (PARSE, ['impl Bracket', 'fn parse'], {'ret': 'r',
            'attrs': ['#[verifier::loop_isolation(false)]', '#[verifier::allow_complex_invariants]'],
            'rewrites': ['or-pattern-guard-split'],
            'entry_snapshots': ['i'],
            'needs': ['let mut quoted_hyphen = false ;'],
            'requires': ['i.obeys_prophetic_iter_laws()', 'i.decrease() is Some'],
            'ensures': [
                # the real parser agrees with the reference parser on every sequence of pattern characters
                'r is None <==> ref_bracket(i.remaining(), rinit()) is None',
                'r is Some ==> ({ let (st, rest) = ref_bracket(i.remaining(), rinit())->Some_0; r->Some_0.0.complement == st.complement && abs_items(r->Some_0.0.items@) =~= st.items && r->Some_0.1.remaining() == rest })',
                'r is Some ==> r->Some_0.1.obeys_prophetic_iter_laws() && r->Some_0.1.decrease() is Some && r->Some_0.1.decrease()->0 < i.decrease()->0',
                'r is Some ==> r->Some_0.1.remaining().len() < i.remaining().len()',
            ],
            'loops': {0: {
                # the `while let` leaves through an implicit break when the characters run out: unclosed bracket
                'ensures': ['ref_bracket(verif_entry_i.remaining(), rinit()) is None'],
                'invariant_except_break': [
                    'i.obeys_prophetic_iter_laws()',
                    'i.decrease() is Some',
                    # the reference parser, started where the real one is now with the state the real one holds, gives the final answer
                    'ref_bracket(i.remaining(), st_of(bracket.complement, bracket.items@, quoted_hyphen)) == ref_bracket(verif_entry_i.remaining(), rinit())',
                    'i.decrease()->0 <= verif_entry_i.decrease()->0',
                    'i.remaining().len() <= verif_entry_i.remaining().len()',
                ],
                'decreases': ['i.decrease()->0'],
                'body_start': 'let ghost verif_items0 = bracket.items@; let ghost verif_c0 = bracket.complement; let ghost verif_q0 = quoted_hyphen;',
                'body_end': 'proof { lemma_member_all(verif_c0, verif_items0, verif_q0, pc == PatternChar::Normal(\'-\'), quoted_hyphen, bracket.items@); }',
            }},
            # Alternative annotation set for a parser that keeps no "last item is a quoted hyphen" flag (the code before
            # the fix of finding F2): same contract, the invariant says the flag is always false.  On such code the
            # invariant cannot be re-established after a quoted hyphen, which is finding F2.
            'alt': [{
                # applies only when make_range is called unconditionally right after the match (a parser whose flag merely has
                # another name must not fall into this set: it would be judged against the wrong invariant)
                'needs': ['} make_range ( & mut bracket . items ) ;'],
                'loops': {0: {
                    'ensures': ['ref_bracket(verif_entry_i.remaining(), rinit()) is None'],
                    'invariant_except_break': [
                        'i.obeys_prophetic_iter_laws()',
                        'i.decrease() is Some',
                        'ref_bracket(i.remaining(), st_of(bracket.complement, bracket.items@, false)) == ref_bracket(verif_entry_i.remaining(), rinit())',
                        'i.decrease()->0 <= verif_entry_i.decrease()->0',
                    'i.remaining().len() <= verif_entry_i.remaining().len()',
                    ],
                    'decreases': ['i.decrease()->0'],
                    'body_start': 'let ghost verif_items0 = bracket.items@; let ghost verif_c0 = bracket.complement;',
                    'body_end': 'proof { lemma_member_all(verif_c0, verif_items0, false, pc == PatternChar::Normal(\'-\'), false, bracket.items@); }',
                }},
            }],
        }),
        (PARSE, ['impl Atom', 'fn parse'], {'ret': 'r',
            'requires': ['i.obeys_prophetic_iter_laws()', 'i.decrease() is Some'],
            'ensures': [
                'r is None <==> ref_atom(i.remaining()) is None',
                'r is Some ==> atom_is(r->Some_0.0, ref_atom(i.remaining())->Some_0.0) && r->Some_0.1.remaining() == ref_atom(i.remaining())->Some_0.1',
                'r is Some ==> r->Some_0.1.obeys_prophetic_iter_laws() && r->Some_0.1.decrease() is Some && r->Some_0.1.decrease()->0 < i.decrease()->0',
                'r is Some ==> r->Some_0.1.remaining().len() < i.remaining().len()',
            ],
            'closures': {0: {'rewrite': 'option-map-to-match'}}}),
        (AST, ['struct Ast'], {'drop_derives': True}),
        # the nested fn of Ast::new (Ast::new itself only converts its argument with into_iter); checked as an associated fn
        (AST, ['impl Ast', 'fn new', 'fn inner'], {'ret': 'r', 'wrapper': 'impl Ast',
            'attrs': ['#[verifier::loop_isolation(false)]', '#[verifier::allow_complex_invariants]'],
            'entry_snapshots': ['i'],
            'requires': ['i.obeys_prophetic_iter_laws()', 'i.decrease() is Some'],
            'ensures': ['atoms_are(r.atoms@, ref_atoms(i.remaining()))'],
            'loops': {0: {
                'ensures': ['atoms_are(atoms@, ref_atoms(verif_entry_i.remaining()))'],
                'invariant_except_break': [
                    'i.obeys_prophetic_iter_laws()',
                    'i.decrease() is Some',
                    # what has been parsed so far is the beginning of the reference answer, and the reference parser makes
                    # the rest of the answer out of the rest of the input
                    'atoms@.len() <= ref_atoms(verif_entry_i.remaining()).len()',
                    'forall|k: int| 0 <= k < atoms@.len() ==> atom_is(#[trigger] atoms@[k], ref_atoms(verif_entry_i.remaining())[k])',
                    'ref_atoms(verif_entry_i.remaining()).skip(atoms@.len() as int) =~= ref_atoms(i.remaining())',
                ],
                'body_end': 'proof { let ea = ref_atoms(verif_entry_i.remaining()); let n = atoms@.len() - 1; assert(ea.skip(n + 1) =~= ea.skip(n).skip(1)); assert(ea[n] == ea.skip(n)[0]); }',
                'decreases': ['i.decrease()->0'],
            }},
        }),
        ('@raw', '}\n'),
    ],
}
