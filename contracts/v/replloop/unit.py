# Unit replloop: the read-eval loop (kernel shared by C18 and C10).
RN = 'yash-semantics/src/runner.rs'
SEM = 'yash-env/src/semantics.rs'
MOD_HEAD = '''    use vstd::prelude::*;
    use std::ops::ControlFlow::{self, Break, Continue};
    use std::ffi::c_int;
'''
M0 = 'old(env).mon@'
M1 = 'final(env).mon@'
REFCELL = [('env : & RefCell < & mut Env < S > >', 'env: &mut Env<S>')]
POST = [
    # every call happened in turn: a line is parsed only when the previous command (or error) is over and let the shell go on,
    # in the mode the current options give; a command runs only right after it was parsed, once
    '!' + M1 + '.wrong',
    # the loop ends at the end of input ...
    'r is Continue ==> ' + M1 + '.last is ParsedEof',
    # ... or at the first divert, handed on unchanged; an interactive shell does not end on an interrupt it may recover from
    'r is Break ==> (' + M1 + '.last matches Last::Done { result, recoverable } && result == r && !(' + M1 + '.interactive && recoverable && r matches ControlFlow::Break(Divert::Interrupt(_))))',
    # nothing but the end of input was ever read: status 0
    'r is Continue && ' + M1 + '.parses == ' + M0 + '.parses + 1 ==> final(env).exit_status == ExitStatus(0)',
]
UNIT = {
    'name': 'replloop',
    'property': 'C18',
    'rlimit': 80,
    'verus_args': ['--edition=2024'],
    'controls': 'auto',
    'vacuity_floor': 3,
    'items': [
        ('@raw', 'pub mod semantics { pub type Result<T = ()> = std::ops::ControlFlow<crate::rl::Divert, T>; }\n'),
        ('@raw', 'pub mod rl {\n' + MOD_HEAD + '    pub use crate::semantics::Result;\n'),
        (SEM, ['struct ExitStatus']),
        (SEM, ['impl ExitStatus#1', 'const SUCCESS']),
        (SEM, ['enum Divert']),
        ('@file', 'prelude.rs'),
        (RN, ['fn read_eval_loop_impl'], {'ret': 'r', 'rewrites': ['strip-async'],
            'attrs': ['#[verifier::loop_isolation(false)]', '#[verifier::allow_complex_invariants]', '#[verifier::exec_allows_no_decreases_clause]'],
            'sig_token_rewrites': REFCELL,
            'token_rewrites': [
                ('env . borrow ( ) . options', 'env.options'),
                ('Parser :: config ( ) . aliases ( env ) . declaration_utilities ( env ) . input ( lexer ) . command_line ( )', 'verif_command_line(env, lexer)'),
                ('let env = & mut * * env . borrow_mut ( ) ;', '/* env.borrow_mut(): the reference itself */'),
            ],
            'requires': [M0 + '.last is Start', '!' + M0 + '.wrong', M0 + '.interactive == is_interactive'],
            'ensures': POST,
            'loops': {0: {'invariant': [
                '!env.mon@.wrong', 'env.mon@.interactive == is_interactive', 'env.mon@.parses >= ' + M0 + '.parses',
                # the previous round is over and lets the shell go on
                'env.mon@.last is Start || (env.mon@.last matches Last::Done { result, recoverable } && (result is Continue || (is_interactive && recoverable && lexer.verif_flushed@ && (result matches ControlFlow::Break(Divert::Interrupt(st)) && (st matches Some(s) ==> env.exit_status == s)))))',
                'executed == (env.mon@.parses > ' + M0 + '.parses)',
            ]}}}),
        (RN, ['fn read_eval_loop'], {'ret': 'r', 'rewrites': ['strip-async'], 'sig_token_rewrites': REFCELL,
            'requires': [M0 + '.last is Start', '!' + M0 + '.wrong', '!' + M0 + '.interactive'],
            'ensures': POST + [
                # C10: a non-interactive shell ends on every divert, an interrupt (syntax error, expansion error ...) included
                '(' + M1 + '.last matches Last::Done { result, recoverable } && result is Break) ==> r is Break']}),
        (RN, ['fn interactive_read_eval_loop'], {'ret': 'r', 'rewrites': ['strip-async'], 'sig_token_rewrites': REFCELL,
            'requires': [M0 + '.last is Start', '!' + M0 + '.wrong', M0 + '.interactive'],
            'ensures': POST}),
        ('@raw', '}\n'),
    ],
}
