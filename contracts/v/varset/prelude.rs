// ---------------------------------------------------------------------------
// Prelude of unit varset (specification): abstract view of VariableSet and the scoping statement of
// property C16, written from the property and the module documentation, not from the function bodies.
//
//   view:  contexts  = sequence of Regular/Volatile contexts, base context first
//          stack(n)  = for each name, the variables defined for it, one per context that defines it
//   naive model ("stack of maps"): context i defines n  <=>  some entry of stack(n) has context_index == i
//   lookup(n) = the definition in the innermost (highest) context that defines n
// ---------------------------------------------------------------------------

pub open spec fn sorted(st: Seq<VariableInContext>, n: int) -> bool {
    &&& forall|i: int, j: int| 0 <= i < j < st.len() ==> st[i].context_index < st[j].context_index
    &&& forall|i: int| 0 <= i < st.len() ==> (#[trigger] st[i]).context_index < n
}

/// `i` is the topmost regular context: regular, with only volatile contexts above it
pub open spec fn is_top_regular(cs: Seq<Context>, i: int) -> bool {
    &&& 0 <= i < cs.len()
    &&& cs[i] is Regular
    &&& forall|j: int| i < j < cs.len() ==> cs[j] is Volatile
}
/// index of the topmost regular context (-1 if there is none)
pub open spec fn top_regular(cs: Seq<Context>) -> int {
    if exists|i: int| is_top_regular(cs, i) { choose|i: int| is_top_regular(cs, i) } else { -1 }
}

/// the topmost regular context is unique
pub broadcast proof fn lemma_top_unique(cs: Seq<Context>, i: int)
    requires #[trigger] is_top_regular(cs, i),
    ensures top_regular(cs) == i,
{
    let k = choose|k: int| is_top_regular(cs, k);
    assert(is_top_regular(cs, k));
    if k < i { assert(cs[i] is Volatile); }
    if i < k { assert(cs[k] is Volatile); }
}

/// first context a scope reaches down to (module documentation of `Scope`)
pub open spec fn scope_index(scope: Scope, cs: Seq<Context>) -> int {
    match scope {
        Scope::Global => 0,
        Scope::Local => top_regular(cs),
        Scope::Volatile => top_regular(cs) + 1,
    }
}

/// context in which `get_or_new` creates a variable that does not exist within the reach of the scope
pub open spec fn target_index(scope: Scope, cs: Seq<Context>) -> int {
    match scope {
        Scope::Global => 0,
        Scope::Local => top_regular(cs),
        Scope::Volatile => cs.len() - 1,
    }
}

pub proof fn lemma_top_regular(cs: Seq<Context>)
    requires cs.len() > 0, cs[0] is Regular,
    ensures is_top_regular(cs, top_regular(cs)),
{
    lemma_top_exists(cs, cs.len() as int);
    let i = choose|i: int| 0 <= i < cs.len() && cs[i] is Regular && forall|j: int| i < j < cs.len() ==> cs[j] is Volatile;
    assert(is_top_regular(cs, i));
}
/// there is a topmost regular context among the first `n` contexts (induction on `n`)
proof fn lemma_top_exists(cs: Seq<Context>, n: int)
    requires 1 <= n <= cs.len(), cs[0] is Regular,
    ensures exists|i: int| 0 <= i < n && cs[i] is Regular && forall|j: int| i < j < n ==> cs[j] is Volatile,
    decreases n
{
    if n == 1 {
        assert(cs[0] is Regular && forall|j: int| 0 < j < 1 ==> cs[j] is Volatile);
    } else if cs[n - 1] is Regular {
        assert(cs[n - 1] is Regular && forall|j: int| n - 1 < j < n ==> cs[j] is Volatile);
    } else {
        lemma_top_exists(cs, n - 1);
        let i = choose|i: int| 0 <= i < n - 1 && cs[i] is Regular && forall|j: int| i < j < n - 1 ==> cs[j] is Volatile;
        assert(cs[i] is Regular && forall|j: int| i < j < n ==> cs[j] is Volatile);
    }
}

impl VariableSet {
    pub open spec fn ctxs(&self) -> Seq<Context> { self.contexts@ }
    pub open spec fn has(&self, name: String) -> bool { self.all_variables@.contains_key(name) }
    pub open spec fn stack(&self, name: String) -> Seq<VariableInContext> {
        if self.has(name) { self.all_variables@[name]@ } else { Seq::empty() }
    }
    /// representation invariant (the module's own `assert_normalized`, plus the base context)
    pub open spec fn wf(&self) -> bool {
        &&& self.ctxs().len() >= 1
        &&& self.ctxs()[0] is Regular
        &&& forall|name: String| self.all_variables@.contains_key(name) ==> sorted((#[trigger] self.all_variables@[name])@, self.ctxs().len() as int)
    }
    /// the variable a plain look-up sees
    pub open spec fn visible(&self, name: String) -> Option<Variable> {
        if self.stack(name).len() > 0 { Some(self.stack(name).last().variable) } else { None }
    }
    /// naive model: the definition of `name` in context `i`, if that context defines it
    pub open spec fn defined_in(&self, name: String, i: int) -> Option<Variable> {
        if exists|k: int| 0 <= k < self.stack(name).len() && self.stack(name)[k].context_index == i {
            let k = choose|k: int| 0 <= k < self.stack(name).len() && self.stack(name)[k].context_index == i;
            Some(self.stack(name)[k].variable)
        } else { None }
    }
    /// everything but the stack of `name` is the same in `self` and `o`
    pub open spec fn same_but(&self, o: &VariableSet, name: String) -> bool {
        &&& self.ctxs() == o.ctxs()
        &&& forall|n: String| n != name ==> #[trigger] self.stack(n) == o.stack(n)
    }
}

/// "looking up a variable returns the value from the innermost visible scope": the visible variable is the
/// definition in the highest context that defines the name, in the naive model.
pub proof fn lemma_visible_is_innermost(s: &VariableSet, name: String)
    requires s.wf(), s.stack(name).len() > 0,
    ensures
        s.defined_in(name, s.stack(name).last().context_index as int) == s.visible(name),
        forall|i: int| i > s.stack(name).last().context_index ==> s.defined_in(name, i) is None,
{
    let st = s.stack(name);
    assert(sorted(st, s.ctxs().len() as int));
    let top = st.last().context_index as int;
    assert(st[st.len() - 1].context_index == top);
    let k = choose|k: int| 0 <= k < st.len() && st[k].context_index == top;
    assert(k == st.len() - 1) by { if k < st.len() - 1 { assert(st[k].context_index < st[st.len() - 1].context_index); } }
}

/// outcome of a successful `unset` on the stack `st0` of one name, for the scope reaching down to context `c`:
/// exactly the definitions in contexts >= c are removed, none of them read-only; the topmost one is returned
pub open spec fn unset_ok(st0: Seq<VariableInContext>, st1: Seq<VariableInContext>, c: int, removed: Option<Variable>) -> bool {
    &&& st1.len() <= st0.len()
    &&& st1 =~= st0.subrange(0, st1.len() as int)
    &&& forall|i: int| 0 <= i < st1.len() ==> (#[trigger] st1[i]).context_index < c
    &&& forall|j: int| 0 <= j < st0.len() - st1.len() ==> (#[trigger] st0.subrange(st1.len() as int, st0.len() as int)[j]).context_index >= c
    &&& forall|j: int| 0 <= j < st0.len() - st1.len() ==> (#[trigger] st0.subrange(st1.len() as int, st0.len() as int)[j]).variable.read_only_location is None
    &&& removed == (if st1.len() < st0.len() { Some(st0.last().variable) } else { None::<Variable> })
}
/// outcome of `unset` on the stack of the name, success or failure ("a read-only variable is never ... unset
/// by any means": failure removes nothing and names a read-only definition that stood in the way)
pub open spec fn unset_outcome<'a>(st0: Seq<VariableInContext>, st1: Seq<VariableInContext>, c: int, r: Result<Option<Variable>, UnsetError<'a>>) -> bool {
    match r {
        Ok(v) => unset_ok(st0, st1, c, v),
        Err(e) => st1 == st0 && exists|i: int| 0 <= i < st0.len() && (#[trigger] st0[i]).context_index >= c && st0[i].variable.read_only_location == Some(*e.read_only_location),
    }
}
/// contract of `unset` over the map of stacks
pub open spec fn unset_post<'a>(m0: Map<String, Vec<VariableInContext>>, m1: Map<String, Vec<VariableInContext>>, name: &str, c: int, r: Result<Option<Variable>, UnsetError<'a>>) -> bool {
    ||| ((forall|kk: String| #[trigger] m0.contains_key(kk) ==> !key_borrows(kk, name)) && m1 == m0 && r == Ok::<Option<Variable>, UnsetError<'a>>(None))
    ||| exists|kk: String| #![trigger key_borrows(kk, name)] key_borrows(kk, name) && m0.contains_key(kk) && m1.contains_key(kk)
            && m1 =~= m0.insert(kk, m1[kk]) && unset_outcome(m0[kk]@, m1[kk]@, c, r)
}

/// the C string `c` was built from the name and the current value of a VISIBLE variable that is exported
pub open spec fn env_entry_ok(m: Map<String, Vec<VariableInContext>>, c: std::ffi::CString) -> bool {
    exists|n: String| #![trigger m.contains_key(n)] m.contains_key(n) && m[n]@.len() > 0 && m[n]@.last().variable.is_exported
        && cstr_name(c) == n@ && m[n]@.last().variable.value == Some(cstr_value(c))
}

/// the stack of a name shows a variable to a scope that reaches down to context `min`: its visible (topmost)
/// definition lies in context `min` or above
pub open spec fn shown(st: Vec<VariableInContext>, min: usize) -> bool {
    st@.len() > 0 && st@.last().context_index >= min
}

/// a stack after the contexts `n`, `n+1`, ... have been popped: a sorted stack loses at most its top entry
pub open spec fn popped(st: Seq<VariableInContext>, n: int) -> Seq<VariableInContext> {
    if st.len() > 0 && st.last().context_index >= n { st.drop_last() } else { st }
}

/// the part of a stack below context `ci`
pub open spec fn below(st: Seq<VariableInContext>, ci: int) -> Seq<VariableInContext> {
    st.filter(|e: VariableInContext| e.context_index < ci)
}
/// number of entries of a sorted stack that lie below context `ci`
pub open spec fn count_below(st: Seq<VariableInContext>, ci: int) -> int
    decreases st.len()
{
    if st.len() == 0 { 0 } else if st.last().context_index < ci { st.len() as int } else { count_below(st.drop_last(), ci) }
}
pub proof fn lemma_count_below(st: Seq<VariableInContext>, ci: int, n: int)
    requires sorted(st, n),
    ensures
        0 <= count_below(st, ci) <= st.len(),
        forall|i: int| 0 <= i < count_below(st, ci) ==> (#[trigger] st[i]).context_index < ci,
        forall|i: int| count_below(st, ci) <= i < st.len() ==> (#[trigger] st[i]).context_index >= ci,
    decreases st.len()
{
    if st.len() > 0 && !(st.last().context_index < ci) {
        let d = st.drop_last();
        assert(sorted(d, n)) by {
            assert forall|i: int, j: int| 0 <= i < j < d.len() implies d[i].context_index < d[j].context_index by { assert(d[i] == st[i] && d[j] == st[j]); }
            assert forall|i: int| 0 <= i < d.len() implies (#[trigger] d[i]).context_index < n by { assert(d[i] == st[i]); }
        }
        lemma_count_below(d, ci, n);
        assert forall|i: int| 0 <= i < count_below(st, ci) implies (#[trigger] st[i]).context_index < ci by { assert(d[i] == st[i]); }
        assert forall|i: int| count_below(st, ci) <= i < st.len() implies (#[trigger] st[i]).context_index >= ci by { if i < d.len() { assert(d[i] == st[i]); } }
    } else if st.len() > 0 {
        assert forall|i: int| 0 <= i < st.len() implies (#[trigger] st[i]).context_index < ci by { if i < st.len() - 1 { assert(st[i].context_index < st[st.len() - 1].context_index); } }
    }
}

impl<'a> vstd::std_specs::convert::FromSpecImpl<&'a mut Variable> for VariableRefMut<'a> {
    open spec fn obeys_from_spec() -> bool { false }
    open spec fn from_spec(v: &'a mut Variable) -> Self { VariableRefMut(v) }
}

// derived PartialEq of Context (ASSUMED structural: `#[derive(PartialEq)]`)
impl vstd::std_specs::cmp::PartialEqSpecImpl for Context {
    open spec fn obeys_eq_spec() -> bool { true }
    open spec fn eq_spec(&self, other: &Context) -> bool { *self == *other }
}
