UNIT = {
    'name': 'quote',
    'property': 'C07',
    'crate': 'yash-quote',
    'cfg': [],
    'inject': [('yash-quote/src/lib.rs', 'quote_harness.rs'), ('yash-quote/src/lib.rs', 'forms_harness.rs')],
    'anchors': [
        ('yash-quote/src/lib.rs', r'fn char_needs_quoting\(c: char\) -> bool'),
        ('yash-quote/src/lib.rs', r'fn str_needs_quoting\(s: &str\) -> bool'),
    ],
    'functions': [
        {'file': 'yash-quote/src/lib.rs', 'item': 'char_needs_quoting (every char)'},
        {'file': 'yash-quote/src/lib.rs', 'item': 'quoted() + Display for Quoted + str_needs_quoting: every text of <= 2 characters over 16 characters and ten 3-character texts, output compared with the literal expected form (123 texts quick, 283 thorough)'},
    ],
    'harnesses': {'quick': ['c07q_', 'c07x_'], 'thorough': ['c07t_']},
    'min_harnesses': {'quick': 10, 'thorough': 18},
    'control_re': r'^c07x_',
    'complete_re': r'^c07q_char_needs_quoting',
    'bound': 'char_needs_quoting: complete over every char; quoted form: every text of <= 2 characters over a # ~ : { } [ ] \' " ` $ \\ <space> = * and ten texts of 3 characters (first 113 + 10 quick, all thorough), concrete enumeration with literal expectations',
    'jobs': {'quick': 4, 'thorough': 6},
    'harness_timeout': '1200s',
    'timeout_s': {'quick': 1500, 'thorough': 3000},
    'assumptions': [
        'the always-quote set in contracts/k/quote/quote_harness.rs is my reading of XCU 2.2 plus yash\'s Unicode blanks',
        'the expected quoted forms and the reference un-quoter that validates them are in tools/gen_quote.py (my reading of XCU 2.2); the real lexer is not run on the output',
    ],
}
