# Unit waitcore: the waiting step of the wait built-in (kernel shared by C11 and C13).
WC = 'yash-builtin/src/wait/core.rs'
SEM = 'yash-env/src/semantics.rs'
MOD_HEAD = '''    use vstd::prelude::*;
    use std::ops::ControlFlow::{self, Break};
    use std::ffi::c_int;
'''
L0 = 'old(env).log@'
L1 = 'final(env).log@'
N0 = L0 + '.len() as int'
UNIT = {
    'name': 'waitcore',
    'property': 'C11',
    'rlimit': 80,
    'verus_args': ['--edition=2024'],
    'vacuity_floor': 1,
    'items': [
        ('@raw', 'pub mod wc {\n' + MOD_HEAD),
        ('yash-env/src/system/errno.rs', ['type RawErrno']),
        ('yash-env/src/system/errno.rs', ['struct Errno']),
        (SEM, ['struct ExitStatus']),
        (SEM, ['impl ExitStatus#1', 'const NOT_FOUND']),
        (SEM, ['enum Divert']),
        ('@file', 'prelude.rs'),
        (WC, ['enum Error'], {}),
        (WC, ['fn wait_for_any_job_or_trap'], {'ret': 'r', 'rewrites': ['strip-async'],
            'attrs': ['#[verifier::loop_isolation(false)]', '#[verifier::exec_allows_no_decreases_clause]'],
            'token_rewrites': [
                ('let RunSignalTrapIfCaught ( run_trap_if_caught ) = * env . any . get ( ) . expect ( "`RunSignalTrapIfCaught` should be in `env.any`" ) ;', '/* the trap runner taken from env.any: the opaque call run_trap_if_caught */'),
                ('env . traps . enable_internal_disposition_for_sigchld ( & env . system )', 'verif_enable_sigchld(env)'),
                ('env . system . wait ( Pid :: ALL )', 'verif_wait(env, Pid::ALL)'),
                ('for signal in signals . iter ( ) . cloned ( )', 'let ghost verif_sigs = signals.list@; let ghost verif_n1 = env.log@.len() as int; let mut verif_rest = verif_to_vec(&signals); while let Some(signal) = verif_next_signal(&mut verif_rest)'),
                ('env . jobs . update_status ( pid , state )', 'verif_update_status(env, pid, state)', '*'),
                ('Err ( Error :: SystemError ( errno ) )', 'Err(Error::SystemError(errno))', '*'),
            ],
            'ensures': [
                L1 + '.len() > ' + N0, L1 + '.subrange(0, ' + N0 + ') =~= ' + L0,
                # C13: the internal SIGCHLD disposition is asked for first; without it nothing is waited for
                L1 + '[' + N0 + '] is Armed', '(' + L1 + '[' + N0 + '] matches Ev::Armed { ok } && !ok) ==> r is Err && ' + L1 + '.len() == ' + N0 + ' + 1',
                # Ok: the last wait() reported a status and the job table was told exactly that
                'r is Ok ==> ' + L1 + '.len() >= ' + N0 + ' + 3 && (' + L1 + '[' + L1 + '.len() - 2] matches Ev::Waited { answer } && (answer matches Ok(Some(p)) && ' + L1 + '.last() == (Ev::Updated { pid: p.0, state: p.1 })))',
                # C11: a trap ran: it is the LAST thing that happened, for exactly the signal reported, with its result
                L1 + '[' + N0 + '] == (Ev::Armed { ok: true }) ==> (r matches Err(Error::Trapped(sig, res)) ==> (sig == S::SIGINT && old(env).verif_sigint_default && ' + L1 + '.last() is Slept) || ' + L1 + '.last() == (Ev::Offered { signal: sig, ran: Some(res) }))',
                # every signal offered to the trap runner before that did not run a trap (so none is offered twice, none skipped)
                'forall|i: int| ' + N0 + ' <= i < ' + L1 + '.len() - 1 ==> ((#[trigger] ' + L1 + '[i]) matches Ev::Offered { signal, ran } ==> ran is None)',
            ],
            'loops': {
                0: {'invariant': [
                    'env.log@.len() > ' + N0, 'env.log@.subrange(0, ' + N0 + ') =~= ' + L0, 'env.log@[' + N0 + '] == (Ev::Armed { ok: true })',
                    'env.verif_sigint_default == old(env).verif_sigint_default',
                    'forall|i: int| ' + N0 + ' <= i < env.log@.len() ==> ((#[trigger] env.log@[i]) matches Ev::Offered { signal, ran } ==> ran is None)',
                ]},
                1: {'invariant': [
                    'env.log@.len() > ' + N0, 'env.log@.subrange(0, ' + N0 + ') =~= ' + L0, 'env.log@[' + N0 + '] == (Ev::Armed { ok: true })',
                    'env.verif_sigint_default == old(env).verif_sigint_default',
                    'forall|i: int| ' + N0 + ' <= i < env.log@.len() ==> ((#[trigger] env.log@[i]) matches Ev::Offered { signal, ran } ==> ran is None)',
                    # the signals of this sleep are offered in order, each once: the k-th event after the sleep is the offer of the k-th signal
                    'env.log@[verif_n1 - 1] == (Ev::Slept { signals: verif_sigs })', 'verif_n1 <= env.log@.len()',
                    'verif_rest@ =~= verif_sigs.subrange(env.log@.len() - verif_n1, verif_sigs.len() as int)', 'env.log@.len() - verif_n1 <= verif_sigs.len()',
                    'forall|k: int| 0 <= k < env.log@.len() - verif_n1 ==> (#[trigger] env.log@[verif_n1 + k]) == (Ev::Offered { signal: verif_sigs[k], ran: None::<yash_env::semantics::Result> })',
                ]},
            }}),
        ('yash-builtin/src/wait.rs', ['impl Command', 'fn await_jobs'], {'ret': 'r', 'rewrites': ['strip-async'],
            'attrs': ['#[verifier::loop_isolation(false)]'],
            'entry_ghost': 'let ghost verif_all = indexes@;',
            'sig_token_rewrites': [('I : IntoIterator < Item = Option < usize > > ,', ''), ('indexes : I', 'indexes: Vec<Option<usize>>'), ('core :: Error', 'Error')],
            'wrapper': 'impl Command',
            'token_rewrites': [
                ('for index in indexes', 'let mut verif_rest = indexes; while let Some(index) = verif_next_index(&mut verif_rest)'),
                ('status :: wait_while_running ( env , & mut status :: job_status ( index , job_control ) )', 'verif_wait_while_running(env, Some(index))'),
                ('status :: wait_while_running ( env , & mut status :: any_job_is_running ( job_control ) )', 'verif_wait_while_running(env, None)'),
            ],
            'ensures': [
                L1 + '.len() >= ' + N0, L1 + '.subrange(0, ' + N0 + ') =~= ' + L0,
                # without operands: all jobs are waited for, once, and that answer is the answer
                'indexes@.len() == 0 ==> ' + L1 + ' =~= ' + L0 + '.push(Ev::WaitedFor { what: None, answer: r })',
                # with operands: each operand that designates a job is waited for, in order, once; an operand that designates no job
                # counts as status 127; the answer is the status of the LAST operand; nothing else is waited for
                'indexes@.len() > 0 && r is Ok ==> ' + L1 + '.len() == ' + N0 + ' + found(indexes@).len()'
                ' && (forall|k: int| 0 <= k < found(indexes@).len() ==> ((#[trigger] ' + L1 + '[' + N0 + ' + k]) matches Ev::WaitedFor { what, answer } && what == Some(found(indexes@)[k]) && answer is Ok))'
                ' && (indexes@.last() is None ==> r == Ok::<ExitStatus, Error>(ExitStatus(127)))'
                ' && (indexes@.last() is Some ==> (' + L1 + '.last() matches Ev::WaitedFor { what, answer } && answer == r))',
            ],
            'loops': {0: {'body_end': 'proof { assert(verif_all.subrange(0, verif_all.len() - verif_rest@.len()).drop_last() =~= verif_all.subrange(0, verif_all.len() - verif_rest@.len() - 1)); }',
                'invariant': [
                'verif_rest@.len() <= verif_all.len()', 'verif_rest@ =~= verif_all.subrange(verif_all.len() - verif_rest@.len(), verif_all.len() as int)',
                'env.log@.len() == ' + N0 + ' + found(verif_all.subrange(0, verif_all.len() - verif_rest@.len())).len()', 'env.log@.subrange(0, ' + N0 + ') =~= ' + L0,
                'forall|k: int| 0 <= k < env.log@.len() - ' + N0 + ' ==> ((#[trigger] env.log@[' + N0 + ' + k]) matches Ev::WaitedFor { what, answer } && what == Some(found(verif_all.subrange(0, verif_all.len() - verif_rest@.len()))[k]) && answer is Ok)',
                'verif_rest@.len() == verif_all.len() ==> exit_status is None',
                'verif_rest@.len() < verif_all.len() ==> ({ let last = verif_all[verif_all.len() - verif_rest@.len() - 1]; exit_status is Some && (last is None ==> exit_status == Some(ExitStatus(127))) && (last is Some ==> (env.log@.len() > ' + N0 + ' && (env.log@.last() matches Ev::WaitedFor { what, answer } && answer == Ok::<ExitStatus, Error>(exit_status->0)))) })',
            ], 'decreases': ['verif_rest@.len()']}}}),
        ('@raw', '}\n'),
    ],
}
