// ---------------------------------------------------------------------------
// Prelude of unit aliaselig (property C17, kernel): which token is replaced by an alias
// (yash-syntax/src/parser/core.rs Parser::substitute_alias) and the recursion guard
// (yash-env/src/source.rs Source::is_alias_for).
//
// Hand-written model text (ASSUMED): the glossary of aliases as a ghost map name -> alias; the lexer reduced to the two
// calls the parser makes (is_after_blank_ending_alias: uninterpreted answer; substitute_alias: recorded in a ghost
// log); a word reduced to "the text it is if it is an unquoted literal, and where it came from".  Strings are compared
// by their characters (String@).
// ---------------------------------------------------------------------------
pub struct Keyword { pub verif_opaque: u8 }
pub struct Operator { pub verif_opaque: u8 }
impl Clone for Keyword { #[verifier::external_body] fn clone(&self) -> (r: Self) ensures r == *self { unimplemented!() } }
impl Copy for Keyword {}
impl Clone for Operator { #[verifier::external_body] fn clone(&self) -> (r: Self) ensures r == *self { unimplemented!() } }
impl Copy for Operator {}

/// a source location, reduced to the code fragment it points into (the real struct also has a byte range)
pub struct Location { pub code: Rc<Code> }
/// a code fragment, reduced to where it came from (the real struct also holds the text and a line number)
pub struct Code { pub source: Rc<Source> }
/// where a code fragment came from: typed by the user one way or another, or the replacement text of an alias that was
/// substituted for a word at `original` (the real enum has twelve more variants without an alias; they all behave as
/// `Other` here)
pub enum Source {
    Other,
    Alias { original: Location, alias: Rc<Alias> },
}
pub struct Alias { pub name: String, pub replacement: String, pub global: bool, pub origin: Location }

/// "a name is not substituted again within its own replacement": the name is among the aliases whose replacement text
/// this code is (directly, or because the alias word itself came out of another alias's replacement, and so on)
pub open spec fn in_alias_chain(src: Source, name: Seq<char>) -> bool
    decreases src
{
    match src {
        Source::Alias { original, alias } => alias.name@ == name || in_alias_chain(*original.code.source, name),
        Source::Other => false,
    }
}
/// `alias.name == name` (String == &str): comparison of the characters (ASSUMED)
#[verifier::external_body]
pub fn verif_name_eq(a: &String, b: &str) -> (r: bool) ensures r == (a@ == b@) { a == b }

/// a word, reduced to what alias substitution asks of it
pub struct Word { pub location: Location, pub verif_literal: Option<String> }
impl Word {
    /// the text of the word if it consists of unquoted literal characters only (yash-syntax MaybeLiteral; ASSUMED)
    pub open spec fn literal(&self) -> Option<Seq<char>> { match self.verif_literal { Some(s) => Some(s@), None => None } }
    #[verifier::external_body]
    pub fn to_string_if_literal(&self) -> (r: Option<String>)
        ensures r is Some == self.literal() is Some, r matches Some(s) ==> s@ == self.literal()->0
    { unimplemented!() }
}

pub trait Glossary {
    spec fn aliases(&self) -> Map<Seq<char>, Rc<Alias>>;
    fn look_up(&self, name: &str) -> (r: Option<Rc<Alias>>)
        ensures r == (if self.aliases().contains_key(name@) { Some(self.aliases()[name@]) } else { None::<Rc<Alias>> });
    fn is_empty(&self) -> (r: bool)
        ensures r ==> self.aliases() =~= Map::<Seq<char>, Rc<Alias>>::empty();
}
pub struct Lexer<'b> { pub verif_log: Ghost<Seq<(usize, Rc<Alias>)>>, pub verif_b: core::marker::PhantomData<&'b u8> }
impl<'b> Lexer<'b> {
    /// "or following an alias value that ends with a blank" (LexerCore::is_after_blank_ending_alias; uninterpreted here)
    pub uninterp spec fn after_blank_ending_alias(&self, index: usize) -> bool;
    #[verifier::external_body]
    pub fn is_after_blank_ending_alias(&self, index: usize) -> (r: bool) ensures r == self.after_blank_ending_alias(index) { unimplemented!() }
    /// the in-place splice of the replacement text (LexerCore::substitute_alias): recorded, not modelled
    #[verifier::external_body]
    pub fn substitute_alias(&mut self, begin: usize, alias: &Rc<Alias>)
        ensures final(self).verif_log@ == old(self).verif_log@.push((begin, *alias))
    { unimplemented!() }
}
/// the parser, reduced to the two fields alias substitution uses (`aliases` is a `&dyn Glossary` in the code)
pub struct Parser<'a, 'b, G: Glossary> { pub lexer: &'a mut Lexer<'b>, pub aliases: &'a G }

/// C17, eligibility: "only an unquoted literal word in command position (or following an alias value that ends with a
/// blank, or naming a global alias) is replaced, a name is not substituted again within its own replacement"
pub open spec fn eligible<G: Glossary>(g: &G, lexer: &Lexer<'_>, token: Token, is_command_name: bool) -> bool {
    &&& token.id is Token
    &&& token.word.literal() is Some
    &&& !in_alias_chain(*token.word.location.code.source, token.word.literal()->0)
    &&& g.aliases().contains_key(token.word.literal()->0)
    &&& (is_command_name || g.aliases()[token.word.literal()->0].global || lexer.after_blank_ending_alias(token.index))
}
