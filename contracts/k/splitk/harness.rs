//! Kani sibling of the Verus unit `split` (property C01), injected as a child module of
//! yash-env/src/semantics/expansion/split/ranges.rs.  The real `Ifs::new` (including its private
//! `non_whitespaces` scan), `classify_attr` and `Ranges::next` are run on a few CONCRETE IFS values
//! and on every input of <= 2 characters over a small alphabet with symbolic attributes, and compared
//! with an executable reference splitter written from XCU 2.6.5.  Bounded; it covers what the Verus
//! unit leaves uninterpreted (membership in IFS and in its non-white-space part) and gives concrete
//! counterexamples.
#![allow(dead_code, unused_imports)]
use super::*;
use crate::semantics::expansion::attr::{AttrChar, Origin};

#[derive(Clone, Copy, PartialEq, Eq)]
enum C { Non, Ws, Sep }

fn ref_class(ifs: &str, c: AttrChar) -> C {
    if c.is_quoted || c.is_quoting || c.origin != Origin::SoftExpansion {
        return C::Non;
    }
    let mut member = false;
    for x in ifs.chars() {
        if x == c.value {
            member = true;
        }
    }
    if !member { C::Non } else if c.value.is_whitespace() { C::Ws } else { C::Sep }
}

/// Reference splitter: fields as (start, end) pairs, at most 4 of them for inputs of <= 3 characters.
fn ref_split(classes: &[C], out: &mut [(usize, usize); 4]) -> usize {
    #[derive(Clone, Copy)]
    enum S { Mid(usize), AfterWs, AfterSep }
    let mut n = 0;
    let mut st = S::AfterSep;
    let mut i = 0;
    while i <= classes.len() {
        let cl = if i < classes.len() { Some(classes[i]) } else { None };
        st = match (st, cl) {
            (S::Mid(s), Some(C::Sep)) => { out[n] = (s, i); n += 1; S::AfterSep }
            (S::Mid(s), Some(C::Ws)) => { out[n] = (s, i); n += 1; S::AfterWs }
            (S::Mid(s), None) => { out[n] = (s, i); n += 1; S::AfterSep }
            (S::Mid(s), Some(C::Non)) => S::Mid(s),
            (S::AfterWs, Some(C::Sep)) => S::AfterSep,
            (S::AfterSep, Some(C::Sep)) => { out[n] = (i, i); n += 1; S::AfterSep }
            (_, Some(C::Non)) => S::Mid(i),
            (s, Some(C::Ws)) => s,
            (s, None) => s,
        };
        i += 1;
    }
    n
}

/// The k-th of 12 concrete characters: {a, space, ;, tab} x {unquoted result of an expansion, quoted
/// result of an expansion, literal}.  Symbolic characters made CBMC run out of time (279 s for ONE
/// character, > 900 s for two), so the input space is enumerated by concrete loops instead.
fn option(k: usize) -> AttrChar {
    let value = match k % 4 { 0 => 'a', 1 => ' ', 2 => ';', _ => '\t' };
    match k / 4 {
        0 => AttrChar { value, origin: Origin::SoftExpansion, is_quoted: false, is_quoting: false },
        1 => AttrChar { value, origin: Origin::SoftExpansion, is_quoted: true, is_quoting: false },
        _ => AttrChar { value, origin: Origin::Literal, is_quoted: false, is_quoting: false },
    }
}

fn check_one<const N: usize>(ifs_chars: &str, ifs: &Ifs, input: [AttrChar; N]) {
    let mut classes = [C::Non; N];
    let mut i = 0;
    while i < N {
        classes[i] = ref_class(ifs_chars, input[i]);
        i += 1;
    }
    let mut expected = [(0usize, 0usize); 4];
    let n = ref_split(&classes, &mut expected);
    let mut ranges = ifs.ranges(input.into_iter());
    let mut k = 0;
    while k < n {
        let r = ranges.next();
        assert!(r == Some(expected[k].0..expected[k].1), "the k-th field is the one XCU 2.6.5 prescribes");
        k += 1;
    }
    assert!(ranges.next().is_none(), "no further field");
    assert!(ranges.next().is_none(), "the iterator stays exhausted");
}

fn check_split0(ifs_chars: &str) {
    let ifs = Ifs::new(ifs_chars);
    check_one::<0>(ifs_chars, &ifs, []);
}

fn check_split1(ifs_chars: &str) {
    let ifs = Ifs::new(ifs_chars);
    let mut a = 0;
    while a < 12 {
        check_one::<1>(ifs_chars, &ifs, [option(a)]);
        a += 1;
    }
}

fn check_split2(ifs_chars: &str, lo: usize, hi: usize) {
    let ifs = Ifs::new(ifs_chars);
    let mut a = lo;
    while a < hi {
        let mut b = 0;
        while b < 12 {
            check_one::<2>(ifs_chars, &ifs, [option(a), option(b)]);
            b += 1;
        }
        a += 1;
    }
}

/// three unquoted expansion characters (the splitting core): 4^3 inputs
fn check_split3(ifs_chars: &str) {
    let ifs = Ifs::new(ifs_chars);
    let mut a = 0;
    while a < 4 {
        let mut b = 0;
        while b < 4 {
            let mut c = 0;
            while c < 4 {
                check_one::<3>(ifs_chars, &ifs, [option(a), option(b), option(c)]);
                c += 1;
            }
            b += 1;
        }
        a += 1;
    }
}

macro_rules! harness {
    ($name:ident, $body:expr) => {
        #[kani::proof]
        #[kani::unwind(14)]
        fn $name() { $body; }
    };
}

harness!(c01q_split_len0_empty_ifs, check_split0(""));
harness!(c01q_split_len0_default_ifs, check_split0(" \t\n"));
harness!(c01q_split_len1_empty_ifs, check_split1(""));
harness!(c01q_split_len1_default_ifs, check_split1(" \t\n"));
harness!(c01q_split_len1_ws_after_seps, check_split1(";\n,\t"));
harness!(c01q_split_len2_mixed_ifs_a, check_split2(" ;", 0, 4));
harness!(c01q_split_len2_ws_after_seps_a, check_split2(";\n,\t", 0, 4));
harness!(c01t_split_len2_mixed_ifs_b, check_split2(" ;", 4, 12));
harness!(c01t_split_len2_default_ifs, check_split2(" \t\n", 0, 12));
harness!(c01t_split_len2_empty_ifs, check_split2("", 0, 12));
harness!(c01t_split_len3_mixed_ifs, check_split3("; \t"));
harness!(c01t_split_len3_ws_after_seps, check_split3(";\n,\t"));

/// Must FAIL.
#[kani::proof]
#[kani::unwind(12)]
fn c01x_control_no_fields() {
    let ifs = Ifs::new(" ");
    let input = [AttrChar { value: 'a', origin: Origin::SoftExpansion, is_quoted: false, is_quoting: false }; 1];
    let mut ranges = ifs.ranges(input.into_iter());
    assert!(ranges.next().is_none(), "CONTROL (expected to fail): a one-character word yields no field");
}

// native replay of a Kani counterexample (bin/vcheck replay): the generated test is included here
#[cfg(verif_playback)]
include!("/verif/work/k/playback/splitk_harness.rs");
