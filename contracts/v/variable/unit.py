# Unit variable: per-variable attribute operations of yash-env (part of property C16).
MAIN = 'yash-env/src/variable/main.rs'
MOD_HEAD = '''    use vstd::prelude::*;
'''
UNIT = {
    'name': 'variable',
    'property': 'C16',
    'rlimit': 60,
    'verus_args': ['--edition=2024'],
    'items': [
        ('@raw', 'pub mod va {\n' + MOD_HEAD),
        ('yash-env/src/variable/value.rs', ['enum Value']),
        ('yash-env/src/variable/quirk.rs', ['enum Quirk']),
        ('@file', 'prelude.rs'),
        (MAIN, ['struct Variable']),
        (MAIN, ['impl Variable', 'fn is_read_only'], {'ret': 'b', 'ensures': ['b == self.read_only_location is Some']}),
        (MAIN, ['struct VariableRefMut'], {'drop_derives': True}),
        (MAIN, ['struct AssignError']),
        ('@raw', "impl VariableRefMut<'_> { pub closed spec fn var(&self) -> Variable { *self.0 } }\n"),
        (MAIN, ["impl VariableRefMut<'_>", 'fn assign_impl'], {'ret': 'r', 'ensures': [
            # a read-only variable is never modified
            'old(self).var().read_only_location is Some ==> r is Err && final(self).var() == old(self).var()',
            'old(self).var().read_only_location is Some ==> r->Err_0.new_value == value && r->Err_0.assigned_location == location && Some(r->Err_0.read_only_location) == old(self).var().read_only_location',
            # otherwise the value and the assignment location are replaced, the old ones returned, nothing else touched
            'old(self).var().read_only_location is None ==> r == Ok::<(Option<Value>, Option<Location>), AssignError>((old(self).var().value, old(self).var().last_assigned_location))',
            'old(self).var().read_only_location is None ==> final(self).var().value == Some(value) && final(self).var().last_assigned_location == location && attrs_same(old(self).var(), final(self).var())',
        ]}),
        (MAIN, ["impl VariableRefMut<'_>", 'fn export'], {'ensures': [
            'final(self).var().is_exported == is_exported',
            'final(self).var().value == old(self).var().value && final(self).var().read_only_location == old(self).var().read_only_location && final(self).var().last_assigned_location == old(self).var().last_assigned_location && final(self).var().quirk == old(self).var().quirk',
        ]}),
        (MAIN, ["impl VariableRefMut<'_>", 'fn make_read_only'], {'ensures': [
            # once read-only, always read-only, with the first location kept
            'old(self).var().read_only_location is Some ==> final(self).var() == old(self).var()',
            'old(self).var().read_only_location is None ==> final(self).var().read_only_location == Some(location)',
            'final(self).var().value == old(self).var().value && final(self).var().is_exported == old(self).var().is_exported && final(self).var().last_assigned_location == old(self).var().last_assigned_location && final(self).var().quirk == old(self).var().quirk',
        ]}),
        ('@raw', '}\n'),
    ],
}
