// Prelude of unit phrase: the field-list algebra behind "$@" / $* (XCU 2.5.2).
pub assume_specification<T>[ core::mem::replace::<T> ](dest: &mut T, src: T) -> (r: T)
    ensures r == *old(dest), *final(dest) == src;

/// A phrase denotes a list of fields.
pub open spec fn view(p: Phrase) -> Seq<Seq<AttrChar>> {
    match p {
        Phrase::Char(c) => seq![seq![c]],
        Phrase::Field(f) => seq![f@],
        Phrase::Full(v) => Seq::new(v@.len(), |i: int| v@[i]@),
    }
}

/// Concatenation of two field lists: the last field of the left list and the first field of the
/// right list are joined into one field (adjacent text attaches to the first and last positional
/// parameter); an empty list is the unit.
pub open spec fn join(a: Seq<Seq<AttrChar>>, b: Seq<Seq<AttrChar>>) -> Seq<Seq<AttrChar>> {
    if a.len() == 0 { b }
    else if b.len() == 0 { a }
    else { a.drop_last().push(a.last() + b[0]) + b.drop_first() }
}
