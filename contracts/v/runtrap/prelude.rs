// ---------------------------------------------------------------------------
// Prelude of unit runtrap (property C11, kernel): yash-semantics/src/trap.rs run_trap, how ONE trap action is run.
// C11 "... makes its action run exactly once ... with `$?` preserved": the command text of the action is run once, inside a Trap
// frame for its condition on top of the caller's frames; afterwards `$?` is what it was before the action - unless the
// action was interrupted, in which case the interrupt carries the `$?` the action left; every other divert out of the
// action (exit, return, break ...) is handed on unchanged.
//
// Hand-written model text (ASSUMED): the lexer constructor, Condition::to_string and the read-eval loop (unit replloop) are opaque;
// RAII of the frame guard assumed in the contract of push_frame; `Box::pin(..)` around the loop's future is dropped with the await.
// ---------------------------------------------------------------------------
pub trait Runtime {}
pub struct Location { pub verif_opaque: u8 }
pub struct Code { pub verif_id: int }
#[derive(Clone, Copy)]
pub struct Condition { pub verif_id: int }
pub enum Frame { Trap(Condition), Other(u8) }
pub struct Lexer { pub verif_code: Ghost<int> }
pub struct Run { pub code: int, pub frames: Seq<Frame>, pub status_before: ExitStatus, pub status_after: ExitStatus, pub result: Result }
pub struct Env<S> { pub exit_status: ExitStatus, pub verif_frames: Ghost<Seq<Frame>>, pub verif_runs: Ghost<Seq<Run>>, pub system: S }
pub struct EnvFrameGuard<'a, S> { pub env: &'a mut Env<S> }
impl<S> Env<S> {
    #[verifier::external_body]
    pub fn push_frame(&mut self, frame: Frame) -> (g: EnvFrameGuard<'_, S>)
        ensures g.env.verif_frames@ == old(self).verif_frames@.push(frame), g.env.verif_runs@ == old(self).verif_runs@, g.env.exit_status == old(self).exit_status,
            final(self).verif_frames@ == old(self).verif_frames@, final(self).verif_runs@ == final(g.env).verif_runs@, final(self).exit_status == final(g.env).exit_status
    { unimplemented!() }
}
/// `let condition = cond.to_string(&env.system).into_owned(); let mut lexer = Lexer::from_memory(&code, Source::Trap { condition, origin });`
#[verifier::external_body]
pub fn verif_lexer<S>(env: &Env<S>, cond: Condition, code: &Rc<Code>, origin: Location) -> (r: Lexer) ensures r.verif_code@ == code.verif_id { unimplemented!() }
/// runner.rs read_eval_loop (unit replloop)
#[verifier::external_body]
pub fn read_eval_loop<S>(env: &mut Env<S>, lexer: &mut Lexer) -> (r: Result)
    ensures final(env).verif_frames@ == old(env).verif_frames@,
        final(env).verif_runs@ == old(env).verif_runs@.push(Run { code: old(lexer).verif_code@, frames: old(env).verif_frames@, status_before: old(env).exit_status, status_after: final(env).exit_status, result: r })
{ unimplemented!() }
