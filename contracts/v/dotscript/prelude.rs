// ---------------------------------------------------------------------------
// Prelude of unit dotscript (properties C02 / C09 / C18, kernel): the `.` (source) built-in
// (yash-builtin/src/source/semantics.rs Command::execute, consume_return, open_file).
// C02 "`return` leaves only the innermost function" - or dot script: a Return divert that comes out of the script ends the
// script and nothing else (the status it carries, or `$?`, becomes the status of the built-in), every other divert is handed
// on.  C09 "descriptors the shell opens for its own use stay at 10 or above with close-on-exec set, and no command ever
// leaves an extra descriptor open": the script is opened close-on-exec and moved to an internal descriptor, read through
// exactly that descriptor, once, inside a DotScript frame, and the descriptor is closed afterwards whatever came out.
// A script that cannot be found or opened: one report, nothing runs.
//
// Hand-written model text (ASSUMED): find_and_open_file (the $PATH walk: iterator adapters over strings) is an opaque call that
// answers a descriptor it has newly opened; the construction of the parser configuration (RefCell, Echo, FdReader2, Box) is
// one helper recording the descriptor; the read-eval loop taken from env.any is an opaque call; RAII of the frame guard
// assumed; the descriptor table is a ghost set of open descriptors.  Await points dropped.
// ---------------------------------------------------------------------------
pub trait Close {} pub trait Dup {} pub trait Isatty {} pub trait Open {} pub trait Read {} pub trait WriteAll {}
pub struct Location { pub verif_opaque: u8 }
pub struct Field { pub value: String, pub origin: Location }
pub struct Command { pub file: Field }
pub struct Errno(pub i32);
#[derive(Clone, Copy, PartialEq, Eq)]
pub struct Fd(pub i32);
pub enum Frame { DotScript, Other(u8) }
pub struct Config { pub verif_fd: Ghost<Fd> }
pub struct RunEv { pub fd: Fd, pub frames: Seq<Frame>, pub open: Set<Fd>, pub result: ControlFlow<Divert> }
pub struct Env<S> { pub exit_status: ExitStatus, pub verif_frames: Ghost<Seq<Frame>>, pub verif_open: Ghost<Set<Fd>>, pub verif_runs: Ghost<Seq<RunEv>>, pub verif_reported: Ghost<nat>, pub system: S }
pub struct EnvFrameGuard<'a, S> { pub env: &'a mut Env<S> }
impl<S> Env<S> {
    #[verifier::external_body]
    pub fn push_frame(&mut self, frame: Frame) -> (g: EnvFrameGuard<'_, S>)
        ensures g.env.verif_frames@ == old(self).verif_frames@.push(frame), g.env.verif_open@ == old(self).verif_open@, g.env.verif_runs@ == old(self).verif_runs@,
            g.env.verif_reported@ == old(self).verif_reported@, g.env.exit_status == old(self).exit_status,
            final(self).verif_frames@ == old(self).verif_frames@, final(self).verif_open@ == final(g.env).verif_open@, final(self).verif_runs@ == final(g.env).verif_runs@,
            final(self).verif_reported@ == final(g.env).verif_reported@, final(self).exit_status == final(g.env).exit_status
    { unimplemented!() }
}
/// find_and_open_file: walks $PATH (or takes the name as it is when it has a slash), opens the first file that can be opened
/// through open_file: a NEW descriptor
#[verifier::external_body]
pub fn find_and_open_file<S>(env: &mut Env<S>, filename: &String) -> (r: Result<Fd, Errno>)
    ensures r matches Ok(fd) ==> !old(env).verif_open@.contains(fd) && final(env).verif_open@ == old(env).verif_open@.insert(fd),
        r is Err ==> final(env).verif_open@ == old(env).verif_open@,
        final(env).verif_frames@ == old(env).verif_frames@, final(env).verif_runs@ == old(env).verif_runs@, final(env).verif_reported@ == old(env).verif_reported@, final(env).exit_status == old(env).exit_status
{ unimplemented!() }
#[verifier::external_body]
pub fn report_find_and_open_file_failure<S>(env: &mut Env<S>, name: &Field, errno: Errno) -> (r: crate::ds::BuiltinResult)
    ensures final(env).verif_reported@ == old(env).verif_reported@ + 1, final(env).verif_open@ == old(env).verif_open@, final(env).verif_frames@ == old(env).verif_frames@,
        final(env).verif_runs@ == old(env).verif_runs@, r.exit_status.0 != 0, !(r.divert matches ControlFlow::Break(Divert::Return(_)))
{ unimplemented!() }
/// the lines from `let run_read_eval_loop = env.any.get::<RunReadEvalLoop<S>>()...` to `let divert = run_read_eval_loop.0(&ref_env, config).await;`:
/// the read-eval loop (unit replloop) over an Echo / FdReader2 input (unit lineread) on this descriptor, with source DotScript
#[verifier::external_body]
pub fn verif_run_script<S>(env: &mut Env<S>, fd: Fd, file: Field) -> (r: ControlFlow<Divert>)
    ensures final(env).verif_runs@ == old(env).verif_runs@.push(RunEv { fd, frames: old(env).verif_frames@, open: old(env).verif_open@, result: r }),
        final(env).verif_open@ == old(env).verif_open@, final(env).verif_frames@ == old(env).verif_frames@, final(env).verif_reported@ == old(env).verif_reported@
{ unimplemented!() }
/// `_ = env.system.close(fd)`
#[verifier::external_body]
pub fn verif_close<S>(env: &mut Env<S>, fd: Fd)
    ensures final(env).verif_open@ == old(env).verif_open@.remove(fd), final(env).verif_frames@ == old(env).verif_frames@, final(env).verif_runs@ == old(env).verif_runs@,
        final(env).verif_reported@ == old(env).verif_reported@, final(env).exit_status == old(env).exit_status
{ unimplemented!() }
