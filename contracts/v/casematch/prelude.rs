// ---------------------------------------------------------------------------
// Prelude of unit casematch (property C04, kernel): yash-semantics/src/command/compound_command/case.rs matches + config: does the
// subject of a `case` match one of the patterns of an item.
// C04 "`case` runs the first item with a matching pattern" (unit casecmd has the item level): the patterns of an item are expanded
// in order, each once, up to and including the first that matches - later patterns are NOT expanded (their expansions may have side
// effects) -; each is matched as a WHOLE-subject pattern (anchored at both ends, nothing else set), with its backslashes turned into
// quoting; a pattern that does not parse matches nothing and the next one is tried; an expansion error ends the test with that error.
//
// Hand-written model text (ASSUMED): expand_word_attr, apply_escapes (unit attrfn), to_pattern_chars + Pattern::parse_with_config
// (units fnparse / fnregex) and Pattern::is_match (the regex engine) are opaque calls over an event log and uninterpreted functions;
// `for pattern in patterns` is a while loop over the index.
// ---------------------------------------------------------------------------
pub trait Runtime {}
pub struct Word { pub verif_id: int }
pub struct Error { pub verif_opaque: u8 }
pub struct Env<S> { pub expanded: Ghost<Seq<int>>, pub system: S }
pub struct PatternText { pub verif_id: int, pub verif_escaped: bool }
pub struct AttrField { pub chars: PatternText }
pub struct ExpandResult(pub AttrField, pub Option<u8>);
#[verifier::external_body]
pub fn expand_word_attr<S>(env: &mut Env<S>, word: &Word) -> (r: Result<ExpandResult, Error>)
    ensures final(env).expanded@ == old(env).expanded@.push(word.verif_id), r matches Ok(e) ==> e.0.chars.verif_id == word.verif_id && !e.0.chars.verif_escaped
{ unimplemented!() }
#[verifier::external_body]
pub fn apply_escapes(p: &mut PatternText) ensures final(p).verif_id == old(p).verif_id, final(p).verif_escaped { unimplemented!() }
pub struct PatternChars { pub verif_id: int, pub verif_escaped: bool }
#[verifier::external_body]
pub fn to_pattern_chars(p: &PatternText) -> (r: PatternChars) ensures r.verif_id == p.verif_id, r.verif_escaped == p.verif_escaped { unimplemented!() }
pub struct Pattern { pub verif_text: int, pub verif_config: Config, pub verif_escaped: bool }
impl Config {
    #[verifier::external_body]
    pub fn default() -> (c: Config) ensures !c.anchor_begin, !c.anchor_end, !c.literal_period, !c.shortest_match, !c.case_insensitive { unimplemented!() }
}
/// whether the word (escapes applied) parses as a pattern, and whether it matches the subject as a whole
pub uninterp spec fn parses(word: int) -> bool;
pub uninterp spec fn whole_match(word: int, subject: Seq<char>) -> bool;
pub open spec fn whole() -> Config { Config { anchor_begin: true, anchor_end: true, literal_period: false, shortest_match: false, case_insensitive: false } }
impl Pattern {
    #[verifier::external_body]
    pub fn parse_with_config(chars: PatternChars, config: Config) -> (r: Result<Pattern, ()>)
        ensures r is Ok <==> parses(chars.verif_id), r matches Ok(p) ==> p.verif_text == chars.verif_id && p.verif_config == config && p.verif_escaped == chars.verif_escaped
    { unimplemented!() }
    #[verifier::external_body]
    pub fn is_match(&self, subject: &str) -> (r: bool)
        ensures (self.verif_config == whole() && self.verif_escaped) ==> r == whole_match(self.verif_text, subject@)
    { unimplemented!() }
}
/// the first pattern of ps[0..n] that parses and matches, if any
pub open spec fn first_match(ps: Seq<Word>, subject: Seq<char>, n: int) -> Option<int> decreases n {
    if n <= 0 { None } else { match first_match(ps, subject, n - 1) { Some(k) => Some(k), None => if parses(ps[n - 1].verif_id) && whole_match(ps[n - 1].verif_id, subject) { Some(n - 1) } else { None } } }
}
pub open spec fn word_ids(ps: Seq<Word>) -> Seq<int> { Seq::new(ps.len(), |i: int| ps[i].verif_id) }
/// once a pattern has matched, looking at more patterns does not change which one matched first
pub proof fn lemma_first_match_stable(ps: Seq<Word>, subject: Seq<char>, m: int, n: int)
    requires 0 <= m <= n, first_match(ps, subject, m) is Some
    ensures first_match(ps, subject, n) == first_match(ps, subject, m)
    decreases n - m
{
    if m < n { lemma_first_match_stable(ps, subject, m, n - 1); }
}
