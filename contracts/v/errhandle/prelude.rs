// ---------------------------------------------------------------------------
// Prelude of unit errhandle (property C10, kernel): the consequences of shell errors
// (yash-semantics/src/handle.rs: impl Handle for parser, expansion and redirection errors).
// "on shell errors - syntax errors, ... assignment and expansion errors [the script stops]; redirection errors of
// ordinary commands ... only set $? and execution continues; in every aborting case the exit status is ... the
// documented error status".
//
// Hand-written model text (ASSUMED): the error types are reduced to what the handlers look at; printing the report is
// an opaque call; Env is reduced to the exit status and "is errexit applicable" (unit errexit).
// ---------------------------------------------------------------------------
pub trait Isatty {}
pub trait WriteAll {}
pub struct ExitStatus(pub i32);
impl ExitStatus {
    pub const ERROR: ExitStatus = ExitStatus(2);
    pub const READ_ERROR: ExitStatus = ExitStatus(128);
}
impl Clone for ExitStatus { fn clone(&self) -> (r: Self) ensures r == *self { ExitStatus(self.0) } }
impl Copy for ExitStatus {}
pub enum Divert { Interrupt(Option<ExitStatus>), Exit(Option<ExitStatus>), Other(u8) }
pub type Result<T = ()> = std::ops::ControlFlow<Divert, T>;
pub struct Report { pub verif_opaque: u8 }
pub struct Env<S> { pub exit_status: ExitStatus, pub verif_errexit_applies: bool, pub verif_reports: Ghost<nat>, pub system: S }
impl<S> Env<S> {
    /// Env::errexit_is_applicable (unit errexit)
    pub fn errexit_is_applicable(&self) -> (r: bool) ensures r == self.verif_errexit_applies { self.verif_errexit_applies }
}
#[verifier::external_body]
pub fn print_report<S>(env: &mut Env<S>, report: &Report)
    ensures final(env).exit_status == old(env).exit_status, final(env).verif_errexit_applies == old(env).verif_errexit_applies, final(env).verif_reports@ == old(env).verif_reports@ + 1
{ unimplemented!() }

pub enum Source { DotScript { verif_opaque: u8 }, Other }
pub struct Code { pub source: Rc<Source> }
pub struct Location { pub code: Rc<Code> }
pub mod yash_syntax { pub mod parser {
    use super::super::*;
    pub enum ErrorCause { Io(u8), Syntax(u8) }
    pub struct Error { pub cause: ErrorCause, pub location: Location }
    impl Error { #[verifier::external_body] pub fn to_report(&self) -> (r: Report) { unimplemented!() } }
} }
pub mod expansion {
    use super::*;
    pub enum ErrorCause { Interrupted(ExitStatus), Other(u8) }
    pub struct Error { pub cause: ErrorCause }
    impl Error { #[verifier::external_body] pub fn to_report(&self) -> (r: Report) { unimplemented!() } }
}
pub use expansion::ErrorCause;
pub mod redir {
    use super::*;
    pub struct Error { pub verif_opaque: u8 }
    impl Error { #[verifier::external_body] pub fn to_report(&self) -> (r: Report) { unimplemented!() } }
}
pub trait Handle<S> { fn handle(&self, env: &mut Env<S>) -> Result; }
