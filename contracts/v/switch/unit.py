# Unit switch: the "unset or null" decision of the parameter-expansion switches (part of property C01).
SW = 'yash-semantics/src/expansion/initial/param/switch.rs'
MOD_HEAD = '''    use vstd::prelude::*;
'''
UNIT = {
    'name': 'switch',
    'property': 'C01',
    'rlimit': 60,
    'verus_args': ['--edition=2024'],
    'items': [
        ('@raw', 'pub mod sw {\n' + MOD_HEAD),
        ('yash-env/src/variable/value.rs', ['enum Value']),
        ('yash-syntax/src/syntax.rs', ['enum SwitchCondition']),
        (SW, ['enum Vacancy']),
        (SW, ['enum ValueCondition'], {'vis': 'pub'}),
        ('@file', 'prelude.rs'),
        (SW, ['impl Vacancy', 'fn of'], {
            'nested': {'inner': {'ret': 'r', 'ensures': ['r == vacancy_of(match value { Some(v) => Some(*v), None => None })']}},
        }),
        (SW, ['impl ValueCondition', 'fn with'], {
            'nested': {'inner': {'ret': 'r', 'ensures': ['r == condition_of(cond, vacancy)']}},
        }),
        ('@raw', '}\n'),
    ],
}
