"""Warm caches: compile external crates for Verus, build every Kani unit's crate once (codegen only)."""
import os, subprocess, sys
sys.path.insert(0, os.path.dirname(os.path.abspath(__file__)))
import kunit, vunit, props

def main():
    problems, _ = kunit.prepare_ws()
    print('workspace copy prepared', problems)
    for name in sorted(os.listdir(os.path.join(vunit.VERIF, 'contracts', 'v'))):
        try:
            u = vunit.load_unit(name)
            for n, spec in (u.get('externs') or {}).items():
                print('extern', n, vunit.build_extern(n, spec))
            b = vunit.build(u, 'main')
            r = vunit.run_verus(b, rlimit=u.get('rlimit', 30), externs=u.get('externs'), extra=u.get('verus_args'))
            print('verus unit', name, r['status'], r.get('verified'))
        except Exception as e:
            print('verus unit', name, 'warm-up problem', e)
    for name in kunit.all_units():
        u = kunit.load_unit(name)
        cmd = kunit.kani_cmd(u, [], 4, extra=['--only-codegen'])
        p = subprocess.run(cmd, cwd=kunit.WS, env=kunit.kani_env(u), capture_output=True, text=True)
        print('kani unit', name, 'codegen rc', p.returncode, p.stderr[-300:] if p.returncode else '')

if __name__ == '__main__':
    main()
