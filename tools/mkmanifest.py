"""Generate /verif/MANIFEST.json from tools/props.py and the static tables below."""
import json, os, sys
sys.path.insert(0, os.path.dirname(os.path.abspath(__file__)))
import props

NA = {
    'C06': 'totality and print/re-parse equality of the entire async parser and its Display impls over all strings; a whole-call-graph property, out of both tools\' subset/capacity',
    'C14': 'quantified over schedules; the only object-level kernel (FIFO buffer) has 512/1024-byte constants and VecDeque byte loops beyond Kani\'s reach and outside Verus\'s subset',
    'C15': 'all-interleavings / fairness property of an Rc<RefCell> run queue with a raw waker vtable; with dyn Future inputs nothing is symbolic, and liveness is not decided by contracts',
    'C19': 'differential statement between the simulator and a real kernel; one side has no code to specify',
}
PENDING = 'contract units for this property are not built yet in this revision of /verif (planned in DESIGN.md section 4); not claimed until its check exists'
ALL = ['C%02d' % i for i in range(1, 21)]

LEVEL_TEXT = {
    'C03': 'Unbounded deductive proof (Verus) of contracts on the real evaluation functions: every binary/prefix/postfix operator returns the exact mathematical value or an error exactly when that value is undefined or unrepresentable; operator tables equal the C tables. Right level: the property quantifies over all i64 operands, which only a proof covers.',
    'C12': 'Unbounded deductive proof (Verus) that every JobList mutator preserves the five-clause consistency statement and never renumbers a job, from assumed finite-map contracts on slab/HashMap; the two iterator-based selectors assumed there are checked on the real code by Kani for bounded table shapes (bounded stand-in, labelled).',
}
LEVEL_TEXT.update({
    'C11': 'Unbounded deductive proof (Verus) that every operation of the per-signal trap record preserves "installed disposition = max(internal need, user action)" from every state, refuses to trap or reset an initially ignored signal without override, leaves everything unchanged on failure, and handles the pending flag exactly once per catch; the same invariant for all signals of the table under set_action, the internal-disposition functions and subshell entry (TrapSet::enter_subshell); an inductive invariant over all histories, which is what the property quantifies over.',
    'C08': 'Unbounded deductive proof (Verus) of the trap-reset clause and of the open-files clause for pipelines only (command traps reset to default with the parent state saved, ignores kept, on subshell entry: per record and for the whole table, TrapSet::enter_subshell). Also: PipeSet::shift leaves no pipe descriptor behind in the parent and move_to_stdin_stdout wires the child to the previous and the next pipe. The rest of C08 (isolation of all other state under every interleaving) is outside what a function contract can state and is not claimed.',
})
LEVEL_TEXT.update({
    'C01': 'Kernel only. Unbounded deductive proof (Verus): Ranges::next equals a reference IFS splitter on every input; only unquoted expansion results are classified as separators; the unset-or-null table of the switch forms equals XCU 2.6.2; double quotes mark every character of every field quoted between two quoting characters and expand their text in a non-splitting context that is restored afterwards. Bounded (Kani, concrete enumeration): the real Ifs::new/non_whitespaces/Ranges::next against an executable reference for five IFS values and inputs of <= 2-3 characters. The statement as a whole (all expansion forms x all shell states) runs through async code and is not decided.',
})
LEVEL_TEXT.update({
    'C04': 'Translation kernel: unbounded Verus proofs that every literal character (all of char) is emitted as text denoting itself outside and inside a character class, that ? * become . .*, that a range is start-hyphen-end, and of make_range; bounded Kani checks (every ASCII character, one-character symbols) for the emitters Verus cannot take, and the unclosed-[ case. Not a decision of the language equality, which is delegated to the regex engine.',
})
LEVEL_TEXT.update({
    'C07': 'Complete per-character proofs (Kani, loop-free over every char) that the quoting decision and the lexer classify characters consistently, plus a bounded check (texts of <= 2 characters over 16 characters, literal expectations) that quoted()/Display for Quoted produce a form that reads back as the original text, and five concrete values through the value printer (QuotedValue); the printers of state listings and the lexer as a whole are not decided.',
    'C16': 'Unbounded deductive proof (Verus) on the real variable store: get_or_new (three scopes), unset and push_context preserve the representation invariant from every state and agree with the naive stack-of-maps scoping model (innermost definition visible, lower contexts untouched, only volatile definitions dropped, read-only never unset or assigned); an inductive invariant over all histories of these operations, which is what the property quantifies over. the same for pop_context (locals vanish, lower definitions persist), for iteration by scope and (one direction) for the exported environment; the interpreter\'s use of scopes is not decided.',
})
LEVEL_TEXT.update({
    'C14': 'Kernel only. Unbounded deductive proof (Verus) that the pipe buffer of the simulated system is a FIFO queue of bounded capacity: writes append (atomically when small, piecewise when larger than the room), reads remove from the front, nothing is lost, duplicated or reordered, for every payload size. The interleaving half of the property (wake-ups, select, read/write-all loops) is outside what function contracts decide and is not claimed. Also proved (unit rwall): the write_all / read_all loops over partial transfers deliver the data completely, exactly once and in order against an assumed synchronous model of read/write on a non-blocking descriptor.',
})
LEVEL_TEXT.update({
    'C20': 'Bounded check (Kani, concrete enumeration, one harness per argument vector) of the generic option parser against a reference parser written from XBD 12.2: the right level for a string-manipulating function that neither verifier can take symbolically; per-built-in equivalence is whole-system and not claimed.',
})
NOTE = {
    'C03': 'Trusted: Verus/Z3, vstd specs of checked arithmetic, assumed specs of checked_shl/shr/neg, Option::filter, str::parse (uninterpreted), Display for Value, the Env implementor contract. Not covered: eval()/parser structure, tokenizer, non-decimal variable values (F3).',
    'C12': 'Trusted: Verus/Z3, Kani/CBMC, assumed contracts for slab::Slab and (in Kani) a linear-scan stand-in for std HashMap; selectors assumed in Verus and bounded-checked in Kani (<= 3 slots quick); pid-reuse precondition from the property quantifier.',
}
NOTE.update({
    'C11': 'Trusted: Verus/Z3; model SignalSystem trait (sync, &mut self); async/await stripped; hash_map::Entry contract used for btree_map::Entry; derived PartialEq/Ord assumed structural; iteration over the table through an assumed model of the mutable map iterator. Covered on the table: set_action, internal dispositions, enter_subshell, catch/take of a named signal. Also: run_traps_for_caught_signals runs the action of every caught signal handed out exactly once, never inside another trap action (opaque calls behind a ghost monitor). Not covered: take_caught_signal itself, run_trap ($? preservation), WHEN the interpreter reaches a command boundary.',
    'C08': 'Decides two clauses of C08 and nothing else: trap reset on subshell entry (same trusted base as C11) and, for pipelines, that the parent is left with the descriptors it had (PipeSet, against an assumed model of the descriptor table).',
})
NOTE.update({
    'C01': 'Kernel only (field splitting). Trusted: Verus/Z3, vstd iterator model; IFS membership uninterpreted; reference splitter is my reading of XCU 2.6.5. Not covered: parameter expansion modifiers, nounset, $@/$* joining, quote removal, read, lexer.',
})
NOTE.update({
    'C04': 'Trusted: Verus/Z3, Kani/CBMC, regex-syntax grammar facts, a model of fmt::Write. Kani part bounded (ASCII, one-character symbols). Not covered: bracket parser with quoted characters (F2), Bracket::fmt_regex frame, anchoring/find/rfind, regex engine, trim_value, case.',
})
NOTE.update({
    'C07': 'Kernel only. Trusted: Kani/CBMC, std char::is_whitespace, the reference un-quoter of tools/gen_quote.py. Not covered: texts longer than 2 characters, the real lexer re-reading the form, printers of state listings.',
    'C16': 'Trusted: Verus/Z3; Location placeholder; assumed contracts of std functions (mem::replace, Option::replace/filter, HashMap::get_mut, partition_point, rposition, drain) and structural derives. Not covered: completeness and formatting of env_c_strings, ContextGuard, positional parameters, interpreter-level scoping.',
})
NOTE.update({
    'C20': 'Generic parser only, bounded (argument vectors of length <= 2-3 over the 11 words, two option tables, one Mode). Trusted: Kani/CBMC, the reference parser of tools/gen_optparse.py. Not covered: 28 error-path vectors (out of CBMC reach), per-built-in interpretation, bespoke parsers.',
})
TECH = {
    'C03': 'contract-based deductive verification (Verus, Z3) of mechanically extracted real functions + loop-free Kani harnesses (complete) for binary_result',
    'C12': 'contract-based deductive verification (Verus) + Kani harness-encoded contracts (bounded) on the real crate',
}


TECH.update({
    'C11': 'contract-based deductive verification (Verus, Z3): inductive invariant of the per-signal trap record',
    'C08': 'contract-based deductive verification (Verus, Z3) of GrandState::enter_subshell / ignore, TrapSet::enter_subshell and PipeSet::shift / move_to_stdin_stdout',
})


TECH.update({
    'C01': 'contract-based deductive verification (Verus, Z3) of the IFS splitting state machine and the switch table + bounded Kani sibling on the real crate',
})


TECH.update({
    'C04': 'contract-based deductive verification (Verus) of the escaping kernel and make_range + Kani harness-encoded contracts on the real crate (bounded)',
})


TECH.update({
    'C07': 'loop-free Kani harnesses over every char (complete) + generated literal-expectation harnesses (bounded) on the real crates',
    'C16': 'contract-based deductive verification (Verus, Z3) of VariableSet (representation invariant + abstract scoping model) and VariableRefMut operations',
})


TECH.update({
    'C20': 'Kani harness-encoded contract (literal expectations from a reference parser) on the real crate, bounded',
})

NOTE.update({
    'C14': 'Decides the object-level half of C14 only. Trusted: Verus/Z3, assumed contracts of VecDeque/Vec extend and friends, placeholder types for wakers. Not covered: OpenFileDescription, concurrency.rs, rw_all.rs, command substitution, here-documents, regular files. Unit rwall: Read/Write are an assumed synchronous model, await points dropped, the non-blocking guard is not modelled.',
})
TECH.update({
    'C14': 'contract-based deductive verification (Verus, Z3) of FileBody::poll_read / poll_write and the readiness predicates on FIFOs, and of the write_all / read_all_to loops over partial transfers',
})


LEVEL_TEXT['C10'] = 'Kernel only. Unbounded deductive proof (Verus) that errexit applies iff the option is on and no frame of the runtime stack, at any depth, is a Condition frame, that apply_errexit exits exactly on a failing status there, and that apply_result moves the exit status of a divert into $?; bounded Kani sibling on real Env values (stacks of <= 3 frames). The three places that push Condition frames (conditions of if/while/until, negated pipelines, every pipeline of an and-or list but the last) are proved to run their commands with the frame on top, against an opaque model of command execution and an assumed RAII contract of the frame guard. The status a command made only of assignments leaves (perform_assignments), the single consultation of errexit after a simple command (SimpleCommand::execute) and after a failed redirection of a compound command (FullCompoundCommand::execute), and the three error handlers of handle.rs (which error interrupts or exits with which status, each reported once) are proved against ghost monitors of their opaque callees. The read-eval loop is proved to end on every divert when non-interactive and to survive only an interrupt of a command or a syntax error when interactive. What built-in dispatch does with an error of a special built-in is not decided.'
NOTE['C10'] = 'Kernel only (the dynamic context stack decision). Trusted: Verus/Z3, Kani/CBMC; Env reduced to three fields in the Verus unit; OptionSet::get and slice::contains assumed; RandomState::new stubbed in Kani. The RAII composition of the frame guard is assumed (destructors are not modelled). Opaque callees behind ghost monitors in the units condframe, assignstatus, simplecmd, errhandle, fullcompound. Not covered: the other callers of apply_errexit (pipelines, subshells, built-ins), errors of special built-ins.'
TECH['C10'] = 'contract-based deductive verification (Verus, Z3) of Env::errexit_is_applicable / apply_errexit / apply_result and of the three sites that push Frame::Condition (evaluate_condition, negated Pipeline::execute, AndOrList::execute), of perform_assignments, SimpleCommand::execute, FullCompoundCommand::execute, the read-eval loop and the Handle::handle implementations of handle.rs (opaque callees observed by ghost monitors) + bounded Kani sibling on the real crate'

LEVEL_TEXT['C09'] = 'Kernel only. Unbounded deductive proof (Verus) on the real perform / RedirGuard code, against an assumed model of the descriptor table: a redirection saves the target in a close-on-exec descriptor >= 10, changes the target only, refuses targets the shell reserves, and leaves the table unchanged on every failure; the guard restores exactly the initial table (undo_redirs, Drop) for any number of redirections, or closes every backing copy (preserve_redirs). Each operator opens its file with the access mode and flags of XCU 2.7, noclobber never truncates or hands out an existing regular file, <& / >& only name suitable open descriptors, and every opener leaves nothing open on failure. Three callers of the guard (execute_function, execute_external_utility, FullCompoundCommand::execute) perform the redirections first, keep them in effect exactly while assignments and command run, and do nothing more after a failed one. The expansion of operands and the other uses of the guard are assumed or not decided; level other because the claim is a kernel over a model of the OS side.'
NOTE['C09'] = 'Kernel only. Trusted: Verus/Z3; the descriptor-table model of Close/Dup/Fcntl; assumed contracts for expansion and for writing the here-document body; await points dropped; loops over drain() checked in an equivalent form; in unit funcall RAII of the guard assumed as a whole. Not covered: here-document content, the callers of RedirGuard other than execute_function / execute_external_utility / FullCompoundCommand::execute, VirtualSystem.'
TECH['C09'] = 'contract-based deductive verification (Verus, Z3) of perform / replace_target / RedirGuard::{new, perform_redir, perform_redirs, undo_redirs, preserve_redirs, drop}, the openers (open_normal, open_file, open_file_noclobber, copy_fd, here_doc::open_fd) and move_fd_internal against a ghost descriptor table, and of three callers of the guard (execute_function, execute_external_utility, FullCompoundCommand::execute) against a ghost monitor'

LEVEL_TEXT['C18'] = 'Kernel only. Unbounded deductive proof (Verus) on the real FdReader2::next_line against an assumed model of read(2): each read asks for one byte, the bytes consumed from the descriptor are exactly the returned line, ending at the first newline, on success and on error; nothing that follows the line is taken from the input; bounded Kani check that read_char of the read built-in decodes and consumes exactly one character under every chunking of the reads. The read-eval loop (read_eval_loop_impl) is proved, against a monitor of its opaque parse / run calls, to parse a line only when the previous command is over, to run each command once right after parsing it, and to parse every line in the mode the current options give; that the lexer requests a new line only when its buffer is exhausted is inside the opaque parse call and is not decided; level other because the claim is a kernel over a model of the OS side.'
NOTE['C18'] = 'Kernel only (the line reader). Trusted: Verus/Z3; the synchronous model of Read; assumed contract of slice::from_mut; await points dropped; text conversion uninterpreted. Kani part bounded (read_char: inputs <= 4 bytes, every chunking). Not covered: lexer buffer management, Memory / Echo / prompt decorators, cross-process sharing of the descriptor, the backslash processing of read().'
TECH['C18'] = 'contract-based deductive verification (Verus, Z3) of FdReader2::next_line (loop invariant over the consumed byte stream of a model descriptor) and of read_eval_loop_impl / read_eval_loop / interactive_read_eval_loop (monitor automaton of the opaque parse and run calls) + bounded Kani harness-encoded contract of read_char (all inputs <= 4 bytes x all chunkings) on the real crate'

LEVEL_TEXT['C02'] = 'Kernels only. Unbounded deductive proofs (Verus): the command search resolves a name in the POSIX order (special built-in, function, other built-in, external utility; a slash means a path) and settles the path and the not-found / unusable errors as documented; break n / continue n leave min(n, enclosing loops) loops or fail outside a loop; while / until loops hand on the first divert of condition or body with exactly one level taken off and end with the status of the last execution of their body; for loops run their body once per value in order, right after assigning it, in a Loop frame, decode break / continue the same way and have status 0 without values; case tests its items in order, runs a body only after its patterns matched or after `;&`, stops at `;;`, and has the status of the last body executed (0 if none or empty); and-or lists short-circuit left to right, ! inverts the status of commands that ended normally, if runs the branch of the first condition that held; SimpleCommand::execute runs exactly the executor of the classified target, once; the return built-in asks for Divert::Return with its operand (or $?), a function body runs once in its own context and that divert leaves only that function; execute_function / execute_external_utility run their target at most once, only after redirections and assignments succeeded, and a utility that is not found leaves 127. Everything a command does is an opaque call observed by ghost monitors. Bounded Kani check (stacks of <= 3-4 frames) of Stack::loop_count. The statement as a whole (every program, every $?) is whole-interpreter async code and is not decided; level other because of that and of the bounded part.'
NOTE['C02'] = 'Kernels only (command search order; break/continue levels; while/until/for/case; and-or, !, if; simple-command dispatch; function call, external utility). Trusted: Verus/Z3, Kani/CBMC; ghost views on the environment traits; search_path assumed; loop_count assumed in Verus and bounded-checked in Kani; opaque callees behind ghost monitors; RAII of frame / context / redirection guards assumed; await points dropped. Not covered: pattern matching inside case, multi-command pipelines and subshells, built-in execution, exit, Env::builtin, PATH walking.'
TECH['C02'] = 'contract-based deductive verification (Verus, Z3) of classify / search / resolve_builtin, break/continue run, return::main, Loop::iterate / Loop::execute, for_loop::execute, case::execute, evaluate_condition / Pipeline::execute / AndOrList::execute / if execute, SimpleCommand::execute, execute_function_body / execute_function / execute_external_utility (opaque callees observed by ghost monitors) + bounded Kani harness-encoded contract of Stack::loop_count on the real crate'

LEVEL_TEXT['C17'] = 'Eligibility kernel only. Unbounded deductive proof (Verus) that Parser::substitute_alias replaces exactly the eligible tokens (unquoted literal word token; alias of that name exists; not already inside its own replacement; command position, global alias or after a blank-ending alias value) and that the recursion guard Source::is_alias_for is membership in the chain of alias origins, for chains of every depth. Termination and the resulting token sequence depend on the lexer splice and the async restart protocol and are not decided; level other because the claim is a kernel.'
NOTE['C17'] = 'Eligibility kernel only. Trusted: Verus/Z3; ghost-map model of the glossary; reduced models of Word / Location / Source; lexer calls external_body. Not covered: LexerCore::substitute_alias (splice), restart protocol, keyword recognition in replacement text, alias/unalias built-ins.'
TECH['C17'] = 'contract-based deductive verification (Verus, Z3) of Parser::substitute_alias (eligibility as an iff), LexerCore::is_after_blank_ending_alias (loop invariant over the line buffer) and Source::is_alias_for (structural recursion)'

LEVEL_TEXT['C05'] = 'One mechanism only. Unbounded deductive proof (Verus) that the conversion of a field into pattern characters (Chars::next inside to_pattern) drops quoting characters, keeps every other character in order, and makes a character literal if and only if it was quoted, results from a tilde / hard expansion, or follows an unquoted backslash: quoted text is never a wildcard. The directory search, the matching against entries, the leading-period rule, sorting and the no-match fallback run over the file system and the regex engine and are not decided; level other because the claim is one kernel.'
NOTE['C05'] = 'Kernel only (field -> pattern characters). Trusted: Verus/Z3, vstd iterator model; the loop over the inner iterator checked as while-let; local items lifted out of the function. Not covered: search_dir / push_component, glob() fallback and sort, literal_period, noglob, the file system.'
TECH['C05'] = 'contract-based deductive verification (Verus, Z3) of the pattern-character iterator of to_pattern (loop invariant over the remaining characters)'

LEVEL_TEXT['C13'] = 'Two object-level kernels. Unbounded deductive proof (Verus) that the await functions of Env ask for the internal SIGCHLD disposition before the first wait(), sleep only for SIGCHLD right after an empty wait(), forward every reported status to the job table unchanged, and return what the system reported last for the awaited child (halted / finished only). Bounded Kani check (job tables of <= 1 job, all contents symbolic) that the status step of the wait built-in reports the true exit status of a finished child, 127 for an unknown or disowned one, keeps waiting for a running one, and removes a finished child from the table exactly once. The schedule-quantified content of the property (no deadlock, reaping under every interleaving, pipefail, $!) is outside what contracts decide and is not claimed; level other because the check is bounded and covers one mechanism.'
NOTE['C13'] = 'Object-level kernels only. Trusted: Verus/Z3 (ghost monitor of four opaque calls), Kani/CBMC (job_status on tables of <= 1 job; HashMap stand-in). Not covered: when children change state, the SIGCHLD handler itself, run_virtual / select, pipefail, $!, zombies, every interleaving.'
TECH['C13'] = 'contract-based deductive verification (Verus, Z3) of Env::wait_for_subshell / _to_halt / _to_finish / update_all_subshell_statuses against a ghost call monitor + Kani harness-encoded contract of the wait built-in job_status step on the real crate (bounded: tables of <= 1 job, contents symbolic)'


# --- units added in the session of 2026-09-24/25 (subshellcmd, pipelinerun, startwait, unsetbi, cmdsubst, subshellstart) ---
LEVEL_TEXT['C13'] = LEVEL_TEXT['C13'].replace('Two object-level kernels.', 'Object-level kernels.') + ' Added: unbounded Verus proofs, against ghost monitors of their opaque callees, that a multi-command pipeline starts one child per command in order, closes its last pipe end before it waits, awaits every child exactly once leaving none unreaped, and reports the status of the last command or of the rightmost failure under pipefail (pipeline.rs); that Config::start_and_wait hands out the last halt of exactly the child it started and accepts a mere stop only for a job-controlled child; that Config::start forks once and the child runs its task exactly once after enter_subshell and then exits; that command substitution awaits its child until a halt that is not a stop and records the status it stands for.'
NOTE['C13'] = NOTE['C13'].replace('pipefail, $!, zombies', '$!') + ' Units pipelinerun, startwait, subshellstart, cmdsubst: what the children do and when is not modelled; the calls are opaque and only their order, arguments and number are decided.'
TECH['C13'] = TECH['C13'].replace(' against a ghost call monitor +', ', of execute_commands_in_pipeline / execute_multi_command_pipeline / execute_job_controlled_pipeline and their helpers, Config::start, Config::start_and_wait, command_subst::expand_common against ghost call monitors +')
LEVEL_TEXT['C02'] = LEVEL_TEXT['C02'].replace('Everything a command does is an opaque call', 'the subshell compound command sets $? to the status of the awaited child; a pipeline of no command has status 0, of one command is that command, of several has the status of the last (rightmost failure under pipefail); the first run of a for body starts with the $? the loop was entered with. Everything a command does is an opaque call')
NOTE['C02'] = NOTE['C02'].replace('multi-command pipelines and subshells, ', '')
TECH['C02'] = TECH['C02'].replace('SimpleCommand::execute,', 'SimpleCommand::execute, subshell::execute / subshell_main, execute_commands_in_pipeline and the pipeline runners,')
LEVEL_TEXT['C10'] = LEVEL_TEXT['C10'].replace('What built-in dispatch does', 'A subshell compound command and a multi-command pipeline (with or without job control) consult errexit exactly once, after $? was set to their status; inside a subshell the EXIT trap runs exactly once after the body. What built-in dispatch does')
NOTE['C10'] = NOTE['C10'].replace('the other callers of apply_errexit (pipelines, subshells, built-ins)', 'the callers of apply_errexit in built-in execution')
TECH['C10'] = TECH['C10'].replace('the read-eval loop', 'subshell::execute / subshell_main, execute_commands_in_pipeline, the read-eval loop')
LEVEL_TEXT['C08'] = LEVEL_TEXT['C08'].replace('The rest of C08', 'Added: Config::start (the start-up code of every subshell kind) forks once, saves and restores the parent\'s signal mask on every path, and its child body - checked on a copy of the environment - disowns the jobs, calls enter_subshell exactly once before the task, runs the task once in a Subshell frame with the parent\'s options unchanged, and exits without returning into the parent\'s code; the subshell compound command runs its body only in the child; command substitution leaves neither pipe end behind in the parent on any path. The rest of C08')
NOTE['C08'] = NOTE['C08'] + ' Units subshellstart / subshellcmd / cmdsubst: fork is modelled as "the child body works on a copy of Env"; that the copy is faithful and that nothing flows back (ForkEnvState, the simulated process table) is assumed, not decided.'
TECH['C08'] = TECH['C08'] + ', Config::start (child closure checked inline on a copy of the environment), subshell::execute / subshell_main and command_subst::subshell_body / expand_common against ghost monitors and a descriptor-table model'
LEVEL_TEXT['C14'] = LEVEL_TEXT['C14'] + ' Added (units cmdsubst, pipeset): in command substitution the child\'s standard output is the writing end of the pipe and the parent closes its copy of that end before the single read_all of the reading end, leaving neither end behind; pipeline elements are wired to exactly the previous and the next pipe. The removal of the trailing newlines (string code) is NOT under contract.'
NOTE['C14'] = NOTE['C14'].replace('command substitution, ', 'the UTF-8 / trailing-newline tail of command substitution, ')
TECH['C14'] = TECH['C14'] + ', and of command_subst::subshell_body / expand_common and PipeSet::move_to_stdin_stdout against a ghost descriptor table'
LEVEL_TEXT['C16'] = LEVEL_TEXT['C16'] + ' Added (unit unsetbi): the unset built-in asks the store to unset every operand once, in order, in the global scope.'
TECH['C16'] = TECH['C16'] + ', and of unset_variables / unset_functions of the unset built-in against a log of the store requests'

# --- later units of the same session (dotscript, execglue, execbi, waitcore, runtrap, paramexp, textunit, typesetvars, exportbi, jobstatus, fundef, exitbi, pipelineparse, getoptsk, typesetk) ---
LEVEL_TEXT['C01'] = LEVEL_TEXT['C01'].replace('The statement as a whole', 'Added: how one parameter expansion is put together (ParamRef::expand: an unset parameter under nounset is an error exactly without a switch modifier; switch / trim / length applied once; `$*` joined in a non-splitting context) and what literal / backslashed text units expand to. The statement as a whole')
TECH['C01'] = TECH.get('C01', 'contract-based deductive verification (Verus, Z3) of Ranges::next, Ifs::classify(_attr), Phrase operations, the switch table, double_quote / WordUnit::expand + bounded Kani enumeration of the real splitter') + ', and of ParamRef::expand and TextUnit::expand (opaque callees observed by ghost logs)'
TECH['C02'] = TECH['C02'].replace('return::main,', 'return::main, exit::main, the . built-in, FunctionDefinition::execute, Parser::pipeline,')
LEVEL_TEXT['C09'] = LEVEL_TEXT['C09'].replace('Three callers of the guard (execute_function, execute_external_utility, FullCompoundCommand::execute)', 'Five callers of the guard (execute_function, execute_external_utility, execute_builtin, the child of execute_absent_target, FullCompoundCommand::execute)') + ' Added: the exec built-in always asks to retain its redirections; a command without a name performs its redirections only in a child; the . built-in closes the descriptor it opened for the script.'
TECH['C09'] = TECH['C09'].replace('and of three callers of the guard (execute_function, execute_external_utility, FullCompoundCommand::execute)', 'and of the callers of the guard (execute_function, execute_external_utility, execute_builtin, execute_absent_target, FullCompoundCommand::execute), exec::main and the . built-in')
LEVEL_TEXT['C11'] = LEVEL_TEXT['C11'] + ' Added, against ghost logs of opaque callees: one trap round after every command (Command::execute), each caught signal handed out has its action run exactly once (run_traps_for_caught_signals, run_trap_if_caught), the signals that interrupt `wait` are offered to the trap runner once each in order (wait_for_any_job_or_trap), `$?` is preserved around a trap action (run_trap), the internal dispositions are disabled before an external utility is executed (replace_current_process).'
TECH['C11'] = TECH.get('C11', 'contract-based deductive verification (Verus, Z3) of GrandState / TrapSet operations') + ', and of run_traps_for_caught_signals, run_trap_if_caught, run_trap, run_exit_trap, Command::execute, wait_for_any_job_or_trap, replace_current_process (opaque callees observed by ghost monitors)'
LEVEL_TEXT['C12'] = LEVEL_TEXT['C12'] + ' Added: which jobs enter the table from the interpreter: one job with the child\'s process ID for `cmd &` (with `$!`), and a synchronously awaited child only when it was stopped (handle_job_status).'
TECH['C12'] = TECH.get('C12', 'contract-based deductive verification (Verus, Z3) of the JobList mutators + Kani harness-encoded contracts of the selectors and job-id resolution (bounded shapes)') + ', and of execute_async and handle_job_status (Verus, ghost logs)'
TECH['C13'] = TECH['C13'].replace('command_subst::expand_common against ghost call monitors', 'command_subst::expand_common, handle_job_status, wait_for_any_job_or_trap / Command::await_jobs, execute_async, run_external_utility_in_subshell against ghost call monitors')
LEVEL_TEXT['C16'] = LEVEL_TEXT['C16'] + ' Added: where each kind of command makes its prefixed assignments (special built-in / no command name: the caller\'s contexts, not exported; function, other built-in, external: a volatile exported context that goes away), typeset / local ask for each operand once in the scope of the invocation, export / readonly always in the global scope, execve is given exactly env_c_strings(), and the context guard\'s constructor / destructor bodies.'
TECH['C16'] = TECH['C16'] + ', SetVariables::execute, export::main / readonly::main, execute_builtin / execute_absent_target / execute_function (assignment scope), replace_current_process, ContextGuard (opaque callees observed by ghost logs)'
LEVEL_TEXT['C17'] = LEVEL_TEXT['C17'].replace('Termination and the resulting token sequence', 'Parser::pipeline is proved to consume nothing before it gives up on an alias substitution in first position and to remember a `!` or `|` it consumed when the command after it is re-parsed. Termination and the resulting token sequence')
TECH['C17'] = TECH['C17'] + ', and Parser::pipeline against a monitor of consumed tokens'
LEVEL_TEXT['C20'] = LEVEL_TEXT['C20'] + ' The getopts scanner (getopts::model::next) is checked the same way on 16 concrete argument vectors.'
TECH['C20'] = TECH.get('C20', 'bounded Kani harness-encoded contract of parse_arguments on concrete argument vectors (literal expectations from a reference parser)') + ' + the same for the getopts scanner'
LEVEL_TEXT['C07'] = LEVEL_TEXT['C07'].replace('the printers of state listings', 'four concrete scalar / valueless variables through print_one of typeset -p / export -p (the array form exceeded the budget and is not checked); the other printers of state listings')
TECH['C07'] = TECH.get('C07', 'Kani: complete per-character harnesses of the quoting / lexer classification, bounded harness-encoded contracts of quoted() / Display for Quoted and of the value printer') + ', and of print_one on concrete variables'
LEVEL_TEXT['C18'] = LEVEL_TEXT['C18'].replace('bounded Kani check that read_char of the read built-in decodes and consumes exactly one character under every chunking of the reads.', 'bounded Kani check that read_char of the read built-in decodes and consumes exactly one character under every chunking of the reads, and nothing beyond the first offending byte of an invalid sequence.')

LEVEL_TEXT['C05'] = LEVEL_TEXT['C05'].replace('One mechanism only.', 'Three mechanisms.').replace('The directory search, the matching against entries', 'Added: glob() answers the field itself with quotes removed under noglob (without searching) and when nothing matched, and sorted results otherwise; one level of the directory walk (search_dir) appends a non-pattern component without reading the directory and, for a pattern, takes exactly the entries that are text, neither `.` nor `..`, and matched, each marked existing, omitting none. The recursion through push_component, file_exists, the matching against entries')
NOTE['C05'] = NOTE['C05'].replace('Not covered: search_dir / push_component, glob() fallback and sort, literal_period, noglob, the file system.', 'Units globtop / globdir: push_component, the regex engine, the directory iterator, the sort are opaque calls. Not covered: push_component / file_exists, literal_period (inside the pattern), the file system.')
TECH['C05'] = TECH['C05'] + ', of glob() and of SearchEnv::search_dir (opaque callees observed by ghost logs; loop invariant over the directory entries)'

# ---- session of 2026-09-25 (second part): units wordpipe, lexbuf, forkstate, fgresume, tokentake, leaddot ----
LEVEL_TEXT['C01'] += ' Added (unit wordpipe): the functions that put the stages together (expansion.rs) are proved, against a ghost log of their opaque stages, to run the initial expansion of a word once in a splitting context, to split EVERY field of its result in order with the IFS the variables hold after that expansion, to subject EVERY split field in order to pathname expansion and to deliver exactly those answers in order; the single-field functions expand once, join, remove quotes, and neither split nor glob.'
TECH['C01'] += ' + expand_word_multiple / expand_word_attr / expand_word / expand_word_with_mode / initial Env::new (stages as opaque calls behind a ghost log)'
LEVEL_TEXT['C08'] += ' Added (unit forkstate): ForkEnvState::{extract_from_env, restore_into_env, into_env_with_system, clone} and Env::run_in_child_process are proved to take all fourteen non-system fields of the environment out before the fork and to put them back field for field, so that the parent environment is exactly what it was, and to hand the child task an environment made of exactly the fields of the state (the fork of the system itself is an assumed contract: shared data returned intact).'
TECH['C08'] += ' + ForkEnvState / Env::run_in_child_process (field-by-field frame contracts; the child closure as a nested function)'
LEVEL_TEXT['C18'] = LEVEL_TEXT['C18'].replace('that the lexer requests a new line only when its buffer is exhausted is inside the opaque parse call and is not decided;', 'the line buffer of the lexer (LexerCore::peek_char, consume_char, rewind, flush, reset: unit lexbuf) is proved to ask its input for a line only when every buffered character was consumed and the input is alive, for exactly one line, which the buffer gains complete and in order, and never again after the end of input or an error; the token cache of the parser (unit tokentake) asks the lexer only when it is empty; what lies between the two (the tokenizer) is not decided;')
TECH['C18'] += ' + LexerCore::{peek_char, consume_char, peek_char_at, rewind, pending, flush, reset} (loop invariant over a ghost log of the lines the input handed out) + Parser::{require_token, take_token_raw}'
LEVEL_TEXT['C17'] += ' Added (unit tokentake): Parser::take_token_manual offers exactly the token it took, once, with its caller\'s command-position flag; take_token_auto never claims command position, never offers a reserved word its caller asked for, and hands back the last token it took after every earlier one was replaced (its termination is not decided).'
TECH['C17'] += ' + Parser::{take_token_manual, take_token_auto} against a ghost log of the offers made to substitute_alias'
LEVEL_TEXT['C13'] += ' Added (unit fgresume): fg gives a live job the terminal before SIGCONT goes to its process group only, awaits it exactly once, takes the terminal back and removes the job from the table exactly when it has finished; an already finished job is removed without signal or wait; a job that is not the shell\'s or not job-controlled is refused untouched.'
TECH['C13'] += ' + fg::resume_job_by_index / should_interrupt (ghost log of the opaque system and job-table calls)'
LEVEL_TEXT['C05'] += ' Added (unit leaddot): the flag that switches the leading-period rejection off (Ast::starts_with_literal_dot) is set exactly for a pattern whose first atom is the literal character `.`.'
TECH['C05'] += ' + Ast::starts_with_literal_dot'
LEVEL_TEXT['C11'] += ' Added (unit trapbi): the trap built-in asks the table for exactly its action, once per condition operand, in order, overriding an initially ignored signal exactly in an interactive shell, and reports every refusal.'
TECH['C11'] += ' + trap built-in Command::execute / set_action against a ghost log of the requests made to TrapSet::set_action'
LEVEL_TEXT['C14'] += ' Added (unit heredoc): the descriptor a here-document is read from holds exactly the bytes of the body, rewound to the beginning, and is closed again when it cannot be filled.'
TECH['C14'] += ' + here_doc::open_fd / fill_content over a ghost file map'
LEVEL_TEXT['C08'] += ' Added (unit vfork): a process forked in the simulated system inherits umask, working directory, resource limits, descriptors, dispositions, blocked signals and IDs from its parent (finding F8, repaired).'
TECH['C08'] += ' + Process::fork_from of the simulated system (field-by-field inheritance contract)'
LEVEL_TEXT['C17'] += ' Added (unit simpleparse): Parser::simple_command offers every token in command position exactly while no word of the command has been collected and reports AliasSubstituted to its caller only when nothing had been consumed.'
TECH['C17'] += ' + Parser::simple_command (loop invariant over a ghost monitor of the offers made)'
LEVEL_TEXT['C18'] += ' Added (unit cmdline): Parser::command_line parses one list, takes at most the one newline that ends the line (plus the here-document contents after it) and looks at nothing beyond it.'
TECH['C18'] += ' + Parser::command_line / newline_and_here_doc_contents (monitor of tokens peeked or taken beyond the newline)'
LEVEL_TEXT['C02'] += ' Added (unit listparse): Parser::list hands out exactly the and-or lists parsed, in order, an item being asynchronous exactly when the separator right after it was `&`.'
TECH['C02'] += ' + Parser::list (monitor of parsed and-or lists and separators)'
LEVEL_TEXT['C20'] += ' Added (unit cdsyntax, unbounded Verus proof): the interpretation the cd built-in gives to parsed options and operands depends only on the sequence of occurrences and the operands, by the documented rules (last of -L / -P wins, -e only with -P, at most one non-empty operand); the same for the read built-in (unit readsyntax: last -d names the delimiter, -r raw, last operand the last variable).'
TECH['C20'] += ' + contract-based deductive verification (Verus, Z3) of cd::syntax::parse and read::syntax::parse'
LEVEL_TEXT['C02'] += ' Added (unit andorparse): Parser::and_or_list pairs every pipeline after the first with the operator consumed right in front of it (AndThen exactly for `&&`).'
TECH['C02'] += ' + Parser::and_or_list + Parser::maybe_compound_list + the executor dispatch of CompoundCommand'
LEVEL_TEXT['C05'] += ' Added (unit globpush): SearchEnv::push_component delivers a path at the last component exactly when its existence is known or found, descends below `path/` for exactly the rest of the field otherwise, and restores the path being built.'
TECH['C05'] += ' + SearchEnv::push_component'
LEVEL_TEXT['C12'] += ' Added (units fgresume, bgresume): fg removes a job from the table exactly when it has finished; bg sends SIGCONT to the process group of a live job only, sets `$!` to its process ID and makes it the current job, and never removes it.'
TECH['C12'] += ' + fg / bg resume_job_by_index against ghost logs of the system and job-table calls'
LEVEL_TEXT['C16'] += ' Added (unit assignone): one assignment expands its value once, asks for the variable of its name in the caller\'s scope, assigns once and exports exactly when asked and the assignment succeeded.'
TECH['C16'] += ' + perform_assignment (ghost log of the variable requests)'
LEVEL_TEXT['C13'] += ' Added (unit waitloop): the loop of the wait built-in looks at the job table before it waits and alternates strictly afterwards, answering with the first conclusive look.'
TECH['C13'] += ' + wait_while_running'
LEVEL_TEXT['C09'] += ' Added (unit gettty): the descriptor the shell keeps on its terminal is opened with close-on-exec, moved to the internal range at once, remembered only as the move returned it and opened at most once.'
TECH['C09'] += ' + Env::get_tty (ghost log of open / move_fd_internal calls)'
LEVEL_TEXT['C11'] += ' Added (unit sigcatch): every signal of every batch the system reports is handed to the trap table once, in order (Env::wait_for_signals / wait_for_signal).'
TECH['C11'] += ' + Env::wait_for_signals / wait_for_signal'
TECH['C16'] += ' + Env::get_or_create_variable (allexport)'
TECH['C08'] += ' + RunBlocking::run_blocking (signal mask around tcsetpgrp)'
TECH['C17'] += ' + LexerCore::substitute_alias (the splice)'

def main():
    checks = []
    for pid in ALL:
        if pid not in props.PROPS:
            continue
        P = props.PROPS[pid]
        checks.append({
            'property_id': pid,
            'quick_cmd': 'bin/vcheck %s --tier quick' % pid,
            'thorough_cmd': 'bin/vcheck %s --tier thorough' % pid,
            'evidence_file': 'evidence/%s.json' % pid,
            'replay_cmd_template': 'bin/vcheck replay {path}',
            'engine': 'vcheck',
            'level_claimed': {'category': P['level'], 'text': LEVEL_TEXT[pid], 'design_ref': 'DESIGN.md section 4, ' + pid},
            'level_note': NOTE[pid],
            'technique': TECH[pid],
        })
    na = []
    for pid in ALL:
        if pid in props.PROPS:
            continue
        na.append({'property_id': pid, 'reason': NA.get(pid, PENDING)})
    m = {
        'version': 1,
        'setup_cmd': 'bin/setup',
        'hooks': {
            'guard': 'kani / verif_unit_<name> / verif_map (cfg flags set only in the scratch copy /verif/work/k/ws; nothing is committed to /repo)',
            'enable': 'checks copy /repo\'s working tree to /verif/work/k/ws, append #[cfg(all(kani, verif_unit_*))] modules and run cargo kani there; Verus units extract functions from /repo on every run',
            'baseline_off_cmd': 'cd /repo && cargo test --workspace --no-fail-fast --offline',
            'source_commits': [],
            'add_only': True,
        },
        'engines': [
            {'name': 'vcheck', 'path': 'bin/vcheck', 'serves_properties': sorted(props.PROPS.keys()),
             'kind_free_text': 'driver: Verus units (tools/vunit.py, contracts/v/*) and Kani units (tools/kunit.py, contracts/k/*)'},
        ],
        'checks': checks,
        'not_applicable': na,
        'notes': 'exit 2 (UNDECIDED) is reserved for tool limits and lost anchors and is never an alarm; see DESIGN.md section 3.',
    }
    with open(os.path.join(os.path.dirname(os.path.dirname(os.path.abspath(__file__))), 'MANIFEST.json'), 'w') as fh:
        json.dump(m, fh, indent=1)
    print('claimed', [c['property_id'] for c in checks])


if __name__ == '__main__':
    main()
