// ---------------------------------------------------------------------------
// Prelude of unit varset (types): the variable store of yash-env (property C16).
// ---------------------------------------------------------------------------

/// Placeholder for yash_env::source::Location: only stored, moved and compared here.
#[derive(Clone, Copy, Debug, Eq, PartialEq)]
pub struct Location { pub id: u64 }

/// `#[derive(Clone)]` / `#[derive(Default)]` of `Variable` (ASSUMED structural; the derives are dropped from
/// the extracted struct because Verus gives derived `Clone` of a non-`Copy` type no specification).
impl Clone for Variable {
    #[verifier::external_body]
    fn clone(&self) -> (r: Variable)
        ensures r == *self
    { unimplemented!() }
}
pub open spec fn default_variable() -> Variable {
    Variable { value: None, last_assigned_location: None, is_exported: false, read_only_location: None, quirk: None }
}
impl Default for Variable {
    #[verifier::external_body]
    fn default() -> (r: Variable)
        ensures r == default_variable()
    { unimplemented!() }
}

/// name and value a `name=value` C string was built from (uninterpreted: C strings are not modelled)
pub uninterp spec fn cstr_name(c: std::ffi::CString) -> Seq<char>;
pub uninterp spec fn cstr_value(c: std::ffi::CString) -> Value;

/// The tail of the closure of `env_c_strings` (`let mut result = name.clone(); ... CString::new(result).ok()`), which
/// formats `name=value` (array items joined with `:`) into a C string: string formatting, itertools and CString are
/// outside Verus's reach; the call stands for that tail, behind an ASSUMED contract that only says which name and which
/// value went in (rewrite rule tokens-to-helper; the formatting itself is NOT verified).
#[verifier::external_body]
pub fn verif_env_entry(name: &String, value: &Value) -> (r: Option<std::ffi::CString>)
    ensures r is Some ==> cstr_name(r->0) == name@ && cstr_value(r->0) == *value,
{
    // In the code (yash-env/src/variable.rs, matched token for token by the rewrite rule, so any edit of it is a lost anchor):
    //     let mut result = name.clone();
    //     result.push('=');
    //     match value {
    //         Scalar(value) => result.push_str(value),
    //         Array(values) => write!(result, "{}", values.iter().format(":")).ok()?,
    //     }
    //     CString::new(result).ok()
    // (not compiled here: itertools is not linked into the single-file build)
    unimplemented!()
}
