// ---------------------------------------------------------------------------
// Prelude of unit wordpipe (property C01, kernel): yash-semantics/src/expansion.rs, the functions that put the stages of word
// expansion together (expand_word_multiple, expand_word_attr, expand_word, expand_word_with_mode, expand_words) and the
// constructor of the expansion environment (initial.rs Env::new).
// C01 "expansion produces exactly the fields of POSIX XCU 2.6 ... only unquoted expansion results are split on IFS ... fields that
// expand to nothing disappear unless quoted": a word that is expanded to several fields goes through the stages in the order of
// XCU 2.6 - the initial expansion of the word, once, in a splitting context; then field splitting of EVERY field of the result, in
// order, with the IFS the variables hold AFTER the initial expansion (`${IFS=x}` inside the word counts); then pathname expansion
// of EVERY split field, in order - and the answer is what was there plus exactly the results of those pathname expansions, in
// order, nothing dropped, nothing added, nothing reordered.  A word that is expanded to ONE field (assignments, redirection
// operands, here-documents, case subjects) is expanded once, joined with the IFS of that moment, has its quotes removed, and is
// neither split nor subjected to pathname expansion.
//
// Hand-written model text (ASSUMED): the initial expansion of a word (unit textunit / paramexp / dquote have its parts), the
// splitting of one field (unit split has Ranges::next), pathname expansion of one field (units globtop / globdir), ifs_join (unit
// phrase), quote removal are opaque calls that record themselves in a ghost log; iterating a phrase yields its fields in order;
// `results.extend(..)` is Vec::extend at the vector type.
// ---------------------------------------------------------------------------
pub trait Runtime {}
pub struct Location { pub verif_opaque: u8 }
impl Clone for Location {
    #[verifier::external_body]
    fn clone(&self) -> (r: Location) ensures r == *self { unimplemented!() }
}
pub struct ExitStatus(pub i32);
impl Clone for ExitStatus { fn clone(&self) -> (r: ExitStatus) ensures r == *self { ExitStatus(self.0) } }
impl Copy for ExitStatus {}
pub struct AttrChar { pub verif_c: int }
pub struct AttrField { pub chars: Vec<AttrChar>, pub origin: Location }
pub struct Field { pub verif_id: int }
pub struct Word { pub verif_id: int, pub location: Location }
pub struct Text { pub verif_id: int }
pub struct VariableSet { pub verif_opaque: u8 }
pub uninterp spec fn scalar_of(vars: VariableSet, name: Seq<char>) -> Option<Seq<char>>;
impl VariableSet {
    /// variable.rs VariableSet::get_scalar: the value of the visible variable if it is a scalar
    #[verifier::external_body]
    pub fn get_scalar(&self, name: &str) -> (r: Option<&str>)
        ensures (match r { Some(v) => Some(v@), None => None }) == scalar_of(*self, name@)
    { unimplemented!() }
}
/// the separators an IFS value (or no IFS at all) stands for: uninterpreted
pub uninterp spec fn ifs_id(value: Option<Seq<char>>) -> int;
pub open spec fn cur_ifs(vars: VariableSet) -> int { ifs_id(scalar_of(vars, IFS@)) }
pub struct Ifs<'a> { pub verif_id: Ghost<int>, pub verif_pd: core::marker::PhantomData<&'a str> }
/// `.map(Ifs::new).unwrap_or_default()` on the value of $IFS (split.rs Ifs::new / Default: unit splitk has them, bounded)
#[verifier::external_body]
pub fn verif_ifs_of<'a>(value: Option<&'a str>) -> (r: Ifs<'a>)
    ensures r.verif_id@ == ifs_id(match value { Some(v) => Some(v@), None => None })
{ unimplemented!() }

pub enum GlobResult { One(std::result::Result<Field, Interrupted>), Many(Seq<Field>) }
pub enum Ev {
    /// the initial expansion of a word ran: in which context, with what result, and which IFS the variables hold afterwards
    Expanded { word: int, will_split: bool, phrase: Option<Seq<Seq<AttrChar>>>, ifs_after: int, status: Option<ExitStatus> },
    /// pathname expansion of one field ran, with this answer
    Globbed { chars: Seq<AttrChar>, result: GlobResult },
}
pub mod yash_env {
    pub struct Env<S> { pub variables: super::VariableSet, pub verif_log: vstd::prelude::Ghost<vstd::prelude::Seq<super::Ev>>, pub system: S }
}

// ---- the stages (opaque) ---------------------------------------------------------------------------------------------------------
pub struct Phrase { pub verif_fields: Ghost<Seq<Seq<AttrChar>>>, pub verif_opaque: u8 }
pub uninterp spec fn joined(fields: Seq<Seq<AttrChar>>, vars: VariableSet) -> Seq<AttrChar>;
impl Phrase {
    #[verifier::external_body]
    pub fn field_count(&self) -> (r: usize) { unimplemented!() }
    /// phrase.rs IntoIterator for Phrase: the fields, in order
    #[verifier::external_body]
    pub fn verif_into_fields(self) -> (r: Vec<Vec<AttrChar>>)
        ensures r@.len() == self.verif_fields@.len(), forall|i: int| 0 <= i < r@.len() ==> (#[trigger] r@[i])@ == self.verif_fields@[i]
    { unimplemented!() }
    /// phrase.rs ifs_join (unit phrase)
    #[verifier::external_body]
    pub fn ifs_join(self, vars: &VariableSet) -> (r: Vec<AttrChar>) ensures r@ == joined(self.verif_fields@, *vars) { unimplemented!() }
}
pub struct ErrorCauseInterrupted { pub verif_opaque: u8 }
pub struct Interrupted { pub verif_opaque: u8 }
impl From<Interrupted> for ErrorCauseInterrupted {
    #[verifier::external_body]
    fn from(i: Interrupted) -> ErrorCauseInterrupted { unimplemented!() }
}
pub enum ErrorCause { Interrupted(ErrorCauseInterrupted), Other(u8) }
pub struct Error { pub cause: ErrorCause, pub location: Location }
pub type Result<T> = std::result::Result<T, Error>;

pub trait Expand<S> { fn expand(&self, env: &mut initial::Env<'_, S>) -> std::result::Result<Phrase, Error>; }
impl<S> Expand<S> for Word {
    /// the initial expansion of a word: may run commands, assign variables - anything; it is recorded
    #[verifier::external_body]
    fn expand(&self, env: &mut initial::Env<'_, S>) -> (r: std::result::Result<Phrase, Error>)
        ensures
            final(env).inner.verif_log@ == old(env).inner.verif_log@.push(Ev::Expanded { word: self.verif_id, will_split: old(env).will_split,
                phrase: match r { Ok(p) => Some(p.verif_fields@), Err(_) => None }, ifs_after: cur_ifs(final(env).inner.variables), status: final(env).last_command_subst_exit_status }),
            final(env).will_split == old(env).will_split, mut_ref_future(final(env).inner) == mut_ref_future(old(env).inner),
    { unimplemented!() }
}

/// what splitting one field with these separators gives (split.rs split_into; unit split has the state machine)
pub uninterp spec fn split_spec(chars: Seq<AttrChar>, ifs: int) -> Seq<Seq<AttrChar>>;
pub open spec fn chars_of(v: Seq<AttrField>) -> Seq<Seq<AttrChar>> { Seq::new(v.len(), |i: int| v[i].chars@) }
pub mod split {
    use super::*;
    #[verifier::external_body]
    pub fn split_into(field: AttrField, ifs: &Ifs<'_>, results: &mut Vec<AttrField>)
        ensures chars_of(final(results)@) =~= chars_of(old(results)@) + split_spec(field.chars@, ifs.verif_id@)
    { unimplemented!() }
}
/// every field of the phrase split, in order
pub open spec fn split_all(p: Seq<Seq<AttrChar>>, ifs: int) -> Seq<Seq<AttrChar>>
    decreases p.len()
{
    if p.len() == 0 { Seq::empty() } else { split_all(p.drop_last(), ifs) + split_spec(p.last(), ifs) }
}

pub struct Glob<'a, S> { pub verif_result: Ghost<GlobResult>, pub verif_pd: core::marker::PhantomData<&'a mut yash_env::Env<S>> }
pub struct ManyIter { pub verif_fields: Ghost<Seq<Field>>, pub verif_opaque: u8 }
pub struct OnceIter { pub verif_item: Ghost<std::result::Result<Field, Interrupted>>, pub verif_opaque: u8 }
impl OnceIter {
    /// std::iter::Once::next on a fresh iterator: the one item
    #[verifier::external_body]
    pub fn next(&mut self) -> (r: Option<std::result::Result<Field, Interrupted>>) ensures r == Some(old(self).verif_item@) { unimplemented!() }
}
impl<'a, S> Glob<'a, S> {
    /// glob.rs Glob::try_into_vec_iter: the many-fields answer, or else the one-item answer
    #[verifier::external_body]
    pub fn try_into_vec_iter(self) -> (r: std::result::Result<ManyIter, OnceIter>)
        ensures match self.verif_result@ { GlobResult::Many(v) => r matches Ok(m) && m.verif_fields@ == v, GlobResult::One(x) => r matches Err(o) && o.verif_item@ == x }
    { unimplemented!() }
}
/// pathname expansion of one field (glob.rs glob: units globtop, globdir, globchars)
#[verifier::external_body]
pub fn glob<'a, S>(env: &'a mut yash_env::Env<S>, field: AttrField) -> (g: Glob<'a, S>)
    ensures final(env).verif_log@ == old(env).verif_log@.push(Ev::Globbed { chars: field.chars@, result: g.verif_result@ }), final(env).variables == old(env).variables
{ unimplemented!() }
/// `results.extend(fields)` (Vec::extend with the many-fields answer)
#[verifier::external_body]
pub fn verif_extend(results: &mut Vec<Field>, fields: ManyIter) ensures final(results)@ == old(results)@ + fields.verif_fields@ { unimplemented!() }
/// `results.extend(std::iter::once(field))`
#[verifier::external_body]
pub fn verif_extend_one(results: &mut Vec<Field>, field: Field) ensures final(results)@ == old(results)@.push(field) { unimplemented!() }

pub open spec fn fields_of(r: GlobResult) -> Seq<Field> {
    match r { GlobResult::Many(v) => v, GlobResult::One(Ok(f)) => seq![f], GlobResult::One(Err(_)) => Seq::empty() }
}
/// the answers of the n pathname expansions recorded from position `from` on, one after the other
pub open spec fn globbed(log: Seq<Ev>, from: int, n: int) -> Seq<Field>
    decreases n
{
    if n <= 0 { Seq::empty() } else { globbed(log, from, n - 1) + (match log[from + n - 1] { Ev::Globbed { chars, result } => fields_of(result), _ => Seq::empty() }) }
}
pub proof fn lemma_globbed_prefix(l0: Seq<Ev>, l1: Seq<Ev>, from: int, n: int)
    requires n >= 0, from >= 0, l0.len() >= from + n, l1.len() >= l0.len(), forall|k: int| 0 <= k < l0.len() ==> l1[k] == l0[k]
    ensures globbed(l1, from, n) == globbed(l0, from, n)
    decreases n
{
    if n > 0 { lemma_globbed_prefix(l0, l1, from, n - 1); }
}
/// quote removal + attribute stripping of one field
pub uninterp spec fn unquoted(chars: Seq<AttrChar>) -> int;
impl AttrField {
    #[verifier::external_body]
    pub fn remove_quotes_and_strip(self) -> (r: Field) ensures r.verif_id == unquoted(self.chars@) { unimplemented!() }
}
pub enum ExpansionMode { Single, Multiple }
/// std::mem::drop of the borrowed IFS value: the value is gone (it has no destructor)
pub assume_specification<T>[ core::mem::drop::<T> ](x: T);

// ---- for expand_words: the events of several words one after the other --------------------------------------------------------------
pub proof fn lemma_globbed_split(l: Seq<Ev>, from: int, a: int, b: int)
    requires a >= 0, b >= 0
    ensures globbed(l, from, a + b) =~= globbed(l, from, a) + globbed(l, from + a, b)
    decreases b
{
    if b > 0 { lemma_globbed_split(l, from, a, b - 1); }
}
/// an expansion event delivers nothing itself: the answers of `word-expansion, m pathname expansions` are those of the m
pub proof fn lemma_globbed_skip(l: Seq<Ev>, from: int, m: int)
    requires m >= 0, l[from] is Expanded
    ensures globbed(l, from, 1 + m) =~= globbed(l, from + 1, m)
{
    lemma_globbed_split(l, from, 1, m);
    assert(globbed(l, from, 1) =~= globbed(l, from, 0) + Seq::<Field>::empty());
}
/// the words whose initial expansion is recorded among the n events from position `from` on, in order
pub open spec fn expanded_words(l: Seq<Ev>, from: int, n: int) -> Seq<int>
    decreases n
{
    if n <= 0 { Seq::empty() } else {
        let rest = expanded_words(l, from, n - 1);
        match l[from + n - 1] { Ev::Expanded { word, will_split, phrase, ifs_after, status } => rest.push(word), _ => rest }
    }
}
pub proof fn lemma_expanded_prefix(l0: Seq<Ev>, l1: Seq<Ev>, from: int, n: int)
    requires n >= 0, from >= 0, l0.len() >= from + n, l1.len() >= l0.len(), forall|k: int| 0 <= k < l0.len() ==> l1[k] == l0[k]
    ensures expanded_words(l1, from, n) == expanded_words(l0, from, n)
    decreases n
{ if n > 0 { lemma_expanded_prefix(l0, l1, from, n - 1); } }
/// one word: its expansion event followed by m events that are no expansions
pub proof fn lemma_expanded_one(l: Seq<Ev>, from: int, m: int, w: int)
    requires m >= 0, (l[from] matches Ev::Expanded { word, will_split, phrase, ifs_after, status } && word == w), forall|k: int| from < k <= from + m ==> !(#[trigger] l[k] is Expanded)
    ensures expanded_words(l, from, 1 + m) =~= seq![w]
    decreases m
{
    if m > 0 { lemma_expanded_one(l, from, m - 1, w); } else { assert(expanded_words(l, from, 0) =~= Seq::<int>::empty()); }
}
pub proof fn lemma_expanded_split(l: Seq<Ev>, from: int, a: int, b: int)
    requires a >= 0, b >= 0
    ensures expanded_words(l, from, a + b) =~= expanded_words(l, from, a) + expanded_words(l, from + a, b)
    decreases b
{
    if b > 0 { lemma_expanded_split(l, from, a, b - 1); }
}
pub open spec fn word_ids(w: Seq<Word>) -> Seq<int> { Seq::new(w.len(), |i: int| w[i].verif_id) }
