// ---------------------------------------------------------------------------
// Prelude of unit tokentake (properties C17 / C18, kernel): yash-syntax/src/parser/core.rs Parser::{require_token, take_token_raw,
// take_token_manual, take_token_auto} - where the parser asks the lexer for a token and where it offers a token to alias
// substitution.
// C17 "only an unquoted literal word in command position (or following an alias value that ends with a blank, or naming a global
// alias) is replaced; reserved words ... are never replaced where the grammar expects them": take_token_manual offers exactly
// the token it took, once, with exactly the command-position flag of its caller; take_token_auto never claims command
// position, never offers a reserved word its caller asked for, hands back the last token it took, and every token it took
// before that one was replaced by an alias.  C18 "no further than the running command needs": the lexer is asked for a token only
// when none is cached (blanks and comments first, the token only if that went well), and taking the token empties the cache.
//
// Hand-written model text (ASSUMED): the struct Parser (its lexer an opaque object with a ghost log; the alias glossary and
// the here-document list left out), Lexer::skip_blanks_and_comment / Lexer::token (async), Parser::substitute_alias (unit
// aliaselig has the real one) are opaque calls recorded in ghost logs; `keywords.contains(&keyword)` is one helper.
// ---------------------------------------------------------------------------
pub struct Word { pub verif_id: int }
#[derive(Clone, Copy, Debug, Eq, PartialEq)] pub struct Keyword(pub u8);
impl vstd::std_specs::cmp::PartialEqSpecImpl for Keyword {
    open spec fn obeys_eq_spec() -> bool { true }
    open spec fn eq_spec(&self, other: &Keyword) -> bool { *self == *other }
}
#[derive(Clone, Copy, Debug, Eq, PartialEq)] pub struct Operator(pub u8);
pub struct Error { pub verif_opaque: u8 }
pub type Result<T> = std::result::Result<T, Error>;
pub enum LexEv { Skipped { ok: bool }, Tokenized { token: Option<Token> } }
pub struct Lexer<'b> { pub log: Ghost<Seq<LexEv>>, pub verif_pd: core::marker::PhantomData<&'b u8> }
impl<'b> Lexer<'b> {
    #[verifier::external_body]
    pub fn skip_blanks_and_comment(&mut self) -> (r: Result<()>) ensures final(self).log@ == old(self).log@.push(LexEv::Skipped { ok: r is Ok }) { unimplemented!() }
    #[verifier::external_body]
    pub fn token(&mut self) -> (r: Result<Token>) ensures final(self).log@ == old(self).log@.push(LexEv::Tokenized { token: match r { Ok(t) => Some(t), Err(_) => None } }) { unimplemented!() }
}
/// an offer of a token to alias substitution: which token, whether in command position, and whether it was replaced
pub struct Offer { pub token: Token, pub is_command_name: bool, pub replaced: bool }
pub struct Parser<'a, 'b> { pub lexer: &'a mut Lexer<'b>, pub token: Option<Result<Token>>, pub offers: Ghost<Seq<Offer>> }
impl<'a, 'b> Parser<'a, 'b> {
    /// Parser::substitute_alias (unit aliaselig): the token comes back unless it was replaced
    #[verifier::external_body]
    pub fn substitute_alias(&mut self, token: Token, is_command_name: bool) -> (r: Rec<Token>)
        ensures final(self).offers@ == old(self).offers@.push(Offer { token, is_command_name, replaced: r is AliasSubstituted }),
            r matches Rec::Parsed(t) ==> t == token,
            // a replacement rewinds the lexer: no token is cached afterwards (it was taken before the offer)
            final(self).token == old(self).token, mut_ref_future(final(self).lexer) == mut_ref_future(old(self).lexer), final(self).lexer.log@.len() >= old(self).lexer.log@.len(),
            forall|k: int| 0 <= k < old(self).lexer.log@.len() ==> #[trigger] final(self).lexer.log@[k] == old(self).lexer.log@[k]
    { unimplemented!() }
}
/// `keywords.contains(&keyword)` (std)
#[verifier::external_body]
pub fn verif_contains(keywords: &[Keyword], keyword: &Keyword) -> (r: bool) ensures r == keywords@.contains(*keyword) { keywords.contains(keyword) }
