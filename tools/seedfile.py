"""usage: seedfile.py <dir with patch.diff demo.rs notes.json> ...  -- confirm a sub-agent's change in a scratch worktree
(tools/seedconfirm.py, without touching /repo), file it under seeded/<id>/ and take breaks / needs_to_manifest / touched_files
from its notes.json.  Detection is judged afterwards by tools/seedscratch.py <id> on a scratch copy."""
import json, os, subprocess, sys
VERIF = os.path.dirname(os.path.dirname(os.path.abspath(__file__)))
for d in sys.argv[1:]:
    n = json.load(open(os.path.join(d, 'notes.json')))
    sid = n['id']
    cmd = ['python3', os.path.join(VERIF, 'tools/seedconfirm.py'), sid, n['property'], os.path.join(d, 'patch.diff'), os.path.join(d, 'demo.rs'),
           n['demo_placement'], n['crate'], n.get('demo_filter') or '']
    p = subprocess.run(cmd, env=dict(os.environ, SEED_NO_CHECK='1'), capture_output=True, text=True)
    print(sid, (p.stdout + p.stderr)[-400:])
    mp = os.path.join(VERIF, 'seeded', sid, 'meta.json')
    if os.path.exists(mp):
        m = json.load(open(mp))
        m['breaks'] = n.get('breaks'); m['needs_to_manifest'] = n.get('needs_to_manifest'); m['touched_files'] = n.get('touched_files')
        json.dump(m, open(mp, 'w'), indent=1)
