// ---------------------------------------------------------------------------
// Prelude of unit replloop (properties C18 / C10, kernel): the read-eval loop
// (yash-semantics/src/runner.rs read_eval_loop_impl, read_eval_loop, interactive_read_eval_loop).
// C18 "each command runs before the next is read": parsing a command line and running it alternate strictly - a line is
// parsed only when nothing parsed is waiting to run and the previous command is over - and every line is parsed in the
// mode the CURRENT options give (so that `set -o ...` of one line is in force when the next is parsed).  C10 "abort
// exactly when ... a shell error says so": the loop ends at the first divert that comes out of a command or of the
// handler of a parser error and hands it on unchanged; an INTERACTIVE shell alone survives an interrupt of a command
// and a syntax error: it takes the status the interrupt carries, throws away the rest of the input line and goes on.
//
// Hand-written model text (ASSUMED): reading + parsing one command line (the Parser::config() chain), run_command (unit
// trapsrun) and the handler of parser errors (unit errhandle) are opaque calls that drive a ghost monitor automaton in
// the reduced Env; the lexer is reduced to ghost data (the option generation its mode was set from, whether its
// buffer has been thrown away since the last parse).  The `RefCell<&mut Env>` the real function takes (it lends the environment to the parser for alias look-up)
// is checked as `&mut Env`: `env.borrow()` / `env.borrow_mut()` are the reference itself.  Await points are dropped.
// ---------------------------------------------------------------------------
pub assume_specification<B, C>[ <ControlFlow<B, C> as core::ops::Try>::branch ](cf: ControlFlow<B, C>) -> (r: ControlFlow<<ControlFlow<B, C> as core::ops::Try>::Residual, <ControlFlow<B, C> as core::ops::Try>::Output>)
    ensures match cf { ControlFlow::Continue(c) => r == ControlFlow::<ControlFlow<B, core::convert::Infallible>, C>::Continue(c), ControlFlow::Break(b) => r == ControlFlow::<ControlFlow<B, core::convert::Infallible>, C>::Break(ControlFlow::Break(b)) };
pub assume_specification<B, C>[ <ControlFlow<B, C> as core::ops::FromResidual<ControlFlow<B, core::convert::Infallible>>>::from_residual ](res: ControlFlow<B, core::convert::Infallible>) -> (r: ControlFlow<B, C>)
    ensures res matches ControlFlow::Break(b) ==> r == ControlFlow::<B, C>::Break(b);

pub trait Runtime {}
/// the option set, reduced to a generation number: it changes whenever a command may have changed an option
pub struct OptionSet { pub verif_gen: Ghost<int> }
pub struct Mode { pub verif_gen: Ghost<int> }
impl Mode {
    /// yash_env::parser::Mode::from(&OptionSet): the parsing mode these options give
    #[verifier::external_body]
    pub fn from(options: &OptionSet) -> (m: Mode) ensures m.verif_gen@ == options.verif_gen@ { unimplemented!() }
}
pub struct List { pub verif_id: int }
pub struct SyntaxError { pub verif_opaque: u8 }
pub struct IoError { pub verif_opaque: u8 }
pub enum ErrorCause { Syntax(SyntaxError), Io(IoError) }
pub struct ParserError { pub cause: ErrorCause }

/// what happened last
pub enum Last {
    Start,
    /// a command line was read and parsed: a command (its identity), the end of input, or an error
    ParsedCommand { id: int },
    ParsedEof,
    ParsedError { syntax: bool },
    /// the command was run / the parser error was handled: what came out, and whether an interactive shell may go on after
    /// an interrupt (always after a command; after a parser error only when it is a syntax error)
    Done { result: Result, recoverable: bool },
}
pub struct Mon {
    pub interactive: bool,
    pub last: Last,
    /// a call happened out of turn, a line was parsed in a stale mode, or the shell went on after an interrupt without taking
    /// its status and throwing away the rest of the line
    pub wrong: bool,
    pub parses: nat,
    pub runs: nat,
}
pub struct Env<S> { pub exit_status: ExitStatus, pub options: OptionSet, pub mon: Ghost<Mon>, pub system: S }
/// `verif_flushed`: the buffer has been thrown away since the last command line was parsed
pub struct Lexer<'a> { pub verif_mode: Ghost<Option<int>>, pub verif_flushed: Ghost<bool>, pub verif_pending: bool, pub verif_a: core::marker::PhantomData<&'a u8> }
impl<'a> Lexer<'a> {
    #[verifier::external_body]
    pub fn pending(&self) -> (r: bool) ensures r == self.verif_pending { unimplemented!() }
    #[verifier::external_body]
    pub fn flush(&mut self) ensures final(self).verif_flushed@, final(self).verif_mode@ == old(self).verif_mode@ { unimplemented!() }
    #[verifier::external_body]
    pub fn set_mode(&mut self, mode: Mode) ensures final(self).verif_mode@ == Some(mode.verif_gen@), final(self).verif_flushed@ == old(self).verif_flushed@ { unimplemented!() }
}
/// a new command line may be read and parsed now
pub open spec fn may_parse<S>(env: Env<S>, lexer: Lexer) -> bool {
    let m = env.mon@;
    &&& lexer.verif_mode@ == Some(env.options.verif_gen@)
    &&& match m.last {
        Last::Start => true,
        Last::Done { result, recoverable } => match result {
            ControlFlow::Continue(_) => true,
            // only an interactive shell goes on after an interrupt, and only having taken its status and thrown away the
            // rest of the line
            ControlFlow::Break(Divert::Interrupt(st)) => m.interactive && recoverable && lexer.verif_flushed@ && (st matches Some(s) ==> env.exit_status == s),
            _ => false,
        },
        _ => false,
    }
}
/// `Parser::config().aliases(env).declaration_utilities(env).input(lexer).command_line()`: reads as many lines as one
/// command line needs and parses it
#[verifier::external_body]
pub fn verif_command_line<'a, S>(env: &mut Env<S>, lexer: &mut Lexer<'a>) -> (r: std::result::Result<Option<List>, ParserError>)
    ensures
        final(env).mon@ == (Mon {
            last: match r { Ok(Some(c)) => Last::ParsedCommand { id: c.verif_id }, Ok(None) => Last::ParsedEof, Err(e) => Last::ParsedError { syntax: e.cause is Syntax } },
            wrong: old(env).mon@.wrong || !may_parse(*old(env), *old(lexer)),
            parses: old(env).mon@.parses + 1,
            ..old(env).mon@ }),
        final(env).exit_status == old(env).exit_status, final(env).options == old(env).options,
        final(lexer).verif_mode@ == old(lexer).verif_mode@, !final(lexer).verif_flushed@
{ unimplemented!() }
/// runner.rs run_command (unit trapsrun): traps, job statuses, then the command; the options may have changed afterwards
#[verifier::external_body]
pub fn run_command<S>(env: &mut Env<S>, command: &List) -> (r: Result)
    ensures
        final(env).mon@ == (Mon {
            last: Last::Done { result: r, recoverable: true },
            wrong: old(env).mon@.wrong || !(old(env).mon@.last matches Last::ParsedCommand { id } && id == command.verif_id),
            runs: old(env).mon@.runs + 1,
            ..old(env).mon@ }),
{ unimplemented!() }
impl ParserError {
    /// handle.rs (unit errhandle)
    #[verifier::external_body]
    pub fn handle<S>(&self, env: &mut Env<S>) -> (r: Result)
        ensures
            final(env).mon@ == (Mon {
                last: Last::Done { result: r, recoverable: self.cause is Syntax },
                wrong: old(env).mon@.wrong || !(old(env).mon@.last matches Last::ParsedError { syntax } && syntax == (self.cause is Syntax)),
                ..old(env).mon@ }),
            final(env).options == old(env).options
    { unimplemented!() }
}
