// ASSUMED: cloning an iterator gives an iterator over the same remaining items (true of every iterator the
// parser is instantiated with: WithEscape / WithoutEscape over `Chars`, `vec::IntoIter`, slice iterators).
pub broadcast axiom fn axiom_iter_clone<I: Iterator + Clone>(a: I, b: I)
    requires #[trigger] call_ensures(I::clone, (&a,), b),
    ensures
        b.remaining() == a.remaining(),
        b.obeys_prophetic_iter_laws() == a.obeys_prophetic_iter_laws(),
        b.decrease() == a.decrease();

/// value of `v.into()` as a BracketAtom: ASSUMED identity on BracketAtom (std's reflexive `impl<T> From<T> for T`),
/// which makes the blanket `impl<T: Into<BracketAtom>> From<T> for BracketItem` wrap an atom into `BracketItem::Atom`
pub uninterp spec fn into_atom<T>(v: T) -> super::fp::BracketAtom;
pub broadcast axiom fn axiom_into_atom_id(a: super::fp::BracketAtom)
    ensures #[trigger] into_atom::<super::fp::BracketAtom>(a) == a;

/// ASSUMED: a `String` is determined by its characters (std: `String: Eq` compares contents), and every sequence of
/// characters is the content of a `String`.
pub uninterp spec fn string_of(s: Seq<char>) -> String;
pub broadcast axiom fn axiom_string_of_view(s: Seq<char>)
    ensures #[trigger] string_of(s)@ == s;
pub broadcast axiom fn axiom_string_of_inv(s: String)
    ensures #[trigger] string_of(s@) == s;

