# Unit aliaselig: which token an alias replaces, and the recursion guard (kernel of property C17).
PC = 'yash-syntax/src/parser/core.rs'
LC = 'yash-syntax/src/parser/lex/core.rs'
SRC = 'yash-env/src/source.rs'
MOD_HEAD = '''    use vstd::prelude::*;
    use std::rc::Rc;
'''
UNIT = {
    'name': 'aliaselig',
    'property': 'C17',
    'rlimit': 60,
    'verus_args': ['--edition=2024'],
    'controls': 'auto',
    'vacuity_floor': 2,
    'items': [
        ('@raw', 'pub mod ae {\n' + MOD_HEAD),
        (LC, ['enum TokenId'], {'drop_derives': 'all'}),
        (LC, ['struct Token'], {'drop_derives': 'all'}),
        ('@raw', 'pub use TokenId::*;\n'),
        (PC, ['enum Rec'], {'drop_derives': 'all'}),
        (LC, ['struct SourceCharEx'], {'pub_fields': True, 'vis': 'pub', 'drop_derives': 'all'}),
        ('@file', 'prelude.rs'),
        (SRC, ['impl Source', 'fn is_alias_for'], {'ret': 'r',
            'token_rewrites': [('alias . name == name', 'verif_name_eq(&alias.name, name)')],
            'ensures': ['r == in_alias_chain(*self, name@)'],
            'decreases': ['*self']}),
        (LC, ["impl<'a> LexerCore<'a>", 'fn is_after_blank_ending_alias'], {'ret': 'r', 'rewrites': ['let-chain-nest'],
            'requires': ['index as int <= self.source@.len()'],
            'token_rewrites': [
                # `for index in (0..index).rev()` = the indices below `index` from the highest to the lowest
                ('for $v in ( 0 .. index ) . rev ( ) {',
                 'let ghost verif_top = index as int; let mut verif_n: usize = index;\n'
                 '        while verif_n > 0\n'
                 '            invariant verif_n as int <= verif_top <= self.source@.len(), verif_top == index as int,\n'
                 '                forall|j: int| verif_n as int <= j < verif_top ==> blankish(#[trigger] self.source@[j]) && !alias_value_ends_at(self.source@, j),\n'
                 '            decreases verif_n,\n'
                 '        {\n'
                 '            verif_n -= 1; let $v = verif_n;'),
                ('Source :: Alias { ref alias , .. } = * sc . value . location . code . source', 'Source::Alias { alias, .. } = &*sc.value.location.code.source'),
            ],
            'ghost_before': [
                ('return false ;', 'proof { assert(!blankish(self.source@[$v as int])); assert forall|k: int| 0 <= k < verif_top && k < self.source@.len() && (forall|j: int| k <= j < verif_top ==> blankish(#[trigger] self.source@[j])) implies !alias_value_ends_at(self.source@, k) by { if k <= $v as int { assert(blankish(self.source@[$v as int])); } } assert(!after_blank_ending(self.source@, verif_top)); }'),
                ('return true ;', 'proof { assert(alias_value_ends_at(self.source@, $v as int)); assert(forall|j: int| $v as int <= j < verif_top ==> blankish(#[trigger] self.source@[j])); assert(after_blank_ending(self.source@, verif_top)); }'),
            ],
            'nested': {
                'ends_with_blank': {'ret': 'b', 'attrs': ['#[verifier::external_body]'], 'ensures': ['b == text_ends_with_blank(s@)']},
                'is_same_alias': {'ret': 'b',
                    'closures': {0: {'ret': 'c: bool', 'param_types': ['&SourceCharEx'], 'ensures': ['c == in_alias_chain(*sc.value.location.code.source, alias.name@)']}},
                    'ensures': ['b == (sc matches Some(x) && in_alias_chain(*x.value.location.code.source, alias.name@))']},
            },
            'ensures': ['r == after_blank_ending(self.source@, index as int)'],
            }),
        (LC, ["impl<'a> Lexer<'a>", 'fn is_after_blank_ending_alias'], {'ret': 'r',
            'requires': ['index as int <= self.core.source@.len()'],
            'ensures': ['r == self.after_blank_ending_alias(index)']}),
        (PC, ["impl<'a, 'b> Parser<'a, 'b>", 'fn substitute_alias'], {'ret': 'r', 'rewrites': ['let-chain-nest'],
            'wrapper': "impl<'a, 'b, G: Glossary> Parser<'a, 'b, G>",
            'requires': ['token.index as int <= old(self).lexer.core.source@.len()'],
            'ensures': [
                # exactly the eligible tokens are replaced ...
                'r is AliasSubstituted <==> eligible(old(self).aliases, &*old(self).lexer, token, is_command_name)',
                # ... by the alias of that name, at the position of the token, once
                'r is AliasSubstituted ==> final(self).lexer.verif_log@ == old(self).lexer.verif_log@.push((token.index, old(self).aliases.aliases()[token.word.literal()->0]))',
                # every other token is handed back as it is and the input is not touched
                'r matches Rec::Parsed(t) ==> t == token && final(self).lexer.verif_log@ == old(self).lexer.verif_log@',
            ]}),
        ('@raw', '}\n'),
    ],
}
