// ---------------------------------------------------------------------------
// Prelude of unit cmdsubst (properties C14 / C13 / C08, kernel): command substitution
// (yash-semantics/src/expansion/initial/command_subst.rs subshell_body, expand_common).
// C14 "bytes ... produced inside a command substitution reach the reader completely": in the child the standard output IS
// the writing end of the pipe (and the child holds no other descriptor of the pipe) when the command text is run; in the
// parent the writing end is closed BEFORE the output is read to its end (otherwise end-of-file never comes), everything
// is read from the reading end, once.  C08 / C09 "no descriptor left behind": afterwards the parent holds neither end of
// the pipe, whether the child could be started or not.  C13: the child is awaited until a halt that is not a mere stop,
// and the status recorded for the substitution is the status that halt stands for.
//
// Hand-written model text (ASSUMED): the descriptor table of the process as one synchronous model trait (as in unit
// pipeset) extended by read_all_to, which records the table it was called with; Env::wait_for_subshell_to_halt, the error
// handler, the lexer constructor and read_eval_loop are opaque calls; the tail of expand_common (UTF-8 decoding,
// removal of the trailing newlines, conversion to attributed characters) is ONE opaque helper call, i.e. NOT under
// contract here.  Await points dropped.
// ---------------------------------------------------------------------------
pub type RawFd = i32;
pub type RawErrno = i32;
pub mod signal { #[derive(Clone, Copy, Debug, Eq, PartialEq)] pub struct Number(pub i32); }
impl vstd::std_specs::cmp::PartialEqSpecImpl for signal::Number {
    open spec fn obeys_eq_spec() -> bool { true }
    open spec fn eq_spec(&self, other: &signal::Number) -> bool { *self == *other }
}
impl vstd::std_specs::cmp::PartialEqSpecImpl for Fd {
    open spec fn obeys_eq_spec() -> bool { true }
    open spec fn eq_spec(&self, other: &Fd) -> bool { *self == *other }
}
#[derive(Clone, Copy)]
pub struct Pid(pub i32);
pub struct JobControl { pub verif_opaque: u8 }
pub struct Location { pub verif_opaque: u8 }
pub struct Phrase { pub verif_opaque: u8 }
pub enum ErrorCause { CommandSubstError(Errno), Interrupted(ExitStatus) }
pub struct Error { pub cause: ErrorCause, pub location: Location }
pub trait Fds: Sized {
    spec fn table(&self) -> Map<Fd, int>;
    /// every read_all_to so far: the descriptor, and the table of this process at that moment
    spec fn reads(&self) -> Seq<(Fd, Map<Fd, int>)>;
    const SIGINT: signal::Number;
    fn close(&mut self, fd: Fd) -> (r: Result<(), Errno>)
        ensures
            r is Ok ==> final(self).table() == old(self).table().remove(fd),
            r is Err ==> final(self).table() == old(self).table() && !old(self).table().contains_key(fd),
            final(self).reads() == old(self).reads();
    fn dup2(&mut self, from: Fd, to: Fd) -> (r: Result<Fd, Errno>)
        ensures
            match r {
                Ok(new) => new == to && old(self).table().contains_key(from) && final(self).table() == old(self).table().insert(to, old(self).table()[from]),
                Err(_) => final(self).table() == old(self).table(),
            },
            final(self).reads() == old(self).reads();
    /// rw_all.rs read_all_to (unit rwall): reads until end-of-file
    fn read_all_to(&mut self, fd: Fd, buffer: &mut Vec<u8>) -> (r: Result<(), Errno>)
        ensures final(self).table() == old(self).table(), final(self).reads() == old(self).reads().push((fd, old(self).table()));
}
pub trait Runtime: Fds {}
pub trait Close: Fds {} pub trait ReadAll: Fds {} pub trait SignalSystem: Fds {} pub trait Wait: Fds {} pub trait WaitForSignals: Fds {}
pub struct Mon {
    pub halts: Seq<(Pid, ProcessResult)>,
    /// read_eval_loop runs: the table of the child at that moment
    pub repl_tables: Seq<Map<Fd, int>>,
    pub handled: nat,
}
pub struct YEnv<S> { pub system: S, pub verif_interactive: bool, pub verif_sigint_default: bool, pub mon: Ghost<Mon> }
pub mod yash_env { pub use super::YEnv as Env; pub mod semantics { pub type Result<T = ()> = std::ops::ControlFlow<crate::cs::Divert, T>; } }
pub struct Env<'a, S> { pub inner: &'a mut YEnv<S>, pub last_command_subst_exit_status: Option<ExitStatus> }
impl<S: Fds> YEnv<S> {
    #[verifier::external_body]
    pub fn wait_for_subshell_to_halt(&mut self, target: Pid) -> (r: Result<(Pid, ProcessResult), Errno>)
        ensures
            r matches Ok(p) ==> p.0 == target && final(self).mon@ == (Mon { halts: old(self).mon@.halts.push(p), ..old(self).mon@ }),
            r is Err ==> final(self).mon@ == old(self).mon@,
            final(self).system == old(self).system, final(self).verif_interactive == old(self).verif_interactive, final(self).verif_sigint_default == old(self).verif_sigint_default
    { unimplemented!() }
    #[verifier::external_body]
    pub fn is_interactive(&self) -> (r: bool) ensures r == self.verif_interactive { unimplemented!() }
    #[verifier::external_body]
    pub fn sigint_has_default_action(&self) -> (r: bool) ensures r == self.verif_sigint_default { unimplemented!() }
}
impl Error {
    #[verifier::external_body]
    pub fn handle<S>(&self, env: &mut YEnv<S>) -> (r: yash_env::semantics::Result)
        ensures final(env).mon@ == (Mon { handled: old(env).mon@.handled + 1, ..old(env).mon@ }), final(env).system == old(env).system
    { unimplemented!() }
}
pub struct Lexer { pub verif_opaque: u8 }
/// `Lexer::from_memory(command.as_ref(), Source::CommandSubst { original })`
#[verifier::external_body]
pub fn verif_lexer<C>(command: &C, original: Location) -> (r: Lexer) { unimplemented!() }
/// runner.rs read_eval_loop (unit replloop): runs the command text in this (child) environment
#[verifier::external_body]
pub fn read_eval_loop<S: Fds>(env: &mut YEnv<S>, lexer: &mut Lexer) -> (r: yash_env::semantics::Result)
    ensures final(env).mon@ == (Mon { repl_tables: old(env).mon@.repl_tables.push(old(env).system.table()), ..old(env).mon@ })
{ unimplemented!() }
/// the tail of expand_common: `String::from_utf8(result)` (lossy on invalid UTF-8), `trim_end_matches('\n')` + `truncate`, and the
/// conversion of the characters into unquoted SoftExpansion AttrChars.  NOT under contract.
#[verifier::external_body]
pub fn verif_output_to_phrase(result: Vec<u8>) -> (r: Phrase) { unimplemented!() }
/// job.rs From<ProcessResult> for ExitStatus (unit waitsub)
pub uninterp spec fn exit_status_of(r: ProcessResult) -> ExitStatus;
impl From<ProcessResult> for ExitStatus {
    #[verifier::external_body]
    fn from(r: ProcessResult) -> (e: ExitStatus) ensures e == exit_status_of(r) { unimplemented!() }
}
impl vstd::std_specs::convert::FromSpecImpl<ProcessResult> for ExitStatus {
    open spec fn obeys_from_spec() -> bool { true }
    open spec fn from_spec(r: ProcessResult) -> ExitStatus { exit_status_of(r) }
}
/// no descriptor of this process refers to the open file description `d`
pub open spec fn no_ref(t: Map<Fd, int>, d: int) -> bool { forall|fd: Fd| t.contains_key(fd) ==> #[trigger] t[fd] != d }
/// a fresh pipe in this process: two distinct open descriptors, the only ones for their two (distinct) descriptions
pub open spec fn fresh_pipe(t: Map<Fd, int>, reader: Fd, writer: Fd) -> bool {
    &&& reader != writer && t.contains_key(reader) && t.contains_key(writer) && t[reader] != t[writer]
    &&& forall|fd: Fd| t.contains_key(fd) && fd != writer ==> #[trigger] t[fd] != t[writer]
    &&& forall|fd: Fd| t.contains_key(fd) && fd != reader ==> #[trigger] t[fd] != t[reader]
}
