# Unit execglue: replace_current_process (kernel shared by C16, C11 and C02).
CMD = 'yash-env/src/semantics/command.rs'
SEM = 'yash-env/src/semantics.rs'
MOD_HEAD = '''    use vstd::prelude::*;
    use std::convert::Infallible;
    use std::ffi::c_int;
'''
L0 = 'old(env).log@'
L1 = 'final(env).log@'
N0 = L0 + '.len() as int'
UNIT = {
    'name': 'execglue',
    'property': 'C16',
    'rlimit': 60,
    'verus_args': ['--edition=2024'],
    'vacuity_floor': 1,
    'items': [
        ('@raw', 'pub mod eg {\n' + MOD_HEAD),
        ('yash-env/src/system/errno.rs', ['type RawErrno']),
        ('yash-env/src/system/errno.rs', ['struct Errno']),
        (SEM, ['struct ExitStatus']),
        (SEM, ['impl ExitStatus#1', 'const NOT_FOUND']), (SEM, ['impl ExitStatus#1', 'const NOEXEC']),
        ('@file', 'prelude.rs'),
        (CMD, ['fn replace_current_process'], {'ret': 'r', 'rewrites': ['strip-async'],
            'token_rewrites': [
                ('env . traps . disable_internal_dispositions ( & env . system )', 'verif_disable_internal(env)', '*'),
                ('env . variables . env_c_strings ( )', 'verif_env_c_strings(env)'),
                ('let Err ( errno ) = env . system . execve ( path . as_c_str ( ) , args . as_slice ( ) , envs . as_slice ( ) ) . await ;', 'let errno = verif_execve(env, &path, &args, &envs);'),
                ('fall_back_on_sh ( & env . system , path . clone ( ) , args , envs )', 'verif_fall_back_on_sh(env, path.clone(), args, envs)'),
            ],
            'ensures': [
                # C11: the internal dispositions are disabled first; C16: then the program is started with the fields of the command
                # as arguments and EXACTLY the exported variables as they are at that moment as its environment
                L1 + '.len() >= ' + N0 + ' + 2', L1 + '.subrange(0, ' + N0 + ') =~= ' + L0, L1 + '[' + N0 + '] is DisabledInternal',
                L1 + '[' + N0 + ' + 1] == (Ev::Execve { path: path.verif_id, args: field_ids(args@), envs: old(env).verif_exported@ })',
                # it only comes back when that failed: the status is 127 when there is no such file, 126 otherwise - after one attempt to
                # run it as a shell script when its format is not recognised - and the error names the path and the errno
                'r matches Err(e) && e.path == path && final(env).exit_status == (if e.errno == Errno::ENOENT || e.errno == Errno::ENOTDIR { ExitStatus(127) } else { ExitStatus(126) })',
                '(r matches Err(e) && e.errno == Errno::ENOEXEC) ==> ' + L1 + '.len() == ' + N0 + ' + 3 && ' + L1 + '[' + N0 + ' + 2] == (Ev::FellBack { path: path.verif_id })',
                '(r matches Err(e) && e.errno != Errno::ENOEXEC) ==> ' + L1 + '.len() == ' + N0 + ' + 2',
            ]}),
        ('@raw', '}\n'),
    ],
}
