// Prelude of unit phrase: the field-list algebra behind "$@" / $* (XCU 2.5.2).
pub assume_specification<T>[ core::mem::replace::<T> ](dest: &mut T, src: T) -> (r: T)
    ensures r == *old(dest), *final(dest) == src;

/// A phrase denotes a list of fields.
pub open spec fn view(p: Phrase) -> Seq<Seq<AttrChar>> {
    match p {
        Phrase::Char(c) => seq![seq![c]],
        Phrase::Field(f) => seq![f@],
        Phrase::Full(v) => Seq::new(v@.len(), |i: int| v@[i]@),
    }
}

/// Concatenation of two field lists: the last field of the left list and the first field of the
/// right list are joined into one field (adjacent text attaches to the first and last positional
/// parameter); an empty list is the unit.
pub open spec fn join(a: Seq<Seq<AttrChar>>, b: Seq<Seq<AttrChar>>) -> Seq<Seq<AttrChar>> {
    if a.len() == 0 { b }
    else if b.len() == 0 { a }
    else { a.drop_last().push(a.last() + b[0]) + b.drop_first() }
}


/// `left.extend(right.drain(from..))` behind a contract (rewrite rule tokens-to-helper): the elements of `right`
/// from position `from` on are moved to the end of `left`.  ASSUMED; the body is what the code called.
#[verifier::external_body]
pub fn verif_extend_drain_from<T>(left: &mut Vec<T>, right: &mut Vec<T>, from: usize)
    requires from <= old(right)@.len(),
    ensures
        final(left)@ == old(left)@ + old(right)@.subrange(from as int, old(right)@.len() as int),
        final(right)@ == old(right)@.subrange(0, from as int),
{
    left.extend(right.drain(from..))
}

// ---- $* : joining the fields with the first character of IFS (XCU 2.5.2) ----------------------------------
/// placeholder for yash_env::variable::VariableSet (only handed to the separator helper here)
pub struct VariableSet { pub id: u64 }

/// the separator `$*` joins with: the first character of IFS, a space if IFS is unset, nothing if IFS is empty
pub uninterp spec fn ifs_separator(vars: &VariableSet) -> Option<AttrChar>;

/// The separator computation of `ifs_join` (`match vars.get(IFS)... .map(|c| AttrChar {..})`): it reads a variable and
/// takes the first character of a string, outside Verus's reach.  ASSUMED (rewrite rule tokens-to-helper): it returns
/// `ifs_separator(vars)`; which character that is, is NOT verified.
#[verifier::external_body]
pub fn verif_ifs_separator(vars: &VariableSet) -> (r: Option<AttrChar>)
    ensures r == ifs_separator(vars),
{ unimplemented!() }

/// `result.reserve_exact(<sum of the remaining lengths>)`: capacity only, no effect on the contents
#[verifier::external_body]
pub fn verif_reserve_for_join(result: &mut Vec<AttrChar>, rest: &std::vec::IntoIter<Vec<AttrChar>>)
    ensures final(result)@ == old(result)@,
{ unimplemented!() }

/// fields joined with the separator between them
pub open spec fn join_with(fs: Seq<Seq<AttrChar>>, sep: Option<AttrChar>) -> Seq<AttrChar>
    decreases fs.len()
{
    if fs.len() == 0 { Seq::empty() }
    else if fs.len() == 1 { fs[0] }
    else { join_with(fs.drop_last(), sep) + (match sep { Some(c) => seq![c], None => Seq::empty() }) + fs.last() }
}

