PHRASE = 'yash-semantics/src/expansion/phrase.rs'
ATTR = 'yash-env/src/semantics/expansion/attr.rs'
MOD_HEAD = '''    use vstd::prelude::*;
'''
UNIT = {
    'name': 'phrase',
    'property': 'C01',
    'rlimit': 60,
    'verus_args': ['--edition=2024'],
    'vacuity_floor': 6,
    'items': [
        ('@raw', 'pub mod ph {\n' + MOD_HEAD),
        (ATTR, ['enum Origin']),
        (ATTR, ['struct AttrChar']),
        (PHRASE, ['enum Phrase'], {'drop_derives': True}),
        ('@raw', 'use Phrase::*;\n'),
        ('@file', 'prelude.rs'),
        (PHRASE, ['impl Phrase', 'fn zero_fields'], {'ret': 'r', 'ensures': ['view(r) =~= Seq::<Seq<AttrChar>>::empty()']}),
        (PHRASE, ['impl Phrase', 'fn append'], {
            'token_rewrites': [('left . extend ( right . drain ( 1 . . ) )', 'verif_extend_drain_from(left, right, 1)')],
            'ensures': [
                'view(*final(self)) =~~= join(view(*old(self)), view(*old(other)))',
                'view(*final(other)) =~= Seq::<Seq<AttrChar>>::empty()',
            ]}),
        (PHRASE, ['impl Phrase', 'fn one_empty_field'], {'ret': 'r', 'ensures': ['view(r) =~~= seq![Seq::<AttrChar>::empty()]']}),
        (PHRASE, ['impl Phrase', 'fn is_zero_fields'], {'ret': 'r', 'ensures': ['r == (view(*self).len() == 0)']}),
        (PHRASE, ['impl Phrase', 'fn field_count'], {'ret': 'r', 'ensures': ['r == view(*self).len()']}),
        (PHRASE, ['impl AddAssign for Phrase', 'fn add_assign'], {'wrapper': 'impl Phrase', 'ensures': [
            'view(*final(self)) =~~= join(view(*old(self)), view(other))']}),
        ('@raw', '}\n'),
    ],
}
