// ---------------------------------------------------------------------------
// Prelude of unit dquote (property C01, kernel): what double quotes do to the result of the expansion inside them
// (yash-semantics/src/expansion/initial/word.rs: double_quote, and the DoubleQuote arm of WordUnit::expand).
// "quotes ... protect what they enclose ... only unquoted expansion results are split ... `$@`/`$*` quoted or not follow
// their special rules": inside double quotes the text is expanded in a non-splitting context (which is what makes "$*"
// join with IFS) and every field of the result - one for ordinary text, one per positional parameter for "$@" - comes
// back with all its characters marked quoted, between two quoting `"` characters; afterwards the context is what it
// was, also when the expansion fails and also when double quotes are nested in an expansion inside double quotes.
//
// Hand-written model text (ASSUMED): expanding a text is an opaque call (async in the code) that records the value of
// `will_split` it ran with in a ghost log; the other kinds of word unit are opaque helpers.
// ---------------------------------------------------------------------------
pub assume_specification<T>[ core::mem::replace::<T> ](dest: &mut T, src: T) -> (r: T)
    ensures r == *old(dest), *final(dest) == src;

/// A phrase denotes a list of fields.
pub open spec fn view(p: Phrase) -> Seq<Seq<AttrChar>> {
    match p {
        Phrase::Char(c) => seq![seq![c]],
        Phrase::Field(f) => seq![f@],
        Phrase::Full(v) => Seq::new(v@.len(), |i: int| v@[i]@),
    }
}
pub open spec fn dq() -> AttrChar { AttrChar { value: '"', origin: Origin::Literal, is_quoted: false, is_quoting: true } }
/// one field between double quotes: a quoting `"`, the characters of the field all marked quoted (values, origins and
/// quoting marks as they were), a quoting `"`
pub open spec fn quoted_field(f: Seq<AttrChar>) -> Seq<AttrChar> {
    seq![dq()] + Seq::new(f.len(), |i: int| AttrChar { is_quoted: true, ..f[i] }) + seq![dq()]
}
pub open spec fn quoted_fields(fs: Seq<Seq<AttrChar>>) -> Seq<Seq<AttrChar>> {
    Seq::new(fs.len(), |i: int| quoted_field(fs[i]))
}

/// ASSUMED contracts of Vec::reserve_exact (capacity only) and Vec::insert
pub assume_specification<T, A: std::alloc::Allocator>[ Vec::<T, A>::reserve_exact ](v: &mut Vec<T, A>, additional: usize)
    ensures final(v)@ == old(v)@;

// ---- the rest of WordUnit::expand: opaque ----------------------------------------------------------------------
pub trait Runtime {}
pub struct TextUnit { pub verif_opaque: u8 }
pub struct Text { pub verif_id: int }
pub struct EscapedString { pub verif_opaque: u8 }
pub struct Error { pub verif_opaque: u8 }
pub struct InnerEnv<S> { pub system: S }
/// the expansion environment (yash-semantics/src/expansion/initial.rs Env), with a ghost log of the texts expanded:
/// which text, and whether the context was a splitting one at that moment
pub struct Env<'a, S> { pub inner: &'a mut InnerEnv<S>, pub will_split: bool, pub verif_log: Ghost<Seq<(int, bool)>> }
pub trait Expand<S> { fn expand(&self, env: &mut Env<'_, S>) -> Result<Phrase, Error>; }
impl<S> Expand<S> for Text {
    #[verifier::external_body]
    fn expand(&self, env: &mut Env<'_, S>) -> (r: Result<Phrase, Error>)
        ensures final(env).verif_log@ == old(env).verif_log@.push((self.verif_id, old(env).will_split)), final(env).will_split == old(env).will_split
    { unimplemented!() }
}
impl<S> Expand<S> for TextUnit {
    #[verifier::external_body]
    fn expand(&self, env: &mut Env<'_, S>) -> (r: Result<Phrase, Error>)
        ensures final(env).verif_log@ == old(env).verif_log@, final(env).will_split == old(env).will_split
    { unimplemented!() }
}
#[verifier::external_body]
pub fn single_quote(value: &str) -> (r: Phrase) { unimplemented!() }
#[verifier::external_body]
pub fn dollar_single_quote(s: &str) -> (r: Phrase) { unimplemented!() }
impl EscapedString {
    #[verifier::external_body]
    pub fn unquote(&self) -> (r: (String, bool)) { unimplemented!() }
}
pub mod tilde {
    use super::*;
    #[verifier::external_body]
    pub fn expand<S>(name: &str, followed_by_slash: bool, env: &InnerEnv<S>) -> (r: Vec<AttrChar>) { unimplemented!() }
}
impl From<Vec<AttrChar>> for Phrase {
    #[verifier::external_body]
    fn from(v: Vec<AttrChar>) -> (r: Phrase) { unimplemented!() }
}
pub enum WordUnit {
    Unquoted(TextUnit),
    SingleQuote(String),
    DoubleQuote(Text),
    DollarSingleQuote(EscapedString),
    Tilde { name: String, followed_by_slash: bool },
}
pub use WordUnit::*;
