# Unit cdsyntax: cd's interpretation of the parsed options and operands (kernel of C20).
CS = 'yash-builtin/src/cd/syntax.rs'
CD = 'yash-builtin/src/cd.rs'
MOD_HEAD = '''    use vstd::prelude::*;
'''
UNIT = {
    'name': 'cdsyntax',
    'property': 'C20',
    'rlimit': 60,
    'verus_args': ['--edition=2024'],
    'vacuity_floor': 1,
    'controls': {CS + '::parse': {'ensures': {'append': 'false'}}},
    'control_expect': ['parse'],
    'items': [
        ('@raw', 'pub mod cds {\n' + MOD_HEAD),
        (CD, ['enum Mode'], {'drop_derives': 'all', 'drop_inner_attrs': ['default']}),
        ('@raw', 'impl Clone for Mode { fn clone(&self) -> (r: Mode) ensures r == *self { *self } }\nimpl Copy for Mode {}\nimpl Default for Mode { fn default() -> (r: Mode) ensures r == Mode::Logical { Mode::Logical } }\n'),
        (CD, ['struct Command'], {'drop_derives': 'all'}),
        ('@file', 'prelude.rs'),
        (CS, ['fn parse'], {'ret': 'r',
            'attrs': ['#[verifier::loop_isolation(false)]'],
            'token_rewrites': [
                ('crate :: common :: syntax :: Mode :: with_env ( env )', 'crate_common_syntax::Mode::with_env(env)'),
                ('parse_arguments ( OPTION_SPECS , parser_mode , args ) ?', 'parse_arguments(verif_option_specs(), parser_mode, args)?'),
                ('for option in options', 'let ghost verif_l = letters(options@); for option in verif_it: options'),
                ('_ => unreachable ! ( ) ,', '_ => { assert(false); }'),
                ('let mut operands = VecDeque :: from ( operands ) ; let operand = operands . pop_front ( ) ;', 'let (operand, operands) = verif_pop_front(operands);'),
                ('operands . into ( )', 'operands'),
                ('operand . value . is_empty ( )', 'verif_is_empty_string(&operand.value)'),
            ],
            'ghost_before': [('let ensure_pwd = match', 'let ghost verif_n = verif_l.len() as int; let ghost verif_ops = operands@;')],
            'ensures': [
                # the generic parser rejects the arguments: so does cd
                'parsed(args@) is None ==> r is Err',
                # otherwise the answer is a function of the occurrences (their letters, in order) and the operands it found, whatever
                # their spelling: the LAST of -L / -P decides the mode (logical without one); -e goes only with a physical mode; at
                # most one operand, and not an empty one; the operand is handed on as it is
                'parsed(args@) matches Some(p) ==> ({ let l = p.0; let ops = p.1; let n = l.len() as int; '
                '(r is Ok <==> (has_e(l, n) ==> mode_of(l, n) is Physical) && ops.len() <= 1 && (ops.len() == 1 ==> ops[0].value@.len() > 0)) '
                '&& (r matches Ok(c) ==> c.mode == mode_of(l, n) && c.ensure_pwd == has_e(l, n) && (ops.len() == 0 ==> c.operand is None) && (ops.len() == 1 ==> c.operand == Some(ops[0]))) })',
            ],
            'loops': {0: {'invariant': [
                'verif_l == letters(options@)', 'forall|k: int| 0 <= k < options@.len() ==> cd_letter((#[trigger] options@[k]).spec.verif_short)',
                'mode == mode_of(verif_l, verif_it.index() as int)',
                'ensure_pwd_option_location is Some <==> has_e(verif_l, verif_it.index() as int)',
            ]}}}),
        ('@raw', '}\n'),
    ],
}
