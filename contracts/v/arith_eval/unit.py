# Unit arith_eval: yash-arith evaluation kernel under Verus contracts (property C03).
EVAL = 'yash-arith/src/eval.rs'
AST = 'yash-arith/src/ast.rs'
TOKEN = 'yash-arith/src/token.rs'

ERR = 'Error<E1, E2>'

UNIT = {
    'name': 'arith_eval',
    'property': 'C03',
    'rlimit': 60,
    'uses': [
        'use std::ops::Range;',
        'use vstd::arithmetic::power2::pow2;',
    ],
    'prelude': ['prelude.rs'],
    'items': [
        (TOKEN, ['enum Value']),
        (AST, ['enum BinaryOperator']),
        (EVAL, ['enum EvalError']),
        (EVAL, ['struct Error']),
        (EVAL, ['fn unwrap_or_overflow'], {
            'ret': 'res',
            'ensures': [
                'checked_computation is Some ==> res == Ok::<T, Error<E1, E2>>(checked_computation->0)',
                'checked_computation is None ==> res is Err',
            ],
            'closures': {0: {'ret': 'e: Error<E1, E2>', 'ensures': ['true']}},
        }),
        (EVAL, ['fn binary_result'], {
            'ret': 'res',
            'ensures': [
                # top-level postcondition, from the property statement
                'bin_contract(operator, lhs->0, rhs->0, res)',
            ],
            'nested': {
                'require_non_negative': {
                    'ret': 'res',
                    'ensures': [
                        '0 <= v <= u32::MAX ==> res == Ok::<u32, Error<E1, E2>>(v as u32)',
                        '!(0 <= v <= u32::MAX) ==> res is Err',
                    ],
                    'closures': {0: {'ret': 'e: Error<E1, E2>', 'ensures': ['true']}},
                },
                'require_non_zero': {
                    'ret': 'res',
                    'ensures': ['res is Ok <==> v != 0'],
                },
            },
            'closures': {
                0: {'param_types': ['&i64'], 'ret': 'keep: bool',
                    'requires': ['rhs < 64'],
                    'ensures': ['keep == (*result_r >= 0 && (*result_r >> rhs) == lhs)']},
            },
        }),
    ],
    'postlude': [],
}
