#!/bin/sh
# usage: trysed.sh <relative file> <sed expression> <unit> [<unit> ...]  -- run Verus units against a scratch worktree of /repo
# in which one file was edited with sed (/repo untouched); prints the diff so that a mutation that did not apply is visible
F=$1; E=$2; shift; shift
WT=/tmp/wt_tryv
[ -d $WT ] || git -C /repo worktree add -f $WT HEAD -q
git -C $WT checkout -q -- . ; git -C $WT clean -fdq
git -C $WT checkout -q --detach $(git -C /repo rev-parse HEAD)
sed -i -E "$E" $WT/$F
git -C $WT diff --stat | tail -1
for u in "$@"; do
  VERIF_REPO=$WT VERIF_WORK_V=/tmp/wt_tryv_work python3 /verif/tools/vunit.py $u 2>&1 | grep -E "^status|^UNDECIDED|error:|failed this|^\s+-->|postcondition|invariant|precondition" | head -12
done
git -C $WT checkout -q -- .
