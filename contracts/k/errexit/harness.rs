//! Kani harnesses for the errexit kernel of property C10, injected as a child module of yash-env/src/lib.rs:
//! the real `Env::errexit_is_applicable` / `apply_errexit` on real `Env` values whose runtime stack is any sequence
//! of at most three frames.  Structure-independent sibling of the Verus unit errexit (which is unbounded).
#![allow(dead_code, unused_imports)]
use super::*;
use crate::option::{ErrExit, Off, On};
use crate::semantics::{Divert, ExitStatus};
use crate::stack::Frame;
use std::ops::ControlFlow;

struct NoSystem;

/// Stub for `RandomState::new` (std asks the OS for random hash keys through `syscall`, which Kani does not model):
/// fixed keys.  The functions under contract never look into a hash table.
fn fixed_random_state() -> std::hash::RandomState {
    unsafe { std::mem::transmute::<(u64, u64), std::hash::RandomState>((0, 0)) }
}

fn frame(k: u8) -> Frame {
    match k % 5 {
        0 => Frame::Loop,
        1 => Frame::Subshell,
        2 => Frame::Condition,
        3 => Frame::DotScript,
        _ => Frame::InitFile,
    }
}

fn env_with(kinds: &[u8], errexit: bool, status: i32) -> Env<NoSystem> {
    let mut env = Env {
        aliases: Default::default(),
        arg0: Default::default(),
        builtins: Default::default(),
        exit_status: ExitStatus(status),
        functions: Default::default(),
        jobs: Default::default(),
        main_pgid: crate::job::Pid(2),
        main_pid: crate::job::Pid(2),
        options: Default::default(),
        stack: Default::default(),
        traps: Default::default(),
        tty: Default::default(),
        variables: Default::default(),
        any: Default::default(),
        system: NoSystem,
    };
    env.options.set(ErrExit, if errexit { On } else { Off });
    let frames: Vec<Frame> = kinds.iter().map(|&k| frame(k)).collect();
    env.stack = frames.into();
    env
}

fn check(kinds: &[u8]) {
    let errexit: bool = kani::any();
    let status: i32 = kani::any();
    let env = env_with(kinds, errexit, status);
    let exempt = kinds.iter().any(|&k| k % 5 == 2);
    let applicable = env.errexit_is_applicable();
    assert!(applicable == (errexit && !exempt), "errexit applies iff the option is on and no enclosing construct, at any depth, is an exempt context");
    let r = env.apply_errexit();
    if status != 0 && errexit && !exempt {
        assert!(r == ControlFlow::Break(Divert::Exit(None)), "a failing command ends the shell where errexit applies");
    } else {
        assert!(r == ControlFlow::Continue(()), "the shell goes on: the command succeeded, the option is off or the context is exempt");
    }
    std::mem::forget(env);
}

#[kani::proof]
#[kani::stub(std::hash::RandomState::new, fixed_random_state)]
#[kani::unwind(6)]
fn c10q_stack_len0_len1() {
    check(&[]);
    let a: u8 = kani::any();
    kani::assume(a < 5);
    check(&[a]);
}
#[kani::proof]
#[kani::stub(std::hash::RandomState::new, fixed_random_state)]
#[kani::unwind(6)]
fn c10q_stack_len2() {
    let a: u8 = kani::any();
    let b: u8 = kani::any();
    kani::assume(a < 5 && b < 5);
    check(&[a, b]);
}
#[kani::proof]
#[kani::stub(std::hash::RandomState::new, fixed_random_state)]
#[kani::unwind(6)]
fn c10q_stack_len3() {
    let a: u8 = kani::any();
    let b: u8 = kani::any();
    let c: u8 = kani::any();
    kani::assume(a < 5 && b < 5 && c < 5);
    check(&[a, b, c]);
}
/// negative control: must be refuted
#[kani::proof]
#[kani::stub(std::hash::RandomState::new, fixed_random_state)]
#[kani::unwind(6)]
fn c10x_control_condition_ignored() {
    let env = env_with(&[2], true, 1);
    assert!(env.errexit_is_applicable(), "control: errexit applies inside a condition (false)");
    std::mem::forget(env);
}

// native replay of a Kani counterexample (bin/vcheck replay): the generated test is included here
#[cfg(verif_playback)]
include!("/verif/work/k/playback/errexit_harness.rs");
