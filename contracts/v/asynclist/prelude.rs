// ---------------------------------------------------------------------------
// Prelude of unit asynclist (properties C13 / C12 / C08 / C02, kernel): an item of a command list, in particular an
// asynchronous one `cmd &` (yash-semantics/src/command/item.rs Item::execute, execute_async, async_body, nullify_stdin).
// C13 "`$!` reports each child's identity": exactly one child is started for the and-or list - with background job
// control and SIGINT / SIGQUIT ignored in it - and is NOT awaited; a job with exactly its process ID goes into the job
// table (job-controlled iff job control was granted), `$!` becomes that process ID, `$?` is 0.  A child that cannot be
// started: no job, `$!` untouched, an interrupt with status 126.  C08: the and-or list runs only in the child; there, its
// standard input becomes /dev/null iff it is not job-controlled (XCU 2.9.3.1), BEFORE the list runs; the list runs once,
// its result is applied and the EXIT trap runs once.  C02: a synchronous item is exactly its and-or list.
//
// Hand-written model text (ASSUMED): Config::new (the derived Default: no job control, nothing ignored) and
// config.start(..) with its async closure (unit subshellstart has the real start), JobList::insert /
// set_last_async_pid, AndOrList::execute / to_string, apply_result, run_exit_trap, print_error, is_interactive are opaque
// calls that append to ghost state; the descriptor table is a model trait (close / open: open answers the LOWEST free
// descriptor, POSIX).  Await points dropped.
// ---------------------------------------------------------------------------
type RawPidDef = i32;
pub mod yash_env { pub mod system { pub use crate::al::Errno; } }
pub trait Open: Fds {} pub trait Close: Fds {}
pub trait Runtime: Open + Close {}
pub struct Location { pub verif_opaque: u8 }
pub struct OfdAccess { pub verif_opaque: u8 }
impl OfdAccess { pub const ReadOnly: OfdAccess = OfdAccess { verif_opaque: 0 }; }
pub struct Mode { pub verif_opaque: u8 }
impl Mode { #[verifier::external_body] pub fn empty() -> Mode { unimplemented!() } }
pub struct OpenFlags { pub verif_opaque: u8 }
impl Default for OpenFlags { #[verifier::external_body] fn default() -> OpenFlags { unimplemented!() } }
impl vstd::std_specs::cmp::PartialEqSpecImpl for Fd {
    open spec fn obeys_eq_spec() -> bool { true }
    open spec fn eq_spec(&self, other: &Fd) -> bool { *self == *other }
}
impl vstd::std_specs::cmp::PartialEqSpecImpl for JobControl {
    open spec fn obeys_eq_spec() -> bool { true }
    open spec fn eq_spec(&self, other: &JobControl) -> bool { *self == *other }
}
pub trait Fds: Sized {
    spec fn table(&self) -> Map<Fd, int>;
    /// the open file description of /dev/null opened by the k-th open
    fn close(&mut self, fd: Fd) -> (r: std::result::Result<(), Errno>)
        ensures r is Ok ==> final(self).table() == old(self).table().remove(fd) && !final(self).table().contains_key(fd), r is Err ==> final(self).table() == old(self).table();
    /// open(): the lowest descriptor that is not open now refers to a new open file description of the named file
    fn open(&mut self, path: &VerifCStr, access: OfdAccess, flags: OpenFlags, mode: Mode) -> (r: std::result::Result<Fd, Errno>)
        ensures
            // (the instance of "lowest free" for descriptor 0, spelled out)
            r matches Ok(fd) ==> (!old(self).table().contains_key(Fd(0)) ==> fd == Fd(0)),
            r matches Ok(fd) ==> !old(self).table().contains_key(fd) && fd.0 >= 0 && (forall|g: Fd| 0 <= g.0 < fd.0 ==> old(self).table().contains_key(g))
                && final(self).table().dom() == old(self).table().dom().insert(fd)
                && (forall|g: Fd| old(self).table().contains_key(g) ==> final(self).table()[g] == old(self).table()[g])
                && (path_is_dev_null(path) ==> is_dev_null(final(self).table()[fd])),
            r is Err ==> final(self).table() == old(self).table();
}
/// the open file description is one of /dev/null opened for reading
/// stands for std::ffi::CStr (not supported by Verus)
pub struct VerifCStr { pub verif_opaque: u8 }
pub uninterp spec fn is_dev_null(desc: int) -> bool;
pub uninterp spec fn path_is_dev_null(path: &VerifCStr) -> bool;
/// the literal c"/dev/null" (Verus has no C-string literals)
#[verifier::external_body]
pub fn verif_dev_null_path() -> (r: &'static VerifCStr) ensures path_is_dev_null(r) { unimplemented!() }

pub struct AndOrList { pub verif_id: int }
pub mod syntax { pub use super::AndOrList; pub struct Item { pub and_or: std::rc::Rc<AndOrList>, pub async_flag: Option<super::Location> } }
pub trait Command<S> { fn execute(&self, env: &mut Env<S>) -> Result; }
pub enum Ev { Nullified { ok: bool }, Ran { id: int, result: Result, stdin_null: bool }, Applied { result: Result }, ExitTrap }
pub struct Mon {
    /// children started: with which configuration, for which and-or list
    pub started: Seq<(Config, int)>,
    /// and-or lists run in THIS shell
    pub ran_here: Seq<(int, Result)>,
    pub jobs_inserted: Seq<Job>,
    pub last_async_pid: Option<Pid>,
    /// inside a child
    pub events: Seq<Ev>,
}
pub struct JobList { pub verif_opaque: u8 }
pub struct Env<S> { pub exit_status: ExitStatus, pub verif_interactive: bool, pub mon: Ghost<Mon>, pub system: S }
impl Config {
    /// Config::new = the derived Default
    #[verifier::external_body]
    pub fn new() -> (c: Config) ensures c.job_control is None, !c.ignores_sigint_sigquit { unimplemented!() }
}
/// `config.start(env, async move |env_2, job_control| { async_body(env_2, job_control, &and_or_2).await })` (unit subshellstart)
#[verifier::external_body]
pub fn verif_start<S>(config: Config, env: &mut Env<S>, and_or: Rc<AndOrList>) -> (r: std::result::Result<(Pid, Option<JobControl>), Errno>)
    ensures final(env).mon@ == (Mon { started: old(env).mon@.started.push((config, and_or.verif_id)), ..old(env).mon@ }),
        r matches Ok((pid, jc)) ==> (jc matches Some(j) ==> config.job_control == Some(j)),
        final(env).exit_status == old(env).exit_status, final(env).verif_interactive == old(env).verif_interactive, final(env).system == old(env).system
{ unimplemented!() }
/// `env.jobs.insert(job)` (unit joblist)
#[verifier::external_body]
pub fn verif_jobs_insert<S>(env: &mut Env<S>, job: Job) -> (r: usize)
    ensures final(env).mon@ == (Mon { jobs_inserted: old(env).mon@.jobs_inserted.push(job), ..old(env).mon@ }), r < usize::MAX,
        final(env).exit_status == old(env).exit_status, final(env).verif_interactive == old(env).verif_interactive, final(env).system == old(env).system
{ unimplemented!() }
/// `env.jobs.set_last_async_pid(pid)`: what `$!` expands to
#[verifier::external_body]
pub fn verif_set_last_async_pid<S>(env: &mut Env<S>, pid: Pid)
    ensures final(env).mon@ == (Mon { last_async_pid: Some(pid), ..old(env).mon@ }),
        final(env).exit_status == old(env).exit_status, final(env).verif_interactive == old(env).verif_interactive, final(env).system == old(env).system
{ unimplemented!() }
/// `let report = format!("[{job_number}] {pid}\n"); env.system.print_error(&report)`
#[verifier::external_body]
pub fn verif_report_job<S>(env: &mut Env<S>, job_number: usize, pid: Pid)
    ensures final(env).mon@ == old(env).mon@, final(env).exit_status == old(env).exit_status, final(env).system == old(env).system
{ unimplemented!() }
#[verifier::external_body]
pub fn verif_print_error<S>(env: &mut Env<S>, errno: &Errno, location: &Location)
    ensures final(env).mon@ == old(env).mon@, final(env).exit_status == old(env).exit_status, final(env).system == old(env).system
{ unimplemented!() }
impl<S> Env<S> {
    #[verifier::external_body]
    pub fn is_interactive(&self) -> (r: bool) ensures r == self.verif_interactive { unimplemented!() }
    #[verifier::external_body]
    pub fn apply_result(&mut self, result: Result)
        ensures final(self).mon@ == (Mon { events: old(self).mon@.events.push(Ev::Applied { result }), ..old(self).mon@ }), final(self).system == old(self).system
    { unimplemented!() }
}
impl AndOrList {
    #[verifier::external_body]
    pub fn to_string(&self) -> (r: String) { unimplemented!() }
}
/// standard input is /dev/null
pub open spec fn stdin_is_null(t: Map<Fd, int>) -> bool { t.contains_key(Fd::STDIN) && is_dev_null(t[Fd::STDIN]) }
impl<S: Fds> Command<S> for AndOrList {
    #[verifier::external_body]
    fn execute(&self, env: &mut Env<S>) -> (r: Result)
        ensures final(env).mon@ == (Mon {
            events: old(env).mon@.events.push(Ev::Ran { id: self.verif_id, result: r, stdin_null: stdin_is_null(old(env).system.table()) }),
            ran_here: old(env).mon@.ran_here.push((self.verif_id, r)), ..old(env).mon@ })
    { unimplemented!() }
}
#[verifier::external_body]
pub fn run_exit_trap<S>(env: &mut Env<S>)
    ensures final(env).mon@ == (Mon { events: old(env).mon@.events.push(Ev::ExitTrap), ..old(env).mon@ })
{ unimplemented!() }
#[verifier::external_type_specification]
pub struct ExAssertKind(core::panicking::AssertKind);
pub assume_specification<T: core::fmt::Debug + ?Sized, U: core::fmt::Debug + ?Sized>[ core::panicking::assert_failed::<T, U> ](
    kind: core::panicking::AssertKind, left: &T, right: &U, args: Option<core::fmt::Arguments<'_>>) -> !
    requires false;
