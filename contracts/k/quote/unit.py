UNIT = {
    'name': 'quote',
    'property': 'C07',
    'crate': 'yash-quote',
    'cfg': [],
    'inject': [('yash-quote/src/lib.rs', 'quote_harness.rs')],
    'anchors': [
        ('yash-quote/src/lib.rs', r'fn char_needs_quoting\(c: char\) -> bool'),
        ('yash-quote/src/lib.rs', r'fn str_needs_quoting\(s: &str\) -> bool'),
    ],
    'functions': [
        {'file': 'yash-quote/src/lib.rs', 'item': 'char_needs_quoting (every char)'},
        {'file': 'yash-quote/src/lib.rs', 'item': 'str_needs_quoting (the empty text and the nine one-character texts over # ~ : { } [ ] a space)'},
    ],
    'harnesses': {'quick': ['c07q_', 'c07x_'], 'thorough': []},
    'min_harnesses': {'quick': 3, 'thorough': 3},
    'control_re': r'^c07x_',
    'complete_re': r'^c07q_char_needs_quoting',
    'bound': 'char_needs_quoting: complete over every char; str_needs_quoting: the empty text and one-character texts only (longer texts need the two-way string search of std, out of reach for CBMC: measured)',
    'jobs': {'quick': 4, 'thorough': 6},
    'harness_timeout': '1200s',
    'timeout_s': {'quick': 1500, 'thorough': 3000},
    'assumptions': [
        'the always-quote set in contracts/k/quote/quote_harness.rs is my reading of XCU 2.2 plus yash\'s Unicode blanks',
        'Display for Quoted (the quoting itself: single quotes, or double quotes with four escapes) is NOT under contract: the formatting machinery is outside both verifiers\' reach here',
    ],
}
