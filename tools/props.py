"""Per-property configuration: which contract units decide which property, at which level."""

PROPS = {
    'C03': {
        'v_units': ['arith_eval', 'arith_parse'],
        'k_units': ['arith'],
        'level': 'proof',
        'explanation': (
            'Contract-based deductive verification (Verus/Z3) of the real functions of yash-arith/src/eval.rs and '
            'the operator tables of ast.rs, extracted byte-for-byte on every run. binary_result is proved to return the '
            'exact C value over the mathematical integers or an error exactly when that value is undefined or does not fit '
            'in i64 (all 29 operators, all i64 x i64, no bound); apply_prefix/apply_postfix/apply_binary are proved against '
            'a ghost view of the variable environment (exact value, exact store update, no effect on error); the '
            'precedence/associativity/spelling tables equal the C tables; eval() is proved equal to a reference evaluator '
            'of the reverse-Polish vector (short-circuit ||, &&, ?: evaluate only the selected operand; left-to-right order; '
            'no panic on a well-formed vector). Kani adds: binary_result against an i128 reference for the 23 non-multiplicative '
            'operator variants over all i64 x i64 (loop-free, complete; gives counterexamples), and, bounded, that a variable '
            'holding a constant-like text evaluates as parse_integer_constant of that text (the helper the tokenizer uses). '
            'The parser (unit arith_parse: parse, parse_tree, parse_binary_rhs, parse_leaf, parse_postfix, parse_close_paren, '
            'parse_end_of_input, with loop invariants and termination measures) is proved equal, on EVERY token sequence, to a '
            'reference precedence-climbing parser of the ISO C 6.5 expression grammar (12 binary levels, right-associative '
            'assignment, ?: with its C asymmetry, prefix/postfix operators, parentheses) emitting the reverse-Polish vector; '
            'the token source is an assumed model (PeekableTokens::next/peek over a finite sequence ending in an end marker). '
            'Not decided here: the tokenizer itself (longest-match operator table, no panic on arbitrary text: only '
            'parse_integer_constant is checked, bounded), that the reference parser\'s output always satisfies eval\'s '
            'well-formedness precondition (a lemma about the two reference definitions, not about code), yash-semantics glue.'),
        'trusted_base': ['Verus 0.2026.09.13 + Z3 (bundled)', 'vstd specifications of i64::checked_add/sub/mul/div/rem, Option/Result combinators',
                         'rustc 1.98.1 front end used by Verus', '/verif/tools/vextract.py (extraction is checked verbatim against the source on every run)'],
        'assumptions': [
            'machine integers are related to mathematical integers through vstd\'s specs of checked_* (assumed by vstd)',
            'Env implementors satisfy the ghost-view contract spliced onto trait Env (get_variable/assign_variable); failure of either is a function of the state',
            'impl Display for Value prints the decimal text dec(i) (external; axiom_value_to_string)',
        ],
    },
    'C12': {
        'v_units': ['joblist', 'asynclist', 'jobstatus'],
        'k_units': ['joblist'],
        'level': 'other',
        'explanation': (
            'Verus proves, for job tables of EVERY size, that JobList::insert / remove / update_status / set_current_job '
            're-establish the five-clause consistency statement of C12 (wf) and that no other job number changes, with the '
            'documented re-selection of current/previous job, from contracts on the real functions of yash-env/src/job.rs '
            '(extracted on every run; slab::Slab and std HashMap enter through assumed finite-map contracts). The two private '
            'selectors any_suspended_job_but_current / any_job_but_current are assumed in that proof; their contract and the '
            'job-id resolution (%%, %+, %-, %n) are checked by Kani on the real code for concrete table shapes with all '
            'contents symbolic (bounded: <= 3 slab slots quick, plus mutator cross-checks in the thorough tier). Level is '
            '"other" because the Kani part is bounded; the Verus part alone is an unbounded proof modulo the listed assumptions.'
            " Unit asynclist (Verus, yash-semantics/src/command/item.rs Item::execute, execute_async, async_body, nullify_stdin): a synchronous item is exactly its and-or list, run in this shell, once; for `cmd &` exactly one child is started for exactly this and-or list, with background job control asked for and SIGINT / SIGQUIT ignored in it, the list does not run in this shell and the child is not awaited; if it was started, one job with its process ID enters the job table (owned, running, not yet reported; job-controlled iff job control was granted), `$!` becomes that process ID and `$?` is 0; if not, no job, `$!` untouched, an interrupt with status 126. In the child the list runs exactly once, its result is applied and the EXIT trap runs once, in this order; under job control standard input is left alone; nullify_stdin makes standard input /dev/null and changes nothing else (its assert_eq! is discharged from POSIX's lowest-free-descriptor rule)."
            ' Unit jobstatus (Verus, yash-env/src/job.rs handle_job_status and the two conversions it uses, From<ProcessResult> for ExitStatus / ProcessState): the status handed on for a synchronously awaited child is the status its result stands for (its own when it exited, the one standing for the signal when it was killed or stopped); a child that was STOPPED - and no other - enters the job table as a job-controlled, owned job with exactly its process ID and the halted state; the shell is interrupted (with that status) exactly when it is interactive and the child was stopped, or was killed by SIGINT while SIGINT has its default action.'),
        'trusted_base': ['Verus 0.2026.09.13 + Z3', 'Kani 0.68.0 + CBMC 6.11 (CaDiCaL)', 'vstd HashMap/Entry and iterator specifications',
                         '/verif/tools/vextract.py, /verif/tools/kunit.py'],
        'assumptions': [
            'slab::Slab behaves as a finite map usize -> T with insert returning an unused key (assumed contract, prelude_slab.rs); key allocation order (dense numbering, restart at 0) is not modelled in the Verus unit',
            'Pid obeys vstd\'s hash key model (derived Hash/Eq on a newtype over i32): part of wf as a precondition',
            'libc::pid_t is i32 on this platform',
            'precondition of insert taken from the property quantifier: the pid is fresh or belongs to a job that is not alive',
            'unit asynclist: Config::new is the derived Default (assumed: no job control, nothing ignored); config.start(..) with its async closure is an opaque call recording the configuration and the and-or list (unit subshellstart has the real start); JobList::insert / set_last_async_pid, AndOrList::execute / to_string, apply_result, run_exit_trap, print_error, is_interactive opaque; the descriptor table is a model trait (close; open answers the lowest free descriptor); the C-string literal is a helper call (Verus has none); that standard input IS /dev/null without job control is proved for nullify_stdin but only stated for the job-control case in async_body (a failing nullify is ignored by the code); await points dropped',
            'unit jobstatus: JobList::insert is an opaque call logging the job (unit joblist has the real one); is_interactive / sigint_has_default_action are ghost-backed; From<signal::Number> for ExitStatus uninterpreted; the job-name closure is an FnOnce value whose call has no precondition (a requires of the function)',
        ],
    },
    'C11': {
        'v_units': ['trap', 'trapsrun', 'cmdlist', 'waitcore'],
        'k_units': [],
        'level': 'proof',
        'explanation': (
            'Contract-based deductive verification (Verus/Z3) of the per-signal trap state machine '
            '(yash-env/src/trap/state.rs: GrandState::set_action, set_internal_disposition, enter_subshell, ignore, '
            'insert_from_system_if_vacant, mark_as_caught, handle_if_caught), extracted on every run with `async`/`.await` '
            'stripped. Each operation is proved, from EVERY state satisfying the invariant "installed disposition = '
            'max(internal disposition, disposition of the user action)", to re-establish it against a model of the '
            'system interface that records the installed disposition per signal; a signal ignored on entry can be neither '
            'trapped nor reset without override; failing calls change nothing; the pending flag is set by a catch and a take '
            'returns the state iff it was set and clears it. Because every operation preserves the invariant from every '
            'state, it holds after every sequence of operations (induction over histories), for every signal. On the table '
            '(yash-env/src/trap.rs: TrapSet::set_action_impl, set_internal_disposition, the six enable_/disable_internal_disposition* '
            'functions, catch_signal, take_signal_if_caught) the same invariant is proved for ALL signals at once (tinv), '
            'SIGKILL and SIGSTOP are refused before anything is touched, shell-internal changes never alter a user action, a catch '
            'sets and a take clears the pending flag of exactly the named signal. TrapSet::enter_subshell (the loop over the '
            'table choosing the option per signal, then the vacant SIGINT/SIGQUIT records) and clear_parent_states are proved as '
            'well, their `for` loops checked as `while` loops over an assumed model of the map\'s mutable iterator: the table '
            'invariant holds again, command traps are reset with the old state remembered, ignores stay, internal dispositions '
            'are cleared except for SIGCHLD, SIGINT/SIGQUIT (asynchronous list) and enabled stoppers (job control) end up ignored. '
            'Unit trapsrun (Verus): run_traps_for_caught_signals (yash-semantics/src/trap/signal.rs), the function the interpreter calls at '
            'command boundaries, against a ghost monitor of its opaque calls: every caught signal the table hands out with a command action '
            'gets exactly that command run for exactly that signal, once, before the next one is handed out; nothing is run that was not '
            'handed out; other actions run nothing; nothing is run while another signal trap action is running; a divert from an action ends the '
            'round with that divert; run_command (runner.rs) executes a command only right after such a round and not after a diverting action; '
            'run_exit_trap (trap/exit.rs) runs the EXIT action, if it is a command, exactly once for the condition EXIT and nothing else. '
            'Not decided: take_caught_signal (iter_mut().find_map with a closure that returns a borrow; its per-record step '
            'handle_if_caught is proved), and WHEN traps run (command boundary, interrupted wait): that is scheduling of the '
            'async read-eval loop.'
            " Unit cmdlist (Verus, yash-semantics/src/command.rs): Command::execute runs exactly the one command it is (simple, compound or function definition), once, then exactly one trap round (run_traps_for_caught_signals), then refreshes the job statuses - nothing else - and answers the command's result unless only the traps diverted, the more severe divert if both did; List::execute runs its items in order, each exactly once, up to and including the first that diverts, hands that divert on unchanged and runs nothing after it (every item when none diverts)."
            " Unit waitcore (Verus, yash-builtin/src/wait/core.rs wait_for_any_job_or_trap): the internal SIGCHLD disposition is asked for before the first wait() and without it nothing is waited for; a status reported by wait() is forwarded to the job table unchanged and ends the step; while waiting, every signal the system reports is offered to the trap runner exactly once, in the order reported, and the first one whose trap ran ends the waiting with exactly that signal and the trap's result (nothing happens after it); a SIGINT with its default action ends the waiting right after the sleep that reported it. Command::await_jobs (wait.rs) waits for each operand that designates a job, in order, once; an operand that designates no job counts as status 127; the answer is the status of the LAST operand; without operands all jobs are waited for, once."),
        'trusted_base': ['Verus 0.2026.09.13 + Z3', 'vstd model of map entries (hash_map::Entry, used in place of btree_map::Entry)',
                         '/verif/tools/vextract.py'],
        'assumptions': [
            'SignalSystem is replaced by a synchronous model trait whose set_disposition takes &mut self, returns the previous disposition and installs the new one for that signal only (assumed contract of the OS side)',
            'await points are dropped: awaited futures complete immediately and nothing else runs in between',
            'btree_map::Entry has the same contract as hash_map::Entry (vstd specifies only the latter); the table field BTreeMap<Condition, GrandState> is checked as a HashMap (entry/get_mut only); get_mut has an assumed contract; Condition obeys the hash-map key model',
            'iteration over the table by mutable reference (`for (k, v) in &mut map`, `values_mut()`) is checked through an assumed model iterator: every entry is yielded exactly once as a mutable reference whose final value the map holds afterwards (VerifIterMut in prelude_set2.rs); `for x in [a, b]` is checked as a while loop over the two indices',
            'Result::unwrap_or_default returns the Ok value (assumed)',
            'derived PartialEq is structural equality and derived Ord follows declaration order (Default < Ignore < Catch)',
            'source::Location is an opaque placeholder type; thiserror\'s #[from] expansion is written out by hand',
            'unit trapsrun: take_caught_signal, run_trap (lexer + read-eval loop), poll_signals, sigint_has_default_action and in_trap are opaque calls observed by a ghost monitor; the table invariant "a command action has origin User" is assumed there (it is what set_action / enter_subshell of unit trap establish); await points dropped; termination not claimed',
            'unit cmdlist: executing a simple command / compound command / function definition / item, run_traps_for_caught_signals and update_all_subshell_statuses are opaque calls appending to an event log; Ord::max on Divert is a helper over an uninterpreted order; `Box::pin(async move { .. }).await` is checked as the block itself; `for item in &self.0` is a while loop over the index; await points dropped',
            "unit waitcore: enabling the SIGCHLD disposition, the system's wait(), wait_for_signals, JobList::update_status and the trap runner taken from env.any are opaque calls appending to an event log; `for signal in signals.iter().cloned()` takes the first element off a copy of the list on every round; Errno::ECHILD is a model constant; the #[from] conversion of thiserror is written out; await points dropped; termination not claimed",
        ],
    },
    'C08': {
        'v_units': ['trap', 'pipeset', 'subshellcmd', 'cmdsubst', 'subshellstart', 'asynclist', 'blocksig'],
        'k_units': [],
        'level': 'proof',
        'explanation': (
            'Only the last sentence of C08 is decided: on subshell entry a trap with a command action is reset to default '
            '(origin Subshell, pending cleared) and its previous state remembered as the parent state, an ignored signal '
            'stays ignored, the Ignore option forces ignore, and the installed disposition follows -- proved by Verus as the '
            'postcondition of GrandState::enter_subshell / GrandState::ignore and, for the whole table, of TrapSet::enter_subshell '
            '(unit trap, shared with C11). Isolation of '
            'variables, functions, aliases, options, working directory, umask and descriptors under all interleavings is a '
            'property of fork/clone of Env and of the simulated process table: no function-level contract reaches it, and '
            'it is NOT decided by this check.'
            ' Unit pipeset (Verus) decides one more clause, "... or open files", for multi-command pipelines: PipeSet::shift '
            '(yash-semantics/src/command/pipeline.rs), which opens and closes the pipes in the PARENT shell, keeps the invariant '
            '"what is open = what was open before the pipeline, untouched, plus exactly the descriptors the pipe set still holds" '
            'and holds nothing after the last shift, so no descriptor is left behind in the parent; PipeSet::move_to_stdin_stdout '
            '(in the child) makes standard input the previous pipe and standard output the next one, closes every other pipe '
            'descriptor and touches nothing else, including the corner cases where a pipe end already IS descriptor 0 or 1. '
            'The descriptor table is an assumed model of the Pipe / Close / Dup traits.'
            ' Unit subshellcmd (Verus, compound_command/subshell.rs execute + subshell_main): for `( ... )` exactly one child is started and what runs in it is subshell_main on exactly this body; the awaited result of exactly that child is interpreted once (handle_job_status), `$?` becomes the status it stands for, and errexit is consulted exactly once, afterwards, with that status (a failing subshell ends the shell under errexit) - unless interpreting the result diverts (stopped child / SIGINT in an interactive shell), which is handed on without errexit; a child that cannot be started gives an interrupt with the error status and leaves `$?` alone. Inside the child the body runs once, its result is applied (apply_result), and the EXIT trap runs exactly once, after both.'
            ' Unit cmdsubst (Verus, yash-semantics/src/expansion/initial/command_subst.rs subshell_body + expand_common) over a model of the descriptor table: in the child, when the command text is run (at most once) its standard output IS the writing end of the pipe and the child holds no other descriptor of either end, nothing else changed (a failing dup2 is reported once and the text does not run); in the parent, whatever happens, afterwards neither end of the pipe is held and nothing else changed - also when the child could not be started, in which case nothing is read and nobody awaited; otherwise the output is read exactly once, from the reading end, at a moment when the parent holds NO descriptor of the writing end (so that end-of-file can come); then the child is awaited until a halt that is not a mere stop, every halt awaited being one of that child, and the status recorded for the substitution is the status that last halt stands for. NOT under contract: the tail of expand_common (UTF-8 decoding, removal of the trailing newlines, conversion to attributed characters), which is one opaque helper call here.'
            " Unit subshellstart (Verus, yash-env/src/subshell/config.rs Config::start - the common start-up code of every subshell kind): the job control granted is what the configuration asks for if the shell controls jobs at all; in the PARENT nothing but one fork happens, bracketed - iff the child is to ignore SIGINT / SIGQUIT, i.e. the configuration says so and the child is not job-controlled - by blocking the two signals and restoring exactly the saved mask on EVERY path after a successful block, including a failed fork (the parent's signal mask, stack and options are as before); the CHILD body, checked on a copy of the parent's environment (what fork gives it), does only process-group business (setpgid / tcsetpgrp, and only under job control), then disowns the jobs, calls TrapSet::enter_subshell exactly once with (ignore = asked for and not job-controlled, keep stopper dispositions = not job-controlled) BEFORE the task, runs the task exactly once in a Subshell frame on top of the parent's stack, with the parent's options unchanged and the job control granted, and then exits - it never returns into the parent's code."
            " Unit asynclist (Verus, yash-semantics/src/command/item.rs Item::execute, execute_async, async_body, nullify_stdin): a synchronous item is exactly its and-or list, run in this shell, once; for `cmd &` exactly one child is started for exactly this and-or list, with background job control asked for and SIGINT / SIGQUIT ignored in it, the list does not run in this shell and the child is not awaited; if it was started, one job with its process ID enters the job table (owned, running, not yet reported; job-controlled iff job control was granted), `$!` becomes that process ID and `$?` is 0; if not, no job, `$!` untouched, an interrupt with status 126. In the child the list runs exactly once, its result is applied and the EXIT trap runs once, in this order; under job control standard input is left alone; nullify_stdin makes standard input /dev/null and changes nothing else (its assert_eq! is discharged from POSIX's lowest-free-descriptor rule)."
            " Unit blocksig (Verus, yash-env/src/subshell.rs, the blanket impl of BlockSignals with which Config::start brackets the fork of a subshell that is to ignore SIGINT / SIGQUIT): block_sigint_sigquit adds exactly SIGINT and SIGQUIT to the set of blocked signals and hands out the mask that was in force (nothing changes on failure); restore_sigmask installs exactly the mask it is given; hence (lemma block_then_restore) the parent's signal mask after the bracket is what it was before, whatever was blocked before - with unit subshellstart, which proves that exactly the saved mask is restored on every path."),
        'trusted_base': ['Verus 0.2026.09.13 + Z3', '/verif/tools/vextract.py'],
        'assumptions': [
            'unit pipeset: the system traits Pipe / Close / Dup are replaced by one synchronous model trait over a ghost descriptor table (fd -> open file description); pipe() returns two descriptors that were not open; close() removes, dup/dup2 add; Env reduced to the system field; a failing close (ignored by the code) is excluded by hypothesis in the no-leak clause; assert_ne! must not fail (obligation)',
            'same as C11 (model SignalSystem, stripped async, hash_map::Entry contract, derived PartialEq/Ord)',
            'TrapSet::enter_subshell is under contract (see C11): its two for loops are checked as while loops over an assumed model of the map iterator',
            'unit subshellcmd: Config::foreground().start_and_wait(..) with its async closure, handle_job_status, apply_errexit / apply_result, print_error, List::execute and run_exit_trap are opaque calls that update a ghost monitor in the reduced Env (the job-name closure goes with the replaced call); await points dropped',
            'unit cmdsubst: the system traits Close / Dup / ReadAll are one synchronous model trait over a ghost descriptor table (fd -> open file description) plus a log of read_all_to calls with the table at that moment; precondition: the two descriptors are a fresh pipe (distinct, open, the only descriptors of their descriptions); Env::wait_for_subshell_to_halt, Error::handle, the lexer constructor, read_eval_loop, ExitStatus::from(ProcessResult) are opaque; the decoding / newline-stripping tail of expand_common is replaced by one opaque helper (rule tokens-to-helper) and is NOT verified; `let x = loop { .. break v }` by rule loop-break-value; debug_assert_eq!(job_control, None) is an obligation; await points dropped; termination of the waiting loop not claimed',
            "unit subshellstart: the closure handed to Env::run_in_child_process is checked INLINE as a block working on verif_child_copy(env) (assumed: fork gives the child a copy of Env) and the fork is an opaque call that is told the child's event log, so the textual order parent-before / child / parent-after is not an execution order; push_frame's guard is taken to live until the child exits; bool::then_some + Option::flatten through a helper with the std meaning; the system calls (block_sigint_sigquit, restore_sigmask, setpgid, getpgrp, tcsetpgrp_with_block), get_tty, enter_subshell, disown_all, the task, exit_or_raise, OptionSet::set / get are opaque calls appending to an event log; the AsyncFnOnce bound is dropped from the signature; the nested `const ME` is lifted to module level; precondition: SIGINT / SIGQUIT are not already blocked by this mechanism; await points dropped",
            'unit asynclist: Config::new is the derived Default (assumed: no job control, nothing ignored); config.start(..) with its async closure is an opaque call recording the configuration and the and-or list (unit subshellstart has the real start); JobList::insert / set_last_async_pid, AndOrList::execute / to_string, apply_result, run_exit_trap, print_error, is_interactive opaque; the descriptor table is a model trait (close; open answers the lowest free descriptor); the C-string literal is a helper call (Verus has none); that standard input IS /dev/null without job control is proved for nullify_stdin but only stated for the job-control case in async_body (a failing nullify is ignored by the code); await points dropped',
            'unit blocksig: trait Sigmask / Sigset are an assumed model with a ghost view of the blocked set (sigmask(op, old): on success the previous mask is stored through `old` and the mask becomes op applied to it); the impl `for S where S: Sigmask + ?Sized` is checked as methods of a wrapper struct around an arbitrary S (rule impl-header-override; Self::SavedMask = S::Sigset; ?Sized dropped); &self as &mut self; await points dropped',
        ],
    },
    'C01': {
        'v_units': ['split', 'switch', 'phrase', 'dquote'],
        'k_units': ['splitk'],
        'level': 'other',
        'explanation': (
            'Kernel only. Verus proves that the field-splitting iterator (yash-env/src/semantics/expansion/split/ranges.rs, '
            'Ranges::next, extracted on every run) yields, for inputs of ANY length and any IFS, exactly the fields of a '
            'reference splitter written from XCU 2.6.5 (runs of IFS white space merge into one delimiter together with at most one '
            'other IFS character, every further non-white-space IFS character delimits an empty field, leading/trailing IFS white '
            'space is ignored, no empty field arises otherwise), and that Ifs::classify_attr / classify treat a character as a '
            'separator only if it is an unquoted result of an expansion. Verus also proves the "unset or null" table of the '
            'switch forms ${x-w} ${x:-w} ... (Vacancy::of, ValueCondition::with of param/switch.rs) equal to the table of XCU '
            '2.6.2. Kani (bounded, concrete enumeration: IFS from five fixed values, inputs of <= 2 characters quick / 3 thorough) '
            'runs the real Ifs::new / non_whitespaces / classify_attr / Ranges::next against an executable reference splitter: '
            'it covers what the Verus unit leaves uninterpreted (membership in IFS) and yields counterexamples; it also runs '
            'split_into (which cuts the field at those ranges, re-using the original vector for the last one) on three concrete '
            'inputs. Level is "other" '
            'because of the bounded part. Verus further proves the field-list algebra behind "$@" inside a word '
            '(yash-semantics/src/expansion/phrase.rs Phrase::append, add_assign, field_count, is_zero_fields, zero_fields, '
            'one_empty_field): a phrase denotes a list of fields, appending joins the last field of the left list with the first '
            'field of the right list and an empty list is the unit, in all nine representation cases, with `other` left empty; and '
            'that Phrase::ifs_join ($*) yields the fields in order with the separator between every two of them and none at the ends '
            '(which character the separator is - the first of IFS, a space when IFS is unset, nothing when it is empty - is computed by '
            'string code outside Verus\'s reach and ASSUMED). Unit dquote (Verus, yash-semantics/src/expansion/initial/word.rs): '
            'double_quote puts every field of a phrase between two quoting double-quote characters and marks all its characters quoted, '
            'values, origins and quoting marks unchanged, as many fields as before (one per positional parameter for "$@"); the DoubleQuote arm '
            'of WordUnit::expand expands exactly its text, once, in a NON-splitting context (which is what makes "$*" join with IFS) and '
            'restores the previous context afterwards - also when the expansion fails, also when double quotes are nested inside an expansion '
            'inside double quotes; every other kind of word unit leaves the context alone. Not decided here: the remaining parameter-expansion modifiers (trim, '
            'length), nounset, quote removal, the read built-in, the lexer -- all of which run through async code over '
            'Env or through string iteration outside the verifier\'s subset; a change there is not seen by this check.'),
        'trusted_base': ['Verus 0.2026.09.13 + Z3', 'vstd iterator model (IteratorSpec: prophetic remaining())', '/verif/tools/vextract.py'],
        'assumptions': [
            'membership of a character in IFS / in its non-white-space part (str::contains) is uninterpreted: Ifs::is_ifs and is_ifs_non_whitespace are external_body',
            'the inner character iterator obeys vstd\'s iterator laws (a precondition of the contract)',
            'Iterator::next for Ranges is checked as an inherent method with the same body (impl header replaced)',
            'the reference splitter (contracts/v/split/prelude.rs) is the reading of XCU 2.6.5 the contract is stated against',
            'Phrase::append: `left.extend(right.drain(1..))` is checked as a call of a helper with that body and an assumed contract (rewrite rule tokens-to-helper); mem::replace has an assumed contract',
            'Phrase::ifs_join: the separator computation and the reserve_exact call are helper calls with assumed contracts; Vec::extend(Vec) appends the elements; VariableSet is a placeholder; a ghost entry snapshot and a proof block at the end of the loop body are spliced',
            'unit dquote: expanding a text / text unit is an opaque call (async in the code) that records the context flag it ran with in a ghost log; single_quote, dollar_single_quote, tilde expansion, EscapedString::unquote are opaque; `for c in chars.iter_mut()` and `fields.iter_mut().for_each(f)` are checked as index loops; a vector holds fewer than usize::MAX - 2 elements (physical bound, assumed as an axiom); mem::replace and Vec::reserve_exact have assumed contracts',
        ],
    },
    'C04': {
        'v_units': ['fnparse', 'fnregex', 'attrfn'],
        'k_units': ['fnmatch'],
        'level': 'other',
        'explanation': (
            'Translation kernel only. Verus proves on the real yash-fnmatch/src/ast/regex.rs, for EVERY character (non-ASCII '
            'included), that a literal pattern character is written into the regex as text that denotes exactly that character: '
            'unescaped iff it is not special in that position (outside / inside a character class), otherwise as backslash + '
            'character with the character escapable (BracketAtom::fmt_regex_char, Atom::fmt_regex), that ? and * become . and .*, '
            'and that a range item is written as start, an unescaped hyphen, end (BracketItem::fmt_regex); the character sets the '
            'code tests against are read from its two string constants on every run (their characters proved with '
            'reveal_strlit). Verus also proves that the pattern PARSER (yash-fnmatch/src/ast.rs Ast::new, ast/parse.rs Atom::parse, '
            'Bracket::parse, make_range) returns, for every sequence of pattern characters, exactly what a reference parser written '
            'from XCU 2.13.1 / XBD 9.3.5 returns: ? * [ special only when unquoted, ] closes a bracket unless first, leading ! or ^ '
            'complements, member - member is a range only around an UNQUOTED hyphen (finding F2, fixed), an unclosed [ is a literal '
            'character, quoted characters are plain members (inner [. .] [= =] [: :] expressions assumed). Verus also proves that '
            'apply_escapes (yash-semantics/src/expansion/attr_fnmatch.rs), which turns backslashes in the result of an expansion into '
            'quoting before a pattern is built, is the left-to-right scan in which an unquoted backslash that is not itself escaped '
            'quotes the next character and becomes a quoting character, touching nothing else. '
            'Kani checks the same per-character contract by concrete execution over every ASCII character for the emitters whose '
            'bodies Verus cannot take (BracketAtom::fmt_regex / fmt_regex_single with one-character collating symbols and '
            'equivalence classes), and that an unclosed [ is literal. NOT checked: BracketAtom::parse_inner (builds Strings), '
            'Bracket::fmt_regex (the [ ^ ... ] frame and the multi-character alternation), the regex engine, anchoring and '
            'find/rfind in lib.rs, trim_value / case.'),
        'trusted_base': ['Kani 0.68.0 + CBMC 6.11', 'Verus 0.2026.09.13 + Z3', 'regex-syntax 0.8 grammar facts (assumed)'],
        'assumptions': [
            'the language equality pattern <-> regex is delegated to the regex crate, which is not verified',
            'regex-syntax 0.8: outside a class exactly \\ . + * ? ( ) | [ ] { } ^ $ are special, inside a class exactly \\ [ ] ^ - & ~, and backslash + c denotes c exactly for its meta characters (assumed contract on the dependency)',
            'std::fmt::Write is modelled by a trait whose write_char/write_str append and never fail (as String does); `&mut dyn Write` parameters are checked as generic parameters (rewrite rule dyn-to-generic); str::contains(char) is membership',
            'BracketAtom::parse_inner is external_body (assumed: consumes a non-empty prefix, never yields a plain character); cloning an iterator yields the same remaining items; the blanket From<T> for BracketItem wraps an atom (std reflexive From); ghost annotations (entry snapshots, lemma calls at the end of loop bodies) are spliced into Bracket::parse and Ast::new::inner',
            'BracketAtom::fmt_regex, fmt_regex_single and Bracket::fmt_regex are external_body in the Verus unit (string iteration, format_args!, for loops): assumed there, bounded-checked by Kani for characters and one-character symbols',
        ],
    },
    'C07': {
        'v_units': [],
        'k_units': ['quote', 'lexclass', 'qvalue', 'typesetk'],
        'level': 'other',
        'explanation': (
            'Quoting-decision kernel only. Kani proves, loop-free over EVERY char (complete), that '
            'yash_quote::char_needs_quoting is true exactly for ; & | ( ) < > $ ` \\ " \' = * ? and all Unicode white space, that '
            'every character the lexer treats specially (operator characters, blanks, quote and expansion introducers) is in '
            'that set, and that the lexer\'s own predicates are is_operator_char = { newline & ( ) ; < > | } and '
            'is_blank = white space but newline -- so the two separately written components agree character by character. '
            'Bounded (concrete enumeration): the whole quoting function (str_needs_quoting decision + Display for Quoted) is run on '
            'every text of <= 2 characters over 16 special and ordinary characters and on ten 3-character texts (:~, {a}, [a], '
            'mixed quotes) and its output compared with the literal expected form; every expected form was re-read by a reference '
            'un-quoter written from XCU 2.2 (tools/gen_quote.py) and denotes exactly the original text as one field. The value '
            'printer the listings of variables go through (yash-env/src/variable/value.rs Value::quote / Display for QuotedValue) is run on '
            'five concrete values: a scalar is its quoted form, an array is "(" + the items quoted one by one, one space between them + ")". '
            'NOT decided: longer texts, the real lexer re-reading the output (async), and the state-listing built-ins themselves (alias, '
            'typeset -p, trap, ...), which need the shell to evaluate its own output.'
            ' Unit typesetk (Kani, concrete variables): print_one of typeset/print_variables.rs prints, for a scalar or valueless variable, exactly the line a fresh shell must read to recreate it - built-in name, attribute options, `-- ` in front of a name that begins with a hyphen (decided on the name, not on its quoted form), the quoted name, the quoted value. The array case (two lines) is NOT checked (the harness exceeded 900 s).'),
        'trusted_base': ['Kani 0.68.0 + CBMC 6.11'],
        'assumptions': [
            'the always-quote set is my reading of XCU 2.2 plus yash\'s Unicode blanks',
            'char::is_whitespace of std is used on both sides of the comparison for non-ASCII characters',
        ],
    },
    'C14': {
        'v_units': ['fifo', 'rwall', 'pipeset', 'cmdsubst'],
        'k_units': ['readchar'],
        'level': 'other',
        'explanation': (
            'Object-level kernel only: the byte queue of a pipe in the simulated system (yash-env/src/system/virtual/file_body.rs). '
            'Verus proves, for every queue content, every buffer and every payload size, that FileBody::poll_write on a FIFO appends: '
            'the whole buffer behind what is queued if it fits; nothing (Pending, queue untouched) if it does not fit and is at most '
            'PIPE_BUF bytes long (atomic small writes) or the pipe is full; otherwise exactly as much of its beginning as fits, returning '
            'that count (which is what makes payloads far beyond the capacity arrive piecewise and in order); never more than PIPE_SIZE '
            'bytes queued; EPIPE and nothing queued without a reader. FileBody::poll_read removes the first min(len(buffer), len(queue)) '
            'bytes into the buffer in order, blocks on an empty pipe with a writer, reports end of file without one. '
            'A reader or writer that is told to wait (Pending) has been registered with the waker it supplied, and whenever bytes '
            'leave (enter) the queue every registered writer (reader) has been woken: no lost wake-up at the object level. '
            'is_ready_for_reading / is_ready_for_writing agree with those blocking conditions; open / close only count the ends and never '
            'touch the bytes in flight. Together: no byte is lost, duplicated or reordered by the queue itself (lemma_fifo_order). '
            'One level up (yash-env/src/system/virtual/io.rs), the loop of OpenFileDescription::poll_write_full - the write(2) '
            'equivalent that delivers a payload larger than the room piecewise - is proved to queue exactly '
            'buffer[start .. *bytes_written] in order whatever the outcome (complete, pending with the running total kept, error only '
            'when nothing was transferred), given an ASSUMED contract for one poll_write step on the description. '
            'NOT decided: everything the property says about interleavings of writer and reader (wake-ups, the select loop, the '
            'rw_all loops of yash-env/src/system/concurrency), the rest of OpenFileDescription (RefCell borrows), regular files, command '
            'substitution and its trailing-newline removal, here-documents. A change there is not seen by this check.'
            ' Unit rwall (Verus): the loops over partial transfers of yash-env/src/system/concurrency/rw_all.rs. write_all: whatever '
            'the sizes of the partial writes and however often the descriptor was not ready, success means the system has accepted '
            'exactly the data, once, in order (on an error: a beginning of it), other descriptors untouched. read_all_to: what was in the '
            'buffer stays, what the system handed out is exactly what was appended (success or failure: nothing lost, nothing twice), '
            'success implies that a read reported the end of input on a non-empty buffer slice (the reserve arithmetic guarantees room). '
            'The system side (Read / Write) is an assumed synchronous model; await points are dropped.'
            ' Unit readchar (Kani, bounded; shared with C18): the byte-wise reader of the read built-in returns the same character and consumes '
            'exactly its bytes under every chunking of the underlying reads (inputs of <= 4 bytes): a short read is never taken for the end of input.'
            " Unit pipeset (Verus, shared with C08) also carries a clause of C14: PipeSet::move_to_stdin_stdout wires each pipeline element so that its standard input IS the previous pipe and its standard output IS the next pipe (same open file descriptions), whatever descriptor numbers pipe() handed out - including 0 and 1 when the shell's own standard input or output is closed - so that what one command writes is what the next one reads."
            ' Unit cmdsubst (Verus, yash-semantics/src/expansion/initial/command_subst.rs subshell_body + expand_common) over a model of the descriptor table: in the child, when the command text is run (at most once) its standard output IS the writing end of the pipe and the child holds no other descriptor of either end, nothing else changed (a failing dup2 is reported once and the text does not run); in the parent, whatever happens, afterwards neither end of the pipe is held and nothing else changed - also when the child could not be started, in which case nothing is read and nobody awaited; otherwise the output is read exactly once, from the reading end, at a moment when the parent holds NO descriptor of the writing end (so that end-of-file can come); then the child is awaited until a halt that is not a mere stop, every halt awaited being one of that child, and the status recorded for the substitution is the status that last halt stands for. NOT under contract: the tail of expand_common (UTF-8 decoding, removal of the trailing newlines, conversion to attributed characters), which is one opaque helper call here.'),
        'trusted_base': ['Verus 0.2026.09.13 + Z3', 'vstd models of VecDeque::pop_front/len and of slice::iter_mut', '/verif/tools/vextract.py'],
        'assumptions': [
            'unit rwall: model traits Read / Write (synchronous, &mut self, ghost streams written / consumed / at_eof per descriptor); Concurrent<S> reduced to the wrapped system; TemporaryNonBlockingGuard replaced by a move of the reference (descriptor flags are not modelled); yield_for_read / yield_for_write assumed not to change what this task transferred; EAGAIN = EWOULDBLOCK = 11; assumed contracts of Vec::capacity / reserve / extend(repeat_n) and of reading into the tail of a Vec',
            'assumed specs: VecDeque::extend / reserve_exact / is_empty, Vec::extend / resize_with; a shared slice yields its elements in order',
            '`for to in buffer` over `&mut [u8]` is checked as `buffer.iter_mut()` (std definition of IntoIterator for &mut [T]; rewrite rule tokens-to-helper)',
            'core::task::Poll, WakerSet, Weak, Cell, Waker, Inode, UnixStr, PathBuf, RefCell are same-named placeholders (only stored here); WakerSet is modelled as a set of waker identities with assumed contracts for insert (adds), wake_all (wakes and empties), is_empty and len; WHEN a woken task runs is not decided',
            'OpenFileDescription reaches its file through Rc<RefCell<Inode>>, which is not modelled: the file behind it is a ghost view, its poll_write step is assumed to append some beginning of the buffer (what the verified FileBody::poll_write does for a FIFO), and the test "is a FIFO" is a helper call',
            'the functions are checked under the precondition that the file is a FIFO holding at most PIPE_SIZE bytes; their Regular/Terminal/Directory/Symlink arms are unreachable under it and unverified',
            'a match arm `A {..} | B {..} => body` is checked as two arms with the same body (rewrite rule or-arm-split)',
            'unit pipeset: see C08 (the system traits Pipe / Close / Dup are one synchronous model trait over a ghost descriptor table)',
            'unit cmdsubst: the system traits Close / Dup / ReadAll are one synchronous model trait over a ghost descriptor table (fd -> open file description) plus a log of read_all_to calls with the table at that moment; precondition: the two descriptors are a fresh pipe (distinct, open, the only descriptors of their descriptions); Env::wait_for_subshell_to_halt, Error::handle, the lexer constructor, read_eval_loop, ExitStatus::from(ProcessResult) are opaque; the decoding / newline-stripping tail of expand_common is replaced by one opaque helper (rule tokens-to-helper) and is NOT verified; `let x = loop { .. break v }` by rule loop-break-value; debug_assert_eq!(job_control, None) is an obligation; await points dropped; termination of the waiting loop not claimed',
        ],
    },
    'C16': {
        'v_units': ['variable', 'varset', 'simplecmd', 'funcall', 'unsetbi', 'builtincall', 'absenttarget'],
        'k_units': [],
        'level': 'proof',
        'explanation': (
            'Scoping kernel of the variable store, as an unbounded inductive argument: Verus proves on the real '
            'yash-env/src/variable.rs that get_or_new_impl (all three scopes), unset and push_context_impl preserve the '
            'representation invariant (per-name stacks strictly sorted by context index, all below the number of contexts: the '
            'module\'s own assert_normalized) from every state, and relate to the naive stack-of-maps model: the variable returned '
            'by get_or_new is the visible one afterwards, lives in the context the scope designates (a regular context / the '
            'topmost regular context / the topmost volatile context), starts from the variable visible within the reach of the '
            'scope or a default one, leaves definitions in lower contexts untouched and only ever drops definitions held in '
            'volatile contexts; get/get_scoped return the definition in the innermost context (lemma_visible_is_innermost) within '
            'the reach of the scope; unset removes exactly the definitions in the contexts the scope reaches, returns the topmost, '
            'and, when any of them is read-only, removes NOTHING and reports one of them ("a read-only variable is never ... unset '
            'by any means"; the defect F4 fixed in 658e542 is what this contract excludes). Per variable (unit variable): '
            'assign_impl refuses and changes nothing on a read-only variable, make_read_only is monotone, export touches only its '
            'flag. pop_context_impl removes exactly the definitions made in the popped context and keeps every lower one ("locals '
            'vanish at return while globals assigned inside persist"), its closure is verified against Vec::pop_if / HashMap::retain '
            'contracts; iter(scope) / Iter::next yield exactly the visible variables within the reach of the scope; env_c_strings only '
            'emits entries built from the name and current value of a visible exported variable (the formatting into a C string is '
            'not verified). Unit simplecmd (shared with C02): the assignments of a command that exports them (regular built-in, function, '
            'external utility) are made in the volatile scope - they do not outlive the command -, those of a special built-in or of a command '
            'without a name in the global scope (perform_assignments of simple_command.rs). Unit funcall (shared with C02): a function body runs '
            'in a regular context of its own holding the call\'s positional parameters, which is popped when the call ends (RAII of the context '
            'guard assumed); execute_function and execute_external_utility make the assignments of the command, exported, in a volatile context '
            'pushed on top of the caller\'s contexts, the body / utility runs with that context in place, and the contexts afterwards are the '
            'caller\'s ("assignments before a function or utility do not outlive it"). NOT decided: completeness of env_c_strings, ContextGuard, positional parameters, extend_env / init, and '
            'everything the interpreter does with these operations (which scope a built-in, function or assignment uses).'
            ' Unit unsetbi (Verus, yash-builtin/src/unset/semantics.rs unset_variables, unset_functions): the unset built-in asks the variable store to unset EVERY operand, each exactly once, in order, in the GLOBAL scope (every definition of the name goes away; what VariableSet::unset does with that request, including its refusal for read-only variables, is under contract in unit varset), never touches the functions in variable mode and vice versa, and hands back exactly one error per refused name.'
            " Unit builtincall (Verus, yash-semantics/src/command/simple_command/builtin.rs execute_builtin): the redirections of the command are performed first, once, under a RedirGuard; a failed one is reported once and nothing else happens - it interrupts the shell iff the built-in is a SPECIAL one, any other lets the shell go on; the assignments are then made once, with the redirections in effect: for a SPECIAL built-in in the caller's own contexts and not exported (they stay), for any other exported in a VOLATILE context pushed on top, which is gone afterwards; the built-in runs at most once, only after both succeeded and it turned out usable, in a Builtin frame saying whether it is special, with the redirections in effect, the contexts of the assignments and the fields after the command name; `$?` is the exit status of its result, the divert of its result is handed on, and the redirections stay in effect afterwards exactly when the result asks for that (exec); an unusable built-in is reported once, nothing runs, and the contexts, frames and redirections are the caller's again."
            " Unit absenttarget (Verus, yash-semantics/src/command/simple_command/absent.rs execute_absent_target - a simple command without a command name): its redirections are never performed in this shell - without redirections no child is started, otherwise exactly one child is started for exactly these redirections and awaited, and its result is interpreted once; in the child (the closure, checked as a nested function with the same body) they are performed once, all, under a guard, a failed one is reported once and the handler's outcome applied, otherwise the child's status is that of the last command substitution in them or the status the command started with; a child that cannot be started interrupts with status 2 and no assignment is made; otherwise the assignments are made in THIS shell, once, all of them, NOT exported, in the caller's own contexts (they stay), a failed one hands its divert on, and `$?` is the status of the last command substitution in the assignments, else what the child reported, else (no redirections) the status handed in."
            " The context guard of the store (variable/guard.rs VariableSet::push_context, Drop for ContextGuard) has its constructor and destructor bodies verified in unit varset: while the guard lives the context is on top, dropping it pops exactly that context; that the destructor runs when the guard goes away is Rust's semantics and stays the assumption of the units that use guards."),
        'trusted_base': ['Verus 0.2026.09.13 + Z3', '/verif/tools/vextract.py'],
        'assumptions': [
            'source::Location is an opaque placeholder type',
            'assumed specs: mem::replace, Option::replace, Option::filter, HashMap::get_mut, <[T]>::partition_point, Vec::pop_if, str::contains(char); '
            's.iter().rposition(p), v.drain(i..).next_back(), m.retain(f), m.iter().filter_map(f).collect() and the name=value formatting tail of '
            'env_c_strings behind helper functions with assumed contracts (rewrite rules iter-rposition-to-helper, drain-from-next-back-to-helper, '
            'tokens-to-helper); String obeys the hash-map key model; derived Clone/Default/PartialEq are structural; C strings are not modelled '
            '(uninterpreted name/value projections)',
            'a Vec holds at most usize::MAX elements (precondition on the context stack)',
            'the labeled block of get_or_new_impl is checked as a one-pass labeled loop (rewrite rule labeled-block-to-loop)',
            'units simplecmd / funcall: the assignment performer, the function body, the utility starter, perform_redirs and the error handlers are opaque calls observed by ghost monitors; RAII of the context guard (Env::push_context) and of the redirection guard is assumed (external_body contracts); PositionalParams::from_fields is assumed to keep the fields in order; await points dropped',
            'unit unsetbi: VariableSet::unset / FunctionSet::unset are opaque calls that log the request in ghost state (FunctionSet::unset fails only for a read-only function, whose read_only_location is Some: the unwrap is an obligation); `for name in names` over a slice is a while loop over the index; `let mut errors = Vec::new()` gets a type annotation (the invariant names it before inference); main of unset.rs (parse, dispatch, report) not under contract',
            'unit builtincall: RAII of RedirGuard, the context guard and the frame guard assumed in the contracts of their constructors; perform_assignments, resolve_builtin, the error handler, print_error and the built-in itself are opaque calls recording what was in place; Either::Left(&mut *env) / Either::Right(env.push_context(..)) are checked as two constructors of one guard type and the match that dereferences them as taking the reference the guard holds; the INTERRUPTIBLE run of a built-in (select between the built-in and SIGINT, signals caught meanwhile) is one opaque helper and NOT under contract; the labeled block with a value is checked in its else-nesting form (rule labeled-block-value-to-else); `r#type` renamed; precondition: at least the command name among the fields; await points dropped',
            "unit absenttarget: the async closure handed to Config::foreground().start_and_wait(..) is checked as a nested function (rule closure-to-nested-fn: parameters = the closure's parameters plus the captured variables redirs_2 and exit_status; its `return` is the closure's) and the start is an opaque call recording what the child was given; RAII of RedirGuard assumed; perform_redirs / perform_assignments / the error handler / apply_result / handle_job_status / print_error opaque, recording what was in place and the status of the last command substitution they saw; slice::first, the iterator over the redirections and the location of the first redirection through helpers; await points dropped",
        ],
    },
    'C20': {
        'v_units': [],
        'k_units': ['optparse', 'getoptsk'],
        'level': 'other',
        'explanation': (
            'Generic option parser only. Kani runs the real parse_arguments (with parse_short_options, parse_long_option, '
            'long_match) of yash-builtin/src/common/syntax.rs on concrete argument vectors over the word alphabet of the '
            'property { - -- -a -ab -b -oX -o --long --lo --long=X X } and compares occurrences (option identity, spelling, '
            'option-argument), operands, or the kind of error, with the literal outcome computed by a reference parser written '
            'from XBD 12.2 and the documented long-option extension (tools/gen_optparse.py): grouped = separate short options, '
            'attached = separate option-argument, -- ends options, unambiguous prefixes of long names with exact names winning, '
            '--name=value = --name value, unknown / ambiguous / missing-argument invocations rejected. One harness per vector '
            '(5-20 s each). Bounded: see the unit\'s bound; 28 vectors ending in an error with arguments pending are out of '
            'reach (drop glue of Location inside the function, > 600 s) and excluded. NOT decided: the per-built-in '
            'interpretation of parsed options, the bespoke parsers of set/kill/typeset and of the shell\'s command line.'
            ' Unit getoptsk (Kani, concrete argument vectors): the getopts scanner (yash-builtin/src/getopts/model.rs next + OptionSpec::judge), driven to the end of each vector exactly as the built-in drives it, reports grouped options as it reports separate ones, an attached option-argument as a separate one (also at the end of a group), stops at `--`, a lone `-` or the first operand, reports an unknown option where it stands without losing the options grouped after it, and a missing option-argument as an error; literal expectations, the same for equivalent spellings.'),
        'trusted_base': ['Kani 0.68.0 + CBMC 6.11', 'reference parser in tools/gen_optparse.py'],
        'assumptions': ['Mode::with_extensions only', 'two fixed option tables', 'unit getoptsk: 16 concrete vectors over the option strings "ab:c"; expectations are literals written from XCU getopts'],
    },
    'C02': {
        'v_units': ['cmdsearch', 'looplevel', 'returnbi', 'whileloop', 'forloop', 'casecmd', 'condframe', 'simplecmd', 'funcall', 'subshellcmd', 'pipelinerun', 'asynclist', 'cmdlist', 'builtincall', 'absenttarget', 'exitbi', 'fundef', 'pipelineparse', 'dotscript'],
        'k_units': ['loopcount'],
        'level': 'other',
        'explanation': (
            'Two synchronous kernels of C02, nothing more. (1) Command search: Verus proves on the real '
            'yash-env/src/semantics/command/search.rs that classify() resolves a name in the order of XCU 2.9.1.4 - a name with a slash is '
            'a path; otherwise a special built-in, then a function, then any other built-in, then an external utility - as a function of what '
            'the environment answers for the name (ghost views on the real traits ClassifyEnv / PathEnv), returning the very built-in or '
            'function found; that search() keeps that order and then settles the path: a substitutive built-in counts only if $PATH has a '
            'utility of that name (otherwise Unusable(NotInPath)), a built-in POSIX does not define is Unusable(NotPortable) in portable mode, an '
            'external name without a slash is found exactly when the $PATH walk finds it (otherwise NotFound, i.e. 127), a name with a slash '
            'is used as it is, a function is never "not found"; the environment is not changed. (2) Loop levels: Verus proves that break n / '
            'continue n (yash-builtin/src/break/semantics.rs, continue/semantics.rs run) are an error exactly outside any loop of the current '
            'execution environment and otherwise divert with count = min(n, enclosing loops) - 1, from a contract of Stack::loop_count that '
            'Kani checks on the real function (bounded: every stack of <= 3 frames quick / 4 thorough over six frame kinds, any max_count): '
            'the enclosing loops are counted from the innermost frame outwards up to the first subshell, dot-script, trap or init-file frame. '
            '(3) Unit whileloop (Verus): how while / until loops react (yash-semantics/src/command/compound_command/while_loop.rs, async '
            'stripped, command execution an opaque call whose results are recorded in a ghost log): Loop::iterate goes on while condition and '
            'body go on normally and hands on the FIRST divert that comes out of either, unchanged - none is swallowed; Loop::execute ends on '
            'the first result that is neither normal nor a continue of this very loop (which starts the next round), or on a false condition, '
            'and hands on exactly that result with one break / continue level taken off (Break{0} ends the loop normally, Break{n} becomes '
            'Break{n-1}, Continue{n} becomes Continue{n-1}, return / exit / interrupt pass through); when the loop ends normally its '
            'status is the one the LAST execution of its body left, however that execution ended (finding F7: a round ended by `continue` '
            'was not recorded; fixed), and what it started with if the body never ran. '
            '(2b) Unit returnbi (Verus): the `return` built-in (yash-builtin/src/return.rs main) asks for a return from the innermost function '
            'with Divert::Return carrying the operand as the status to return with (None and its own status = the current $? without an operand), '
            'leaves $? alone itself, with -n asks for nothing and only sets the status, and reports an error - never a Return divert - for two '
            'operands, a negative or non-numeric operand or an option error; with units whileloop / forloop / condframe (the divert is handed on '
            'unchanged) and funcall (it is absorbed by the innermost function call) this is "return leaves only the innermost function" end to end. '
            '(3b) Unit forloop (Verus): for_loop.rs execute runs the body once per value, in order, each run right after the loop variable was '
            'assigned that value, inside a Loop frame pushed on the caller\'s stack (gone afterwards, RAII assumed); every run but the last ended '
            'normally or with a continue of this loop; the loop stops early only when the last run did not let it go on and hands on that '
            'result with one break / continue level taken off (a break / continue of this loop ends it / starts the next round), every other '
            'divert unchanged; its status is what the last run left, and 0 when there is no value; an expansion error or a read-only loop '
            'variable is reported once and nothing (more) runs. '
            '(3c) Unit casecmd (Verus): case.rs execute, against a monitor automaton that flags every test or run out of turn: the items are tested in '
            'order from the first; a body runs only right after its own patterns matched or right after the body before it ran and said `;&`; '
            'after `;&` the next item is not tested, after `;|` testing goes on with the next item, after `;;` or a divert nothing happens; the '
            'command goes on until nothing is left to do; a divert out of a body is handed on; the status is zero when nothing ran and '
            'otherwise that of the last body executed (zero for an empty one). '
            '(4) Unit condframe (Verus, shared with C10): one element of an and-or list after the first runs iff (`&&` and the status so far '
            'is zero) or (`||` and it is not), otherwise nothing runs and the status stays - left to right, equal precedence, because each '
            'element only looks at the status left by what ran before it; `!` inverts only the status (0 <-> 1 / non-zero -> 0) and only when '
            'the commands ended normally, a divert passes through un-inverted; the condition of if / while / until holds iff its last command '
            'succeeded; (6) unit funcall (Verus): execute_function_body runs the body exactly once in a regular variable context of its own '
            '(positional parameters = the fields of the call) on top of what the caller had, gone afterwards; a Return divert from the body ends '
            'THIS call only - the caller goes on, with the status the return carried - and every other divert is handed on unchanged; '
            'execute_function runs the body exactly once iff the redirections and the assignments of the command succeeded (a failed redirection '
            'is reported and nothing runs, a divert from the assignments is handed on), execute_external_utility starts the utility at most '
            'once under the same conditions with all the fields of the command, makes its status `$?` and hands on its divert, and a '
            'utility that is not found leaves status 127 (the constant is read from yash-env/src/semantics.rs) with one report and nothing started; '
            '(5) unit simplecmd (Verus): SimpleCommand::execute classifies the first field and runs exactly the executor for that '
            'kind of target, once (the absent-target executor for a command without a name), nothing after a failed expansion; expand_words expands the '
            'words in order, each once, up to the first failure and hands on the status of the LAST command substitution performed in any of them '
            '(a later word without one does not erase it), and a command without a name starts from exactly that status or 0 (XCU 2.9.1); the if command tries its conditions in order, runs a `then` branch only right after ITS condition held and the else '
            'branch only after every condition failed, has the status and result of the branch it ran, and status 0 when it ran none. '
            'NOT decided: everything else C02 says - which commands run in which order with which $?, multi-command pipelines, '
            'the pattern matching inside case (matches), subshells, built-in execution, the $PATH walk '
            'itself (search_path: iterator adapters over strings, assumed), Env::builtin (availability under posixly-correct / portable).'
            ' Unit subshellcmd (Verus, compound_command/subshell.rs execute + subshell_main): for `( ... )` exactly one child is started and what runs in it is subshell_main on exactly this body; the awaited result of exactly that child is interpreted once (handle_job_status), `$?` becomes the status it stands for, and errexit is consulted exactly once, afterwards, with that status (a failing subshell ends the shell under errexit) - unless interpreting the result diverts (stopped child / SIGINT in an interactive shell), which is handed on without errexit; a child that cannot be started gives an interrupt with the error status and leaves `$?` alone. Inside the child the body runs once, its result is applied (apply_result), and the EXIT trap runs exactly once, after both.'
            ' Unit pipelinerun (Verus, pipeline.rs execute_commands_in_pipeline, execute_job_controlled_pipeline, execute_multi_command_pipeline, shift_or_fail, pid_or_fail, connect_pipe_and_execute_command) against a monitor of the opaque pipe-set / start / wait calls: an empty pipeline has status 0; a one-command pipeline is exactly that command run in this shell, its result handed on, no second errexit; for two or more commands no command runs in this shell: without job control one child is started per command, in order, each right after the pipe set was shifted for it and with the pipe set as just shifted (a next pipe iff it is not the last command), the parent shifts once more (closing its last pipe end) BEFORE it waits, every child started is awaited exactly once, in order (the process IDs are pairwise distinct and each is still unreaped when awaited, so the `expect` cannot fail), none is left unreaped, and `$?` is the status of the last command or, under pipefail, of the rightmost one that failed (0 if none); with job control exactly one child is started for exactly these commands, its awaited result is interpreted once and `$?` is the status it stands for; in both cases errexit is consulted exactly once, at the very end, with that status, and its answer is the result; a failing pipe / start gives an interrupt with status 126 (NOEXEC). In a child, connect_pipe_and_execute_command connects the pipes first and runs the command once, only if that worked.'
            " Unit asynclist (Verus, yash-semantics/src/command/item.rs Item::execute, execute_async, async_body, nullify_stdin): a synchronous item is exactly its and-or list, run in this shell, once; for `cmd &` exactly one child is started for exactly this and-or list, with background job control asked for and SIGINT / SIGQUIT ignored in it, the list does not run in this shell and the child is not awaited; if it was started, one job with its process ID enters the job table (owned, running, not yet reported; job-controlled iff job control was granted), `$!` becomes that process ID and `$?` is 0; if not, no job, `$!` untouched, an interrupt with status 126. In the child the list runs exactly once, its result is applied and the EXIT trap runs once, in this order; under job control standard input is left alone; nullify_stdin makes standard input /dev/null and changes nothing else (its assert_eq! is discharged from POSIX's lowest-free-descriptor rule)."
            " Unit cmdlist (Verus, yash-semantics/src/command.rs): Command::execute runs exactly the one command it is (simple, compound or function definition), once, then exactly one trap round (run_traps_for_caught_signals), then refreshes the job statuses - nothing else - and answers the command's result unless only the traps diverted, the more severe divert if both did; List::execute runs its items in order, each exactly once, up to and including the first that diverts, hands that divert on unchanged and runs nothing after it (every item when none diverts)."
            " Unit builtincall (Verus, yash-semantics/src/command/simple_command/builtin.rs execute_builtin): the redirections of the command are performed first, once, under a RedirGuard; a failed one is reported once and nothing else happens - it interrupts the shell iff the built-in is a SPECIAL one, any other lets the shell go on; the assignments are then made once, with the redirections in effect: for a SPECIAL built-in in the caller's own contexts and not exported (they stay), for any other exported in a VOLATILE context pushed on top, which is gone afterwards; the built-in runs at most once, only after both succeeded and it turned out usable, in a Builtin frame saying whether it is special, with the redirections in effect, the contexts of the assignments and the fields after the command name; `$?` is the exit status of its result, the divert of its result is handed on, and the redirections stay in effect afterwards exactly when the result asks for that (exec); an unusable built-in is reported once, nothing runs, and the contexts, frames and redirections are the caller's again."
            " Unit absenttarget (Verus, yash-semantics/src/command/simple_command/absent.rs execute_absent_target - a simple command without a command name): its redirections are never performed in this shell - without redirections no child is started, otherwise exactly one child is started for exactly these redirections and awaited, and its result is interpreted once; in the child (the closure, checked as a nested function with the same body) they are performed once, all, under a guard, a failed one is reported once and the handler's outcome applied, otherwise the child's status is that of the last command substitution in them or the status the command started with; a child that cannot be started interrupts with status 2 and no assignment is made; otherwise the assignments are made in THIS shell, once, all of them, NOT exported, in the caller's own contexts (they stay), a failed one hands its divert on, and `$?` is the status of the last command substitution in the assignments, else what the child reported, else (no redirections) the status handed in."
            " Unit exitbi (Verus, yash-builtin/src/exit.rs main): a well-formed `exit` asks for the end of the shell with Divert::Exit carrying its operand (None without an operand: the built-in's own status is then the current `$?`, which it leaves alone); two operands, a negative or non-numeric operand or an unknown option are errors reported once and ask for no exit; an interactive shell with stopped jobs refuses once without -f (an interrupt with a failure status, no Exit divert)."
            ' Unit fundef (Verus, yash-semantics/src/command/function_definition.rs): a function definition expands its name once; an error there is handled once and nothing is defined; otherwise a function of exactly that name whose body is the body of the definition is handed to the function set, once - accepted: `$?` is 0; refused by an existing read-only function: reported once, `$?` is 2; errexit is consulted exactly once afterwards with that status unless the handler of an expansion error diverted.'
            ' Unit pipelineparse (Verus, yash-syntax/src/parser/pipeline.rs Parser::pipeline) against a monitor of what the parser consumed: when the first command position is an alias substitution, or holds no command and no `!`, the call returns WITHOUT having consumed anything (the caller parses the replacement text from its start); the pipeline handed out is negated exactly when this call consumed a `!` token, its commands are exactly the commands parsed, in order, a `|` was consumed between every two of them and nothing else was consumed; after a `!` or a `|` an alias substitution makes the command be parsed again in place, so what was consumed is not forgotten.'
            " Unit dotscript (Verus, yash-builtin/src/source/semantics.rs Command::execute, consume_return): the `.` built-in reads the script once, through a descriptor newly opened for it (open while it is read, closed afterwards whatever came out: no descriptor is left behind), inside a DotScript frame on top of the caller's frames, which are back afterwards; a Return divert out of the script ends the script only - its status, or `$?`, becomes the status of the built-in -, every other divert is handed on; a script that cannot be opened gives one report and nothing runs."),
        'trusted_base': ['Verus 0.2026.09.13 + Z3', 'Kani 0.68.0 + CBMC 6.11', '/verif/tools/vextract.py, /verif/tools/kunit.py'],
        'assumptions': [
            'unit cmdsearch: the methods of ClassifyEnv / PathEnv answer according to ghost views builtin_of / function_of / path_hit (implementor obligation, not verified); search_path is external_body (returns path_hit, leaves the environment alone); str::contains(char), CString::default / new are opaque helpers; Builtin / Function reduced to what the search reads; the raw identifier r#type is renamed (Verus aborts on it); derived PartialEq of Type is structural',
            'unit looplevel: Stack::loop_count is external_body with the contract the Kani unit loopcount checks (bounded); NonZeroUsize::get returns the non-zero number; ExitStatus::SUCCESS = ExitStatus(0); Field and trap::Condition are placeholders',
            'unit loopcount (Kani): Frame::Builtin frames are not among the generated frames',
            'units simplecmd / funcall: word expansion, classification, the four executors (in simplecmd), error handlers, apply_errexit, the assignment performer, executing a function body, the environment hook, RedirGuard::perform_redirs, search_path, start_external_utility_in_subshell_and_wait, print_error, xtrace are opaque calls observed by ghost monitors; RAII of the context guard and of the redirection guard is assumed in the contracts of Env::push_context / RedirGuard::new (external_body), and perform_redirs is assumed to keep the reference the guard was made with; `&mut guard` is checked as `guard.env`, `let env = &mut RedirGuard::new(env)` as an owning binding; format!(..).into() messages are a helper call; await points dropped',
            'unit returnbi: parse_arguments is external_body (answers uninterpreted views of the argument vector: well-formedness, the operands, whether -n was given; every option it hands out is -n; the Kani unit optparse checks the real parser, bounded, for C20); the error reporters are opaque calls that never answer a Return divert; str::parse::<i32> is an uninterpreted helper; unreachable!() is checked as a call with precondition false; slice::get / first through a helper with an assumed contract; await points dropped',
            'unit forloop: expanding the name and the words, the positional parameters, tracing, get_or_create_variable + assign (checked as ONE helper call), executing the body and the error handlers are opaque calls observed by a ghost monitor; `for PATTERN in vec` is checked as `while let Some(x) = <take the first element off>` (assumed contract of the helper; Verus has no `continue` in for loops); preconditions: a fresh monitor and a NON-EMPTY body (the parser rejects `do done`; with an empty body the function would leave $? alone for an empty value list); RAII of the frame guard assumed; await points dropped; termination not claimed',
            'unit casecmd: expanding the subject, tracing, testing the patterns of one item (matches) and executing one body are opaque calls driving a ghost monitor; the two calls are given the item itself instead of its patterns / body field (items carry their index as ghost data; precondition items_wf); testing patterns is assumed to leave $? alone; `for item in items` is checked as a while loop over the index; enum CaseContinuation is extracted from yash-syntax; preconditions: a fresh monitor; await points dropped',
            'unit whileloop: List::execute and evaluate_condition are external_body (any result, appended to a ghost log in the reduced Env); `?` on ControlFlow through assumed contracts of Try::branch / FromResidual::from_residual; await points dropped; termination not claimed',
            'unit subshellcmd: Config::foreground().start_and_wait(..) with its async closure, handle_job_status, apply_errexit / apply_result, print_error, List::execute and run_exit_trap are opaque calls that update a ghost monitor in the reduced Env (the job-name closure goes with the replaced call); await points dropped',
            'unit pipelinerun: PipeSet is a ghost view (number of shifts, has-next flag of the last shift; the real shift / move_to_stdin_stdout are verified in unit pipeset); Config::new().start(..) / Config::foreground().start_and_wait(..) with their async closures are opaque calls (what the child-side closures do after connect_pipe_and_execute_command - apply_result, run_exit_trap - is NOT under contract here); start answers a process ID that is not among the unreaped ones and no job control; wait_for_subshell_to_finish answers Ok(target, status) for an unreaped child of ours (unit waitsub has the real function); handle_job_status, apply_errexit, controls_jobs, OptionSet::get(PipeFail), print_error opaque; `commands.iter().cloned()` is an assumed model of the slice iterator; `for pid in pids` takes the first element off on every round; debug_assert_eq!(job_control, None) is an obligation; preconditions: a fresh monitor; await points dropped; what happens to children already started when a later pipe / start fails is not constrained',
            'unit asynclist: Config::new is the derived Default (assumed: no job control, nothing ignored); config.start(..) with its async closure is an opaque call recording the configuration and the and-or list (unit subshellstart has the real start); JobList::insert / set_last_async_pid, AndOrList::execute / to_string, apply_result, run_exit_trap, print_error, is_interactive opaque; the descriptor table is a model trait (close; open answers the lowest free descriptor); the C-string literal is a helper call (Verus has none); that standard input IS /dev/null without job control is proved for nullify_stdin but only stated for the job-control case in async_body (a failing nullify is ignored by the code); await points dropped',
            'unit cmdlist: executing a simple command / compound command / function definition / item, run_traps_for_caught_signals and update_all_subshell_statuses are opaque calls appending to an event log; Ord::max on Divert is a helper over an uninterpreted order; `Box::pin(async move { .. }).await` is checked as the block itself; `for item in &self.0` is a while loop over the index; await points dropped',
            'unit builtincall: RAII of RedirGuard, the context guard and the frame guard assumed in the contracts of their constructors; perform_assignments, resolve_builtin, the error handler, print_error and the built-in itself are opaque calls recording what was in place; Either::Left(&mut *env) / Either::Right(env.push_context(..)) are checked as two constructors of one guard type and the match that dereferences them as taking the reference the guard holds; the INTERRUPTIBLE run of a built-in (select between the built-in and SIGINT, signals caught meanwhile) is one opaque helper and NOT under contract; the labeled block with a value is checked in its else-nesting form (rule labeled-block-value-to-else); `r#type` renamed; precondition: at least the command name among the fields; await points dropped',
            "unit absenttarget: the async closure handed to Config::foreground().start_and_wait(..) is checked as a nested function (rule closure-to-nested-fn: parameters = the closure's parameters plus the captured variables redirs_2 and exit_status; its `return` is the closure's) and the start is an opaque call recording what the child was given; RAII of RedirGuard assumed; perform_redirs / perform_assignments / the error handler / apply_result / handle_job_status / print_error opaque, recording what was in place and the status of the last command substitution they saw; slice::first, the iterator over the redirections and the location of the first redirection through helpers; await points dropped",
            'unit exitbi: parse_arguments is external_body (uninterpreted views of the argument vector; every option it hands out is -f; the Kani unit optparse checks the real parser, bounded, for C20); the error reporters are opaque calls that never answer an Exit divert; str::parse::<i32> uninterpreted; slice::get / first and Iterator::any through helpers with the std meaning; the test "interactive, not POSIXly correct, guard configured, some job stopped" is ONE opaque helper (its conjuncts are not under contract) and the let chain is nested by hand; await points dropped',
            'unit fundef: expand_word, the error handler, FunctionSet::define, report_define_error, apply_errexit are opaque calls appending to ghost state; the three lines around `unsafe { Rc::from_raw(..) }` that view the body as a function body object are ONE helper keeping the identity of the body (unsafe code: trusted, not verified); await points dropped',
            'unit pipelineparse: the parser is reduced to a monitor of consumed tokens / parsed commands: command(), peek_token, take_token_raw (the token peeked is the token taken next; token indexes below usize::MAX), newline_and_here_doc_contents and mode are opaque; Keyword / Operator reduced to the members named here; two `let x = loop { .. break v; .. }` by rule loop-break-value with their invariants in the replacement text; a second annotation set judges a body that looks for the `!` before parsing the first command; preconditions: a fresh monitor; await points dropped; termination not claimed',
            'unit dotscript: find_and_open_file (the $PATH walk) is an opaque call answering a newly opened descriptor (open_file = open close-on-exec + move_fd_internal, the latter verified in unit redir); the construction of the parser configuration and the call of the read-eval loop taken from env.any are one opaque helper recording the descriptor, the frames and the open set; RAII of the frame guard assumed; the descriptor table is a ghost set; await points dropped',
        ],
    },
    'C05': {
        'v_units': ['globchars'],
        'k_units': [],
        'level': 'other',
        'explanation': (
            'One mechanism of C05 only: the conversion of the attributed characters of a field into pattern characters '
            '(yash-semantics/src/expansion/glob.rs, the iterator Chars inside to_pattern - the anchor "conversion of attributed characters to '
            'pattern characters"). Verus proves on the real Chars::next, for fields of every length: quoting characters (the quotes, the '
            'backslash of an escape) never reach the pattern; every other character yields exactly one pattern character with its own value, in '
            'order; it is a LITERAL pattern character - one that the pattern parser (proved in C04, unit fnparse) never treats as ? * [ or a '
            'bracket operator - if and only if it was quoted, is the result of a tilde or other hard expansion, or directly follows an unquoted '
            'backslash; so quoted text and tilde results are never wildcards, and unquoted text keeps its special meaning. NOT decided: the '
            'directory search itself (search_dir / push_component: component-wise matching against the directory entries, slashes, the '
            'leading-period rule, "." and ".."), that exactly the existing matching paths are returned, the sort, the fallback to the '
            'quote-removed field, noglob: they run over the file system of the System trait, String prefixes and the regex engine.'),
        'trusted_base': ['Verus 0.2026.09.13 + Z3', 'vstd iterator model (IteratorSpec: prophetic remaining())', '/verif/tools/vextract.py'],
        'assumptions': [
            'the slice iterator obeys vstd\'s iterator laws (a precondition of the contract); `for c in &mut self.inner` is checked as `while let Some(c) = self.inner.next()`',
            'the local struct Chars and its Iterator impl are lifted out of the function body (rule nested-item-lifted) and next is checked as an inherent method; PatternChar is a same-named two-variant enum; mem::replace has an assumed contract; derived PartialEq of Origin is structural',
        ],
    },
    'C09': {
        'v_units': ['redir', 'funcall', 'fullcompound', 'builtincall', 'absenttarget', 'dotscript'],
        'k_units': [],
        'level': 'other',
        'explanation': (
            'Kernel only: the save-then-replace mechanism and its restoration (yash-semantics/src/redir.rs), against an ASSUMED model of '
            'the descriptor table (descriptor -> open file description + close-on-exec flag) behind the Close / Dup / Fcntl traits. '
            'Verus proves, for every table and every list of redirections: perform() refuses a target that carries close-on-exec (a '
            'descriptor the shell holds for itself), saves the target in a descriptor of the shell\'s own (>= MIN_INTERNAL_FD, close-on-exec), '
            'changes the target only, and on ANY failure - expansion, open, a refused descriptor, dup2 - leaves the table exactly as it was '
            '(finding F6: the backing copy used to stay open; fixed); RedirGuard keeps the invariant "undoing the recorded saves, last first, '
            'gives back the table the guard started from" through perform_redir whether it succeeds or fails, and through perform_redirs - the loop over all the redirections of one command - however many were performed before one failed; undo_redirs and Drop restore '
            'exactly that table and hold nothing afterwards, in reverse order, for any number of redirections including several of the '
            'same descriptor; preserve_redirs (exec) keeps the redirected descriptors and closes every backing copy; the run-time '
            'assertions of the code (assert_eq!/assert_ne!) cannot fail. Restoration clauses are stated under the hypothesis that close '
            'and dup2 of valid descriptors do not fail (the code ignores those errors). The openers are under contract too: open_normal '
            'opens each file operator with the access mode and flags of XCU 2.7 (< read-only; > and >| write-only, create, truncate; >> '
            'write-only, create, append; <> read-write, create), > under noclobber (open_file_noclobber) never truncates and hands out only '
            'a file this very open created (O_CREAT|O_EXCL) or a non-regular file, closing what it opened when it refuses; <& and >& '
            '(copy_fd) only ever name an open descriptor of the right access mode that is not close-on-exec, or close the target for "-"; '
            'pipe and here-string operators are errors; here_doc::open_fd closes its temporary file when filling it fails; every opener '
            'opens at most one descriptor and leaves nothing behind on failure. Two CALLERS of the guard are under contract as well (unit funcall, '
            'shared with C02 / C16; RAII of the guard assumed there as a whole): execute_function and execute_external_utility perform the '
            'redirections of the command first, all of them, once, under a guard that lives until the command is over - the assignments, the '
            'function body / the utility run with exactly those redirections in effect and afterwards the redirections in effect are the '
            'caller\'s -, and after a failed redirection the error is reported once and neither assignments nor command happen; '
            'FullCompoundCommand::execute (unit fullcompound) does the same for a compound command with redirections: performed once, first, the '
            'command runs once with exactly them in effect on top of the caller\'s, and they are gone afterwards. '
            'NOT decided: expansion of the operand and the writing of the '
            'here-document body (assumed not to touch the table), the other callers of the guard (built-ins, the absent target: '
            'async interpreter code), move_fd_internal, and the simulated system itself.'
            " Unit builtincall (Verus, yash-semantics/src/command/simple_command/builtin.rs execute_builtin): the redirections of the command are performed first, once, under a RedirGuard; a failed one is reported once and nothing else happens - it interrupts the shell iff the built-in is a SPECIAL one, any other lets the shell go on; the assignments are then made once, with the redirections in effect: for a SPECIAL built-in in the caller's own contexts and not exported (they stay), for any other exported in a VOLATILE context pushed on top, which is gone afterwards; the built-in runs at most once, only after both succeeded and it turned out usable, in a Builtin frame saying whether it is special, with the redirections in effect, the contexts of the assignments and the fields after the command name; `$?` is the exit status of its result, the divert of its result is handed on, and the redirections stay in effect afterwards exactly when the result asks for that (exec); an unusable built-in is reported once, nothing runs, and the contexts, frames and redirections are the caller's again."
            " Unit absenttarget (Verus, yash-semantics/src/command/simple_command/absent.rs execute_absent_target - a simple command without a command name): its redirections are never performed in this shell - without redirections no child is started, otherwise exactly one child is started for exactly these redirections and awaited, and its result is interpreted once; in the child (the closure, checked as a nested function with the same body) they are performed once, all, under a guard, a failed one is reported once and the handler's outcome applied, otherwise the child's status is that of the last command substitution in them or the status the command started with; a child that cannot be started interrupts with status 2 and no assignment is made; otherwise the assignments are made in THIS shell, once, all of them, NOT exported, in the caller's own contexts (they stay), a failed one hands its divert on, and `$?` is the status of the last command substitution in the assignments, else what the child reported, else (no redirections) the status handed in."
            " Unit dotscript (Verus, yash-builtin/src/source/semantics.rs Command::execute, consume_return): the `.` built-in reads the script once, through a descriptor newly opened for it (open while it is read, closed afterwards whatever came out: no descriptor is left behind), inside a DotScript frame on top of the caller's frames, which are back afterwards; a Return divert out of the script ends the script only - its status, or `$?`, becomes the status of the built-in -, every other divert is handed on; a script that cannot be opened gives one report and nothing runs."),
        'trusted_base': ['Verus 0.2026.09.13 + Z3', '/verif/tools/vextract.py'],
        'assumptions': [
            'the system traits Close / Dup / Fcntl are replaced by one synchronous model trait over a ghost descriptor table (fd -> open file description, close-on-exec); dup returns a descriptor that was not open, >= its minimum, EBADF exactly for a closed source; dup2 clears close-on-exec; close of a closed descriptor succeeds (as the trait documents); failures of close/dup2 on valid descriptors are a function of the state and excluded by hypothesis in the restoration clauses',
            'expand_word / expand_text / fill_content / trace_* are external_body with assumed contracts: they leave the descriptor table alone; open() of the model yields a descriptor that was not open, for a NEW open file description that remembers its access mode and flags; fstat answers for the file behind the description; CString::new, the parsing of the <& operand and Path::new are opaque helpers; Result::is_ok_and has an assumed contract; `enum_set!(A | B)` is checked as `A | B`',
            'await points are dropped (strip-async): nothing else runs in between',
            'unit fullcompound: the same assumptions as unit funcall for the guard; executing the compound command, the handler, apply_errexit and the tracer are opaque calls observed by a ghost monitor',
            'unit funcall (callers of the guard): RAII of RedirGuard is assumed as a whole in the contract of RedirGuard::new (external_body: when the guard goes away the redirections in effect are those of before), perform_redirs / the error handler / perform_assignments / the function body / the utility starter are opaque calls observed by a ghost monitor; await points dropped',
            'Env reduced to the system field; RedirGuard passes itself where &mut Env is expected (DerefMut): checked as `self.env`; `for x in v.drain(..).rev()` is checked as `while let Some(x) = v.pop()`, `for x in v.drain(..)` through a helper with an assumed contract; the generic `I: IntoIterator<Item = &Redir>` parameter of perform_redirs is checked at `&[Redir]` (rule sig-tokens); Option::or and Option::as_deref_mut (helper) have assumed contracts; Drop::drop is checked as an inherent method with the same body',
            'Location, Word, Text, HereDoc, Field, XTrace, expansion errors, CString, NulError, ParseIntError are opaque placeholders; EnumSet<T> is a ghost set of flags with assumed contracts for empty / | / into / contains; Mode, the option set (one option) and file status (one bit) are reduced models; Errno::EBADF = 9, EEXIST = 17, ENOENT = 2',
            'unit builtincall: RAII of RedirGuard, the context guard and the frame guard assumed in the contracts of their constructors; perform_assignments, resolve_builtin, the error handler, print_error and the built-in itself are opaque calls recording what was in place; Either::Left(&mut *env) / Either::Right(env.push_context(..)) are checked as two constructors of one guard type and the match that dereferences them as taking the reference the guard holds; the INTERRUPTIBLE run of a built-in (select between the built-in and SIGINT, signals caught meanwhile) is one opaque helper and NOT under contract; the labeled block with a value is checked in its else-nesting form (rule labeled-block-value-to-else); `r#type` renamed; precondition: at least the command name among the fields; await points dropped',
            "unit absenttarget: the async closure handed to Config::foreground().start_and_wait(..) is checked as a nested function (rule closure-to-nested-fn: parameters = the closure's parameters plus the captured variables redirs_2 and exit_status; its `return` is the closure's) and the start is an opaque call recording what the child was given; RAII of RedirGuard assumed; perform_redirs / perform_assignments / the error handler / apply_result / handle_job_status / print_error opaque, recording what was in place and the status of the last command substitution they saw; slice::first, the iterator over the redirections and the location of the first redirection through helpers; await points dropped",
            'unit dotscript: find_and_open_file (the $PATH walk) is an opaque call answering a newly opened descriptor (open_file = open close-on-exec + move_fd_internal, the latter verified in unit redir); the construction of the parser configuration and the call of the read-eval loop taken from env.any are one opaque helper recording the descriptor, the frames and the open set; RAII of the frame guard assumed; the descriptor table is a ghost set; await points dropped',
        ],
    },
    'C13': {
        'v_units': ['waitsub', 'pipelinerun', 'startwait', 'cmdsubst', 'subshellstart', 'asynclist', 'jobstatus', 'waitcore'],
        'k_units': ['waitstatus'],
        'level': 'other',
        'explanation': (
            'Two object-level kernels of C13, no schedules. (1) Verus (unit waitsub, unbounded) on the real Env::wait_for_subshell, '
            'wait_for_subshell_to_halt, wait_for_subshell_to_finish and update_all_subshell_statuses (yash-env/src/lib.rs), against a ghost '
            'monitor of the four opaque calls they make: the internal SIGCHLD disposition is asked for BEFORE the first wait() and nothing is '
            'waited for without it (no SIGCHLD can slip between a wait() that found nothing and the sleep); the shell sleeps only for SIGCHLD '
            'and only right after a wait() that found nothing; every status the system reports is handed to the job table at once and '
            'unchanged, none is dropped; what is returned is what the system reported for the awaited child in the last wait(); only a halted '
            '(resp. not merely stopped) child ends the waiting, and the exit status is the one its result stands for: the real conversions '
            'From<ProcessResult> for ExitStatus and TryFrom<ProcessState> for ExitStatus (yash-env/src/job.rs) are verified too - an exited child '
            'stands for its own status, a stopped or killed one for the status of the signal, a running one for none. (2) Kani runs the real job_status closure of the wait built-in '
            '(yash-builtin/src/wait/status.rs) - the step that turns the state of a child recorded in the job table into what `wait` '
            'answers - on job tables holding one job (process state, ownership, job-control flags all symbolic; signals 1..64) or none: an '
            'exited child yields its exit status, a signalled child 384 + the signal number, a stopped child is reported only under job '
            'control and stays in the table, a running child is waited for, a job that is not the shell\'s own or an unknown index yields 127; '
            'a finished child is removed from the table by the very call that reports it and asking again yields 127 (reaped exactly once at '
            'the table level). NOT decided: everything C13 says about schedules - that the shell terminates without deadlock under every '
            'interleaving, that the table is updated from the true wait status of the right child (wait_for_subshell, '
            'update_all_subshell_statuses, the SIGCHLD handling), zombies, $!, the pipefail rule (four lines inside the async pipeline '
            'executor), `wait` without operands. The family of technique is silent on interleavings; this check sees none of them.'
            ' Unit pipelinerun (Verus, pipeline.rs execute_commands_in_pipeline, execute_job_controlled_pipeline, execute_multi_command_pipeline, shift_or_fail, pid_or_fail, connect_pipe_and_execute_command) against a monitor of the opaque pipe-set / start / wait calls: an empty pipeline has status 0; a one-command pipeline is exactly that command run in this shell, its result handed on, no second errexit; for two or more commands no command runs in this shell: without job control one child is started per command, in order, each right after the pipe set was shifted for it and with the pipe set as just shifted (a next pipe iff it is not the last command), the parent shifts once more (closing its last pipe end) BEFORE it waits, every child started is awaited exactly once, in order (the process IDs are pairwise distinct and each is still unreaped when awaited, so the `expect` cannot fail), none is left unreaped, and `$?` is the status of the last command or, under pipefail, of the rightmost one that failed (0 if none); with job control exactly one child is started for exactly these commands, its awaited result is interpreted once and `$?` is the status it stands for; in both cases errexit is consulted exactly once, at the very end, with that status, and its answer is the result; a failing pipe / start gives an interrupt with status 126 (NOEXEC). In a child, connect_pipe_and_execute_command connects the pipes first and runs the command once, only if that worked.'
            ' Unit startwait (Verus, yash-env/src/subshell/config.rs Config::start_and_wait - the way every synchronously awaited child is awaited): exactly one child is started; every halt awaited is one of exactly that child; the answer is that child with the LAST halt reported, a mere stop only when the child is job-controlled, and every earlier report was a stop of a child without job control, which goes on being awaited (a child without job control that is stopped and continued later is awaited until it really ends - its true exit status is what `$?` gets).'
            ' Unit cmdsubst (Verus, yash-semantics/src/expansion/initial/command_subst.rs subshell_body + expand_common) over a model of the descriptor table: in the child, when the command text is run (at most once) its standard output IS the writing end of the pipe and the child holds no other descriptor of either end, nothing else changed (a failing dup2 is reported once and the text does not run); in the parent, whatever happens, afterwards neither end of the pipe is held and nothing else changed - also when the child could not be started, in which case nothing is read and nobody awaited; otherwise the output is read exactly once, from the reading end, at a moment when the parent holds NO descriptor of the writing end (so that end-of-file can come); then the child is awaited until a halt that is not a mere stop, every halt awaited being one of that child, and the status recorded for the substitution is the status that last halt stands for. NOT under contract: the tail of expand_common (UTF-8 decoding, removal of the trailing newlines, conversion to attributed characters), which is one opaque helper call here.'
            " Unit subshellstart (Verus, yash-env/src/subshell/config.rs Config::start - the common start-up code of every subshell kind): the job control granted is what the configuration asks for if the shell controls jobs at all; in the PARENT nothing but one fork happens, bracketed - iff the child is to ignore SIGINT / SIGQUIT, i.e. the configuration says so and the child is not job-controlled - by blocking the two signals and restoring exactly the saved mask on EVERY path after a successful block, including a failed fork (the parent's signal mask, stack and options are as before); the CHILD body, checked on a copy of the parent's environment (what fork gives it), does only process-group business (setpgid / tcsetpgrp, and only under job control), then disowns the jobs, calls TrapSet::enter_subshell exactly once with (ignore = asked for and not job-controlled, keep stopper dispositions = not job-controlled) BEFORE the task, runs the task exactly once in a Subshell frame on top of the parent's stack, with the parent's options unchanged and the job control granted, and then exits - it never returns into the parent's code."
            " Unit asynclist (Verus, yash-semantics/src/command/item.rs Item::execute, execute_async, async_body, nullify_stdin): a synchronous item is exactly its and-or list, run in this shell, once; for `cmd &` exactly one child is started for exactly this and-or list, with background job control asked for and SIGINT / SIGQUIT ignored in it, the list does not run in this shell and the child is not awaited; if it was started, one job with its process ID enters the job table (owned, running, not yet reported; job-controlled iff job control was granted), `$!` becomes that process ID and `$?` is 0; if not, no job, `$!` untouched, an interrupt with status 126. In the child the list runs exactly once, its result is applied and the EXIT trap runs once, in this order; under job control standard input is left alone; nullify_stdin makes standard input /dev/null and changes nothing else (its assert_eq! is discharged from POSIX's lowest-free-descriptor rule)."
            ' Unit jobstatus (Verus, yash-env/src/job.rs handle_job_status and the two conversions it uses, From<ProcessResult> for ExitStatus / ProcessState): the status handed on for a synchronously awaited child is the status its result stands for (its own when it exited, the one standing for the signal when it was killed or stopped); a child that was STOPPED - and no other - enters the job table as a job-controlled, owned job with exactly its process ID and the halted state; the shell is interrupted (with that status) exactly when it is interactive and the child was stopped, or was killed by SIGINT while SIGINT has its default action.'
            " Unit waitcore (Verus, yash-builtin/src/wait/core.rs wait_for_any_job_or_trap): the internal SIGCHLD disposition is asked for before the first wait() and without it nothing is waited for; a status reported by wait() is forwarded to the job table unchanged and ends the step; while waiting, every signal the system reports is offered to the trap runner exactly once, in the order reported, and the first one whose trap ran ends the waiting with exactly that signal and the trap's result (nothing happens after it); a SIGINT with its default action ends the waiting right after the sleep that reported it. Command::await_jobs (wait.rs) waits for each operand that designates a job, in order, once; an operand that designates no job counts as status 127; the answer is the status of the LAST operand; without operands all jobs are waited for, once."),
        'trusted_base': ['Verus 0.2026.09.13 + Z3', 'Kani 0.68.0 + CBMC 6.11', '/verif/tools/vextract.py, /verif/tools/kunit.py'],
        'assumptions': [
            'unit waitsub: enabling the SIGCHLD disposition, System::wait, JobList::update_status and wait_for_signal are opaque calls that update a ghost monitor in the reduced Env (rewrite rule tokens-to-helper for the three field-method calls); From<signal::Number> for ExitStatus (number + 0x180) is uninterpreted; the spec functions of the From / TryFrom spec traits of vstd are declared by hand and the real bodies are proved to obey them; await points dropped; termination not claimed; WHEN children change state is not modelled',
            'std HashMap of the job table is replaced by the linear stand-in of the Kani pipeline (cfg verif_map)',
            'tables of at most one job; the status test is applied twice; signals restricted to 1..64',
            'unit pipelinerun: PipeSet is a ghost view (number of shifts, has-next flag of the last shift; the real shift / move_to_stdin_stdout are verified in unit pipeset); Config::new().start(..) / Config::foreground().start_and_wait(..) with their async closures are opaque calls (what the child-side closures do after connect_pipe_and_execute_command - apply_result, run_exit_trap - is NOT under contract here); start answers a process ID that is not among the unreaped ones and no job control; wait_for_subshell_to_finish answers Ok(target, status) for an unreaped child of ours (unit waitsub has the real function); handle_job_status, apply_errexit, controls_jobs, OptionSet::get(PipeFail), print_error opaque; `commands.iter().cloned()` is an assumed model of the slice iterator; `for pid in pids` takes the first element off on every round; debug_assert_eq!(job_control, None) is an obligation; preconditions: a fresh monitor; await points dropped; what happens to children already started when a later pipe / start fails is not constrained',
            'unit startwait: Config::start (fork + the child-side closure), Env::wait_for_subshell_to_halt (the real one is in unit waitsub), ProcessResult::is_stopped and tcsetpgrp_with_block are opaque calls driving a ghost monitor; the AsyncFnOnce bound of the task parameter is dropped from the signature (rule sig-tokens); `let result = loop { .. break result; }` is checked as a deferred initialisation plus a plain break (rule loop-break-value: Verus has no break with a value); a second annotation set judges a loop-free body as it stands; await points dropped; termination of the waiting loop not claimed',
            'unit cmdsubst: the system traits Close / Dup / ReadAll are one synchronous model trait over a ghost descriptor table (fd -> open file description) plus a log of read_all_to calls with the table at that moment; precondition: the two descriptors are a fresh pipe (distinct, open, the only descriptors of their descriptions); Env::wait_for_subshell_to_halt, Error::handle, the lexer constructor, read_eval_loop, ExitStatus::from(ProcessResult) are opaque; the decoding / newline-stripping tail of expand_common is replaced by one opaque helper (rule tokens-to-helper) and is NOT verified; `let x = loop { .. break v }` by rule loop-break-value; debug_assert_eq!(job_control, None) is an obligation; await points dropped; termination of the waiting loop not claimed',
            "unit subshellstart: the closure handed to Env::run_in_child_process is checked INLINE as a block working on verif_child_copy(env) (assumed: fork gives the child a copy of Env) and the fork is an opaque call that is told the child's event log, so the textual order parent-before / child / parent-after is not an execution order; push_frame's guard is taken to live until the child exits; bool::then_some + Option::flatten through a helper with the std meaning; the system calls (block_sigint_sigquit, restore_sigmask, setpgid, getpgrp, tcsetpgrp_with_block), get_tty, enter_subshell, disown_all, the task, exit_or_raise, OptionSet::set / get are opaque calls appending to an event log; the AsyncFnOnce bound is dropped from the signature; the nested `const ME` is lifted to module level; precondition: SIGINT / SIGQUIT are not already blocked by this mechanism; await points dropped",
            'unit asynclist: Config::new is the derived Default (assumed: no job control, nothing ignored); config.start(..) with its async closure is an opaque call recording the configuration and the and-or list (unit subshellstart has the real start); JobList::insert / set_last_async_pid, AndOrList::execute / to_string, apply_result, run_exit_trap, print_error, is_interactive opaque; the descriptor table is a model trait (close; open answers the lowest free descriptor); the C-string literal is a helper call (Verus has none); that standard input IS /dev/null without job control is proved for nullify_stdin but only stated for the job-control case in async_body (a failing nullify is ignored by the code); await points dropped',
            'unit jobstatus: JobList::insert is an opaque call logging the job (unit joblist has the real one); is_interactive / sigint_has_default_action are ghost-backed; From<signal::Number> for ExitStatus uninterpreted; the job-name closure is an FnOnce value whose call has no precondition (a requires of the function)',
            "unit waitcore: enabling the SIGCHLD disposition, the system's wait(), wait_for_signals, JobList::update_status and the trap runner taken from env.any are opaque calls appending to an event log; `for signal in signals.iter().cloned()` takes the first element off a copy of the list on every round; Errno::ECHILD is a model constant; the #[from] conversion of thiserror is written out; await points dropped; termination not claimed",
        ],
    },
    'C17': {
        'v_units': ['aliaselig', 'pipelineparse'],
        'k_units': [],
        'level': 'other',
        'explanation': (
            'Eligibility kernel only. Verus proves on the real Parser::substitute_alias (yash-syntax/src/parser/core.rs, its six-fold '
            'let-chain checked as nested ifs) that a token is replaced by an alias EXACTLY when it is a word token (not an operator, IO '
            'number or end of input) that is an unquoted literal, whose text names an alias in the glossary, that did not itself come out '
            'of the replacement text of an alias of that name, and that is in command position or names a global alias or follows an alias '
            'value ending with a blank; that the substitution is requested for that alias at the position of that token, once; and that every '
            'other token is handed back unchanged with the input untouched. Source::is_alias_for (yash-env/src/source.rs), the recursion '
            'guard, is proved equal to "the name is among the aliases in the chain of origins of this code" for chains of every depth '
            '(structural recursion through Rc). LexerCore::is_after_blank_ending_alias, the third alternative of the eligibility test, is '
            'proved (loop invariant over the line buffer) to answer exactly: going back from the token over blanks and line continuations '
            'only, one reaches the last character of the replacement text of an alias whose value ends with a blank (the character after it '
            'no longer comes from that alias). NOT decided: termination and the resulting token sequence (they need the in-place splice of '
            'LexerCore::substitute_alias - that the replacement text carries the alias in its origin chain - and the Rec::AliasSubstituted '
            'restart protocol of the async parser), recognition of reserved words and operators in replacement text, the alias / unalias '
            'built-ins.'
            ' Unit pipelineparse (Verus, yash-syntax/src/parser/pipeline.rs Parser::pipeline) against a monitor of what the parser consumed: when the first command position is an alias substitution, or holds no command and no `!`, the call returns WITHOUT having consumed anything (the caller parses the replacement text from its start); the pipeline handed out is negated exactly when this call consumed a `!` token, its commands are exactly the commands parsed, in order, a `|` was consumed between every two of them and nothing else was consumed; after a `!` or a `|` an alias substitution makes the command be parsed again in place, so what was consumed is not forgotten.'),
        'trusted_base': ['Verus 0.2026.09.13 + Z3', '/verif/tools/vextract.py'],
        'assumptions': [
            'the glossary is a ghost map name -> alias behind a model trait (look_up answers the map; is_empty implies an empty map); `&dyn Glossary` is checked as a generic parameter (impl header replaced)',
            'Word::to_string_if_literal and Lexer::substitute_alias are external_body: the first answers an uninterpreted view, the second is recorded in a ghost log; LexerCore is reduced to its line buffer; is_blank and "the text ends with a blank" are uninterpreted predicates on characters / strings; Option::is_some_and has an assumed contract; `for i in (0..n).rev()` is checked as a while loop counting down; `ref` binding on a dereferenced Rc is checked as a pattern on the reference',
            'Location / Code / Source are reduced models (Source: the Alias variant and one variant for every other origin); String == &str compares the characters (helper verif_name_eq)',
            'the let-chain of substitute_alias is checked as nested ifs (rewrite rule let-chain-nest)',
            'unit pipelineparse: the parser is reduced to a monitor of consumed tokens / parsed commands: command(), peek_token, take_token_raw (the token peeked is the token taken next; token indexes below usize::MAX), newline_and_here_doc_contents and mode are opaque; Keyword / Operator reduced to the members named here; two `let x = loop { .. break v; .. }` by rule loop-break-value with their invariants in the replacement text; a second annotation set judges a body that looks for the `!` before parsing the first command; preconditions: a fresh monitor; await points dropped; termination not claimed',
        ],
    },
    'C18': {
        'v_units': ['lineread', 'replloop'],
        'k_units': ['readchar'],
        'level': 'other',
        'explanation': (
            'Kernel only: the reader through which the shell takes its own input from a descriptor (yash-env/src/input/fd_reader_2.rs '
            'FdReader2::next_line, the mechanism "byte-at-a-time reader stopping at newline"), against an ASSUMED synchronous model of read(2) '
            'in which consumed(fd) is everything the system has handed out from the descriptor (what no other reader of the same input will '
            'see again). Verus proves, for input of every length and however the underlying reads behave: every read asks for exactly one '
            'byte (the run-time assertion count == 1 cannot fail); what next_line takes from the descriptor is exactly the bytes of the line it '
            'returns, a run without a newline optionally ended by ONE newline - nothing after the first newline is consumed, on success and on '
            'a read error alike, so whatever follows the current line stays available to commands reading the same input; a line is returned '
            'without a newline only at the end of input; no other descriptor is read. Chunking cannot matter at this level because no read '
            'can return more than the one byte asked for. Kani (bounded) runs the real read_char of the read built-in '
            '(yash-builtin/src/read/input.rs) on a scripted descriptor holding any byte string of <= 4 bytes before end of input, with every '
            'read served by a symbolic number of bytes between 1 and what was asked for: the character returned is the decoding of the '
            'shortest prefix that is a complete UTF-8 character whatever the chunking, exactly that prefix has been consumed (what follows stays '
            'in the input), a truncated or invalid sequence is an error. Unit replloop (Verus) puts the read-eval loop itself (runner.rs '
            'read_eval_loop_impl and its two entry points) under contract against a monitor automaton of its opaque calls: reading + parsing a command '
            'line and running a command alternate strictly - a line is parsed only when the previous command (or parser error) is over and lets the '
            'shell go on, a command runs exactly once, right after it was parsed -, every line is parsed in the mode the CURRENT options give, the '
            'loop ends at the end of input or at the first divert, handed on unchanged, and with status 0 when nothing but the end of input was read. '
            'NOT decided: that the lexer asks the input for a new line only when its buffer is exhausted (inside the opaque parse call), other readers of the same '
            'descriptor across processes, the echo/prompt decorators, the text conversion (lossy UTF-8, assumed).'),
        'trusted_base': ['Verus 0.2026.09.13 + Z3', 'Kani 0.68.0 + CBMC 6.11', '/verif/tools/vextract.py, /verif/tools/kunit.py'],
        'assumptions': [
            'model trait Read (synchronous, &mut self, ghost streams consumed / at_eof per descriptor): read fills a beginning of the buffer, never more than its length, 0 at end of input, nothing on error; await points dropped',
            'assumed contract of core::slice::from_mut (a one-element slice over the place); String::from_utf8(..).unwrap_or_else(lossy) is a helper with an uninterpreted result (lossy_text)',
            'Input::next_line of FdReader2 is checked as an inherent method with the same body (impl header replaced); Context and std::io::Error are placeholders',
            'unit replloop: reading + parsing one command line (the Parser::config() chain), run_command and the handler of parser errors are opaque calls driving a ghost monitor; the lexer is reduced to ghost data (the option generation its mode was set from, whether its buffer was thrown away since the last parse); the RefCell<&mut Env> parameter is checked as &mut Env (borrow() / borrow_mut() are the reference itself; rule sig-tokens); preconditions: a fresh monitor; await points dropped; termination not claimed',
            'unit readchar (Kani, bounded): scripted system in the harness; one call of read_char; inputs of <= 4 bytes; core::str::from_utf8 is the oracle for a complete character',
        ],
    },
    'C10': {
        'v_units': ['errexit', 'condframe', 'assignstatus', 'simplecmd', 'errhandle', 'fullcompound', 'replloop', 'subshellcmd', 'pipelinerun', 'builtincall', 'absenttarget'],
        'k_units': ['errexit'],
        'level': 'other',
        'explanation': (
            'Kernel only: where the errexit option applies. Verus proves, for runtime stacks of EVERY depth, that '
            'Env::errexit_is_applicable (yash-env/src/lib.rs, extracted on every run) answers "the option is on and no frame of the '
            'whole stack is a Condition frame" -- the exempt contexts (conditions of if/while/until, non-final and-or elements, '
            'negated pipelines) stay exempt however deeply the failing command is nested in them, across groups, functions, traps and '
            'subshells -- that Env::apply_errexit diverts to Exit(None) exactly when the last exit status is non-zero there, and that '
            'Env::apply_result / Divert::exit_status move the exit status a divert carries into $? and nothing else. Kani runs the same '
            'two functions on real Env values (built field by field) for every stack of <= 3 frames over {Loop, Subshell, Condition, '
            'DotScript, InitFile} with the option and the status symbolic: a structure-independent sibling that still judges the function '
            'when it is rewritten with iterator adapters the Verus unit cannot take. Unit condframe (Verus) decides WHERE the exempt contexts '
            'are entered, on the real code of the three places that push Frame::Condition (async stripped; running commands is an opaque call '
            'whose stack is recorded in a ghost log): evaluate_condition (compound_command.rs) runs the condition of if / while / until with a '
            'Condition frame on top of the caller\'s stack; a negated pipeline (pipeline.rs) runs its commands with one, a plain pipeline '
            'without; AndOrList::execute (and_or.rs) runs every pipeline of the list with a Condition frame directly above the caller\'s stack '
            'EXCEPT the last one, which runs with the caller\'s own stack - exactly "every pipeline of an and-or list but the last"; and in '
            'each case the stack is as it was afterwards; the if command (compound_command/if.rs) evaluates its conditions - if and every '
            'elif alike - in exempt contexts and runs the chosen branch with the caller\'s own stack. Unit assignstatus (Verus): perform_assignments (yash-semantics/src/assign.rs) performs the '
            'assignments in order up to the first failure and returns the exit status of the LAST command substitution performed in any of them '
            '(XCU 2.9.1: `x=$(false) y=1` fails), None if there was none. Unit simplecmd: SimpleCommand::execute consults apply_errexit exactly '
            'once after every simple command whose executor did not divert, and not after a failed expansion. Unit errhandle (Verus, yash-semantics/src/handle.rs): a syntax error (and a read error in a dot script) interrupts with status 2, '
            'another read error with 128; an expansion error ends the shell (Exit, status 2) where errexit applies and interrupts with status 2 '
            'otherwise, an interrupted expansion hands on its interrupt; a redirection error only sets $? to 2 and execution continues; each error '
            'is reported exactly once. Unit fullcompound (Verus, compound_command.rs): a failed redirection of a compound command is reported once, '
            'the command does not run, and errexit is consulted once, AFTER the report, with the status the handler left - its answer is the '
            'result -, while a successful one leaves errexit to the command. Unit replloop (Verus, runner.rs): what the read-eval loop does with the '
            'diverts the handlers and commands produce - a NON-INTERACTIVE shell ends on every divert, the interrupt of a syntax or expansion error '
            'included (read_eval_loop), an INTERACTIVE one goes on after an interrupt of a command and after a SYNTAX error only (not after a read '
            'error), having taken the status the interrupt carries and thrown away the rest of the input line (interactive_read_eval_loop). '
            'NOT decided: which other commands consult '
            'apply_errexit, and the consequences-of-shell-errors table (special built-in errors, redirection errors, assignment errors, '
            'expansion errors): all of that is async interpreter code outside both tools.'
            ' Unit subshellcmd (Verus, compound_command/subshell.rs execute + subshell_main): for `( ... )` exactly one child is started and what runs in it is subshell_main on exactly this body; the awaited result of exactly that child is interpreted once (handle_job_status), `$?` becomes the status it stands for, and errexit is consulted exactly once, afterwards, with that status (a failing subshell ends the shell under errexit) - unless interpreting the result diverts (stopped child / SIGINT in an interactive shell), which is handed on without errexit; a child that cannot be started gives an interrupt with the error status and leaves `$?` alone. Inside the child the body runs once, its result is applied (apply_result), and the EXIT trap runs exactly once, after both.'
            ' Unit pipelinerun (Verus, pipeline.rs execute_commands_in_pipeline, execute_job_controlled_pipeline, execute_multi_command_pipeline, shift_or_fail, pid_or_fail, connect_pipe_and_execute_command) against a monitor of the opaque pipe-set / start / wait calls: an empty pipeline has status 0; a one-command pipeline is exactly that command run in this shell, its result handed on, no second errexit; for two or more commands no command runs in this shell: without job control one child is started per command, in order, each right after the pipe set was shifted for it and with the pipe set as just shifted (a next pipe iff it is not the last command), the parent shifts once more (closing its last pipe end) BEFORE it waits, every child started is awaited exactly once, in order (the process IDs are pairwise distinct and each is still unreaped when awaited, so the `expect` cannot fail), none is left unreaped, and `$?` is the status of the last command or, under pipefail, of the rightmost one that failed (0 if none); with job control exactly one child is started for exactly these commands, its awaited result is interpreted once and `$?` is the status it stands for; in both cases errexit is consulted exactly once, at the very end, with that status, and its answer is the result; a failing pipe / start gives an interrupt with status 126 (NOEXEC). In a child, connect_pipe_and_execute_command connects the pipes first and runs the command once, only if that worked.'
            " Unit builtincall (Verus, yash-semantics/src/command/simple_command/builtin.rs execute_builtin): the redirections of the command are performed first, once, under a RedirGuard; a failed one is reported once and nothing else happens - it interrupts the shell iff the built-in is a SPECIAL one, any other lets the shell go on; the assignments are then made once, with the redirections in effect: for a SPECIAL built-in in the caller's own contexts and not exported (they stay), for any other exported in a VOLATILE context pushed on top, which is gone afterwards; the built-in runs at most once, only after both succeeded and it turned out usable, in a Builtin frame saying whether it is special, with the redirections in effect, the contexts of the assignments and the fields after the command name; `$?` is the exit status of its result, the divert of its result is handed on, and the redirections stay in effect afterwards exactly when the result asks for that (exec); an unusable built-in is reported once, nothing runs, and the contexts, frames and redirections are the caller's again."
            " Unit absenttarget (Verus, yash-semantics/src/command/simple_command/absent.rs execute_absent_target - a simple command without a command name): its redirections are never performed in this shell - without redirections no child is started, otherwise exactly one child is started for exactly these redirections and awaited, and its result is interpreted once; in the child (the closure, checked as a nested function with the same body) they are performed once, all, under a guard, a failed one is reported once and the handler's outcome applied, otherwise the child's status is that of the last command substitution in them or the status the command started with; a child that cannot be started interrupts with status 2 and no assignment is made; otherwise the assignments are made in THIS shell, once, all of them, NOT exported, in the caller's own contexts (they stay), a failed one hands its divert on, and `$?` is the status of the last command substitution in the assignments, else what the child reported, else (no redirections) the status handed in."),
        'trusted_base': ['Verus 0.2026.09.13 + Z3', 'Kani 0.68.0 + CBMC 6.11', '/verif/tools/vextract.py, /verif/tools/kunit.py'],
        'assumptions': [
            'struct Env is reduced to the fields the functions read (exit_status, options, stack) in the Verus unit; OptionSet::get is assumed to answer On iff the option is in the set',
            'assumed contract of <[T]>::contains (membership under the specified equality); derived PartialEq of Frame and State is structural',
            'Kani: RandomState::new is stubbed with fixed keys (std asks the OS for random hash keys; no hash table is consulted by the functions under contract)',
            'unit errhandle: the error types are reduced to what the handlers inspect; printing the report is an opaque call; Env reduced to the exit status and a flag for errexit_is_applicable (unit errexit); ExitStatus::ERROR = 2, READ_ERROR = 128',
            'unit fullcompound: RedirGuard::perform_redirs, executing the compound command, the error handler, apply_errexit and the tracer are opaque calls observed by a ghost monitor; RAII of the redirection guard assumed as a whole (external_body RedirGuard::new); await points dropped',
            'unit replloop: see C18 - parse, run_command and the parser-error handler are opaque calls driving a ghost monitor; RefCell<&mut Env> checked as &mut Env',
            'unit assignstatus: performing one assignment is an opaque call recorded in a ghost log; Option::or and Option::as_deref_mut (helper) have assumed contracts; await points dropped',
            'unit condframe: RAII of the frame guard is ASSUMED as a whole in the contract of Env::push_frame (external_body: while the guard lives the frame is on top; when it goes away one frame has been popped and the rest is as the guard left it) - Verus does not model destructors; what is verified is the destructor body (pops one frame) and the identical two-line body of Stack::push; running commands (List::execute, execute_commands_in_pipeline) is an opaque call that records (what, stack, status before/after, result) in a ghost log; Env reduced to exit_status / options / stack / log; `slice.iter().peekable()` is a hand-written index model; `&mut guard` (DerefMut) is checked as `guard.env`; an explicit drop(guard) is checked as the end of the guard\'s life; `?` on ControlFlow through assumed contracts; await points dropped; the option test of noexec is an assumed two-option model',
            'unit subshellcmd: Config::foreground().start_and_wait(..) with its async closure, handle_job_status, apply_errexit / apply_result, print_error, List::execute and run_exit_trap are opaque calls that update a ghost monitor in the reduced Env (the job-name closure goes with the replaced call); await points dropped',
            'unit pipelinerun: PipeSet is a ghost view (number of shifts, has-next flag of the last shift; the real shift / move_to_stdin_stdout are verified in unit pipeset); Config::new().start(..) / Config::foreground().start_and_wait(..) with their async closures are opaque calls (what the child-side closures do after connect_pipe_and_execute_command - apply_result, run_exit_trap - is NOT under contract here); start answers a process ID that is not among the unreaped ones and no job control; wait_for_subshell_to_finish answers Ok(target, status) for an unreaped child of ours (unit waitsub has the real function); handle_job_status, apply_errexit, controls_jobs, OptionSet::get(PipeFail), print_error opaque; `commands.iter().cloned()` is an assumed model of the slice iterator; `for pid in pids` takes the first element off on every round; debug_assert_eq!(job_control, None) is an obligation; preconditions: a fresh monitor; await points dropped; what happens to children already started when a later pipe / start fails is not constrained',
            'unit builtincall: RAII of RedirGuard, the context guard and the frame guard assumed in the contracts of their constructors; perform_assignments, resolve_builtin, the error handler, print_error and the built-in itself are opaque calls recording what was in place; Either::Left(&mut *env) / Either::Right(env.push_context(..)) are checked as two constructors of one guard type and the match that dereferences them as taking the reference the guard holds; the INTERRUPTIBLE run of a built-in (select between the built-in and SIGINT, signals caught meanwhile) is one opaque helper and NOT under contract; the labeled block with a value is checked in its else-nesting form (rule labeled-block-value-to-else); `r#type` renamed; precondition: at least the command name among the fields; await points dropped',
            "unit absenttarget: the async closure handed to Config::foreground().start_and_wait(..) is checked as a nested function (rule closure-to-nested-fn: parameters = the closure's parameters plus the captured variables redirs_2 and exit_status; its `return` is the closure's) and the start is an opaque call recording what the child was given; RAII of RedirGuard assumed; perform_redirs / perform_assignments / the error handler / apply_result / handle_job_status / print_error opaque, recording what was in place and the status of the last command substitution they saw; slice::first, the iterator over the redirections and the location of the first redirection through helpers; await points dropped",
        ],
    },
}
