//! Kani harnesses for the bespoke option parser of the `set` built-in (yash-builtin/src/set/syntax.rs parse,
//! try_parse_short), injected as a child module of that file.  Kernel of property C20 for a built-in that does not use the
//! generic parser: grouped short options mean the same as separate ones, `+x` clusters switch off, `--` / `-` end option
//! parsing, and a malformed cluster (a sign character where an option letter must stand) is rejected, not taken for an operand.
//! Bounded stand-in: concrete argument vectors, literal expectations; equivalent spellings carry the same expectation.
#![allow(dead_code, unused_imports)]
use super::*;
use yash_env::option::Option::{AllExport, ErrExit};
use yash_env::option::State::{Off, On};

fn fixed_random_state() -> std::hash::RandomState {
    unsafe { std::mem::transmute::<(u64, u64), std::hash::RandomState>((0, 0)) }
}
fn options_are(args: &[&'static str], want: &[(yash_env::option::Option, State)], operands: std::option::Option<usize>) {
    let r = parse(Field::dummies(args.iter().copied()), Off);
    match r {
        Ok(Command::Modify { options, positional_params }) => {
            assert!(options.len() == want.len(), "every option of the invocation, once");
            let mut i = 0;
            while i < want.len() {
                assert!(options[i] == want[i], "the options in order, switched on by - and off by +");
                i += 1;
            }
            match (operands, &positional_params) {
                (None, None) => (),
                (Some(n), Some(p)) => assert!(p.len() == n, "the operands after the options"),
                _ => panic!("operands present iff the invocation has them"),
            }
            std::mem::forget(options);
            std::mem::forget(positional_params);
        }
        _ => panic!("a well-formed invocation is accepted"),
    }
}
fn rejected_unknown(args: &[&'static str], c: char) {
    match parse(Field::dummies(args.iter().copied()), Off) {
        Err(Error::UnknownShortOption(x, field)) => {
            assert!(x == c, "the offending character is reported");
            std::mem::forget(field);
        }
        other => {
            std::mem::forget(other);
            panic!("a sign character inside a cluster is not an option: the invocation is rejected");
        }
    }
}

#[kani::proof] #[kani::unwind(12)]
fn c20sq_grouped_equals_separate() {
    options_are(&["-ea"], &[(ErrExit, On), (AllExport, On)], None);
    options_are(&["-e", "-a"], &[(ErrExit, On), (AllExport, On)], None);
}
#[kani::proof] #[kani::unwind(12)]
fn c20sq_plus_switches_off_and_separator() {
    options_are(&["+e", "-a", "--", "-e"], &[(ErrExit, Off), (AllExport, On)], Some(1));
    options_are(&["-e", "-", "x"], &[(ErrExit, On)], Some(1));
}
#[kani::proof] #[kani::unwind(12)]
fn c20sq_sign_inside_cluster_rejected() {
    rejected_unknown(&["-+e"], '+');
    rejected_unknown(&["+-e"], '-');
    rejected_unknown(&["-e+"], '+');
}
#[kani::proof] #[kani::unwind(12)]
fn c20sx_control() {
    options_are(&["-ea"], &[(ErrExit, On)], None);
}
