#!/bin/sh
# usage: tryv.sh <diff> <unit> [<unit> ...]  -- run Verus units against a scratch worktree of /repo with the diff applied (/repo untouched)
D=$1; shift
WT=/tmp/wt_tryv
[ -d $WT ] || git -C /repo worktree add -f $WT HEAD -q
git -C $WT checkout -q -- . ; git -C $WT clean -fdq
git -C $WT apply "$D" || { echo "patch does not apply"; exit 3; }
for u in "$@"; do
  VERIF_REPO=$WT VERIF_WORK_V=/tmp/wt_tryv_work python3 /verif/tools/vunit.py $u 2>&1 | grep -E "^status|^UNDECIDED|error:|failed this|^\s+-->|postcondition|invariant|precondition" | head -20
done
git -C $WT checkout -q -- .
