"""Replace the seed table of DESIGN.md section 9 by the output of tools/seedtable.py."""
import os, subprocess, sys
VERIF = os.path.dirname(os.path.dirname(os.path.abspath(__file__)))
p = os.path.join(VERIF, 'DESIGN.md')
s = open(p).read()
a = s.index('| seeded change | property |')
b = s.index('History of this table')
tbl = subprocess.run([sys.executable, os.path.join(VERIF, 'tools', 'seedtable.py')], capture_output=True, text=True).stdout
open(p, 'w').write(s[:a] + tbl + '\n' + s[b:])
print('rows', tbl.count('\n') - 2)
