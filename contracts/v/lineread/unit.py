# Unit lineread: the byte-at-a-time line reader (kernel of property C18).
FR = 'yash-env/src/input/fd_reader_2.rs'
MOD_HEAD = '''    use vstd::prelude::*;
    use std::slice::from_mut;
'''
UNIT = {
    'name': 'lineread',
    'property': 'C18',
    'rlimit': 60,
    'verus_args': ['--edition=2024'],
    'crate_attrs': ['#![feature(panic_internals)]'],
    'vacuity_floor': 1,
    'items': [
        ('@raw', 'pub mod lr {\n' + MOD_HEAD),
        ('yash-env/src/system/errno.rs', ['type RawErrno']),
        ('yash-env/src/system/errno.rs', ['struct Errno']),
        ('yash-env/src/io.rs', ['struct Fd']),
        ('@file', 'prelude.rs'),
        ('@file', 'prelude_assert.rs'),
        (FR, ['struct FdReader2'], {'pub_fields': True, 'drop_derives': 'all'}),
        (FR, ['impl<S: Read> Input for FdReader2<S>', 'fn next_line'], {'ret': 'r', 'rewrites': ['strip-async'],
            'wrapper': 'impl<S: Read> FdReader2<S>',
            'attrs': ['#[verifier::exec_allows_no_decreases_clause]'],
            'token_rewrites': [('String :: from_utf8 ( bytes ) . unwrap_or_else ( | e | String :: from_utf8_lossy ( & e . into_bytes ( ) ) . into ( ) )', 'verif_bytes_to_string(bytes)')],
            'ensures': [
                # "reads its input one line at a time and only as far as [needed]": what was taken from the descriptor is exactly
                # the line handed to the parser, and it ends at the first newline -- whatever follows stays in the input
                'r matches Ok(line) ==> exists|bytes: Seq<u8>| #[trigger] one_line(bytes) && final(self).system.consumed(old(self).fd) == old(self).system.consumed(old(self).fd) + bytes && line@ == lossy_text(bytes) && (bytes.len() > 0 && bytes.last() == 10u8 || final(self).system.at_eof(old(self).fd))',
                # even when reading fails, nothing beyond a first newline has been taken
                'exists|bytes: Seq<u8>| #[trigger] one_line(bytes) && final(self).system.consumed(old(self).fd) == old(self).system.consumed(old(self).fd) + bytes',
                # no other descriptor is read, and the reader keeps its descriptor
                'forall|other: Fd| other != old(self).fd ==> final(self).system.consumed(other) == old(self).system.consumed(other)',
                'final(self).fd == old(self).fd',
            ],
            'loops': {0: {
                'body_start': 'assert(one_line(bytes@));',
                'invariant_except_break': ['forall|i: int| 0 <= i < bytes@.len() ==> bytes@[i] != 10u8'],
                'invariant': [
                    'self.fd == old(self).fd',
                    'self.system.consumed(self.fd) == old(self).system.consumed(self.fd) + bytes@',
                    'forall|other: Fd| other != self.fd ==> self.system.consumed(other) == old(self).system.consumed(other)',
                ],
                'ensures': [
                    'self.fd == old(self).fd',
                    'one_line(bytes@)',
                    'self.system.consumed(self.fd) == old(self).system.consumed(self.fd) + bytes@',
                    'bytes@.len() > 0 && bytes@.last() == 10u8 || self.system.at_eof(self.fd)',
                    'forall|other: Fd| other != self.fd ==> self.system.consumed(other) == old(self).system.consumed(other)',
                ]}},
            }),
        ('@raw', '}\n'),
    ],
}
