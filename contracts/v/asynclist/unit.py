# Unit asynclist: an item of a command list, in particular `cmd &` (kernel shared by C13, C12, C08 and C02).
IT = 'yash-semantics/src/command/item.rs'
JOB = 'yash-env/src/job.rs'
SEM = 'yash-env/src/semantics.rs'
MOD_HEAD = '''    use vstd::prelude::*;
    use std::ops::ControlFlow::{self, Break, Continue};
    use std::ffi::c_int;
    use std::rc::Rc;
'''
M0 = 'old(env).mon@'
M1 = 'final(env).mon@'
E0 = M0 + '.events.len() as int'
UNIT = {
    'name': 'asynclist',
    'property': 'C13',
    'rlimit': 80,
    'controls': 'auto',
    'crate_attrs': ['#![feature(panic_internals)]'],
    'verus_args': ['--edition=2024'],
    'vacuity_floor': 3,
    'items': [
        ('@raw', 'pub mod semantics { pub type Result<T = ()> = std::ops::ControlFlow<crate::al::Divert, T>; }\n'),
        ('@raw', 'pub mod al {\n' + MOD_HEAD + '    pub use crate::semantics::Result;\n'),
        ('@raw', 'pub type RawFd = i32;\npub type RawErrno = i32;\n'),
        ('yash-env/src/system/errno.rs', ['struct Errno']),
        ('yash-env/src/io.rs', ['struct Fd']),
        ('yash-env/src/io.rs', ['impl Fd']),
        (JOB, ['type RawPid']),
        (JOB, ['struct Pid']),
        ('@raw', 'pub mod signal {\n    use vstd::prelude::*;\n    use std::num::NonZero;\n    use std::ffi::c_int;\n'),
        ('yash-env/src/signal.rs', ['type RawNumber']),
        ('yash-env/src/signal.rs', ['struct Number']),
        ('@raw', '}\n'),
        (SEM, ['struct ExitStatus']),
        (SEM, ['impl ExitStatus#1', 'const SUCCESS']),
        (SEM, ['impl ExitStatus#1', 'const NOEXEC']),
        (SEM, ['enum Divert']),
        (JOB, ['enum ProcessResult']),
        (JOB, ['enum ProcessState']),
        (JOB, ['struct Job']),
        (JOB, ['impl Job', 'fn new'], {'ret': 'j', 'ensures': ['j.pid == pid', '!j.job_controlled', 'j.state is Running', 'j.state_changed', 'j.is_owned']}),
        ('yash-env/src/subshell.rs', ['enum JobControl']),
        ('yash-env/src/subshell/config.rs', ['struct Config']),
        ('@file', 'prelude.rs'),
        (IT, ['fn nullify_stdin'], {'ret': 'r', 'rewrites': ['strip-async'],
            'token_rewrites': [('c"/dev/null"', 'verif_dev_null_path()')],
            'ensures': [
                # on success standard input is /dev/null and nothing else changed (the assert_eq! is an obligation: the descriptor
                # just closed is the lowest free one)
                'r is Ok ==> stdin_is_null(final(env).system.table()) && (forall|g: Fd| g != Fd::STDIN ==> (final(env).system.table().contains_key(g) == old(env).system.table().contains_key(g) && (final(env).system.table().contains_key(g) ==> #[trigger] final(env).system.table()[g] == old(env).system.table()[g])))',
                'final(env).mon@ == old(env).mon@',
            ],
            # all descriptors below 0 do not exist: Fd wraps a non-negative number for every open descriptor
            'requires': ['forall|g: Fd| old(env).system.table().contains_key(g) ==> g.0 >= 0'],
            }),
        (IT, ['fn async_body'], {'rewrites': ['strip-async'],
            'requires': ['forall|g: Fd| old(env).system.table().contains_key(g) ==> g.0 >= 0'],
            'ensures': [
                # in the child: the and-or list runs exactly once, its result is applied, the EXIT trap runs once - in this order
                M1 + '.events.len() == ' + E0 + ' + 3', M1 + '.events.subrange(0, ' + E0 + ') =~= ' + M0 + '.events',
                '(' + M1 + '.events[' + E0 + '] matches Ev::Ran { id, result, stdin_null } && id == and_or.verif_id && ' + M1 + '.events[' + E0 + ' + 1] == Ev::Applied { result }'
                # ... and without job control its standard input is /dev/null unless that could not be arranged (XCU 2.9.3.1);
                # under job control standard input is left alone
                ' && (job_control is Some ==> stdin_null == stdin_is_null(old(env).system.table())))',
                M1 + '.events[' + E0 + ' + 2] is ExitTrap',
            ]}),
        (IT, ['fn execute_async'], {'ret': 'r', 'rewrites': ['strip-async'],
            'token_rewrites': [
                ('config . start ( env , async move | env_2 , job_control | { async_body ( env_2 , job_control , & and_or_2 ) . await } )', 'verif_start(config, env, and_or_2)'),
                ('debug_assert_eq ! ( job_control , JobControl :: Background ) ;', 'assert(job_control == JobControl::Background);'),
                ('env . jobs . insert ( job )', 'verif_jobs_insert(env, job)', '*'),
                ('env . jobs . set_last_async_pid ( pid )', 'verif_set_last_async_pid(env, pid)', '*'),
                ('let report = format ! ( "[{job_number}] {pid}\\n" ) ; env . system . print_error ( & report )', 'verif_report_job(env, job_number, pid)'),
                ('print_error ( env , "cannot start a subshell to run an asynchronous command" . into ( ) , errno . to_string ( ) . into ( ) , async_flag , )', 'verif_print_error(env, &errno, async_flag)'),
            ],
            'ensures': [
                # exactly one child, for exactly this and-or list, with background job control asked for and SIGINT / SIGQUIT
                # ignored in it; the list does not run in this shell
                M1 + '.started.len() == ' + M0 + '.started.len() + 1', M1 + '.started.last().1 == and_or.verif_id',
                M1 + '.started.last().0.job_control == Some(JobControl::Background)', M1 + '.started.last().0.ignores_sigint_sigquit',
                M1 + '.ran_here == ' + M0 + '.ran_here',
                # started: one job with its process ID enters the table, owned, running, not yet reported; `$!` is that process
                # ID; `$?` is 0
                'r is Continue ==> ' + M1 + '.jobs_inserted.len() == ' + M0 + '.jobs_inserted.len() + 1 && ' + M1 + '.last_async_pid == Some(' + M1 + '.jobs_inserted.last().pid)'
                ' && ' + M1 + '.jobs_inserted.last().is_owned && ' + M1 + '.jobs_inserted.last().state is Running && !' + M1 + '.jobs_inserted.last().state_changed && final(env).exit_status == ExitStatus(0)',
                # not started: nothing of that, and an interrupt with status 126
                'r is Break ==> ' + M1 + '.jobs_inserted == ' + M0 + '.jobs_inserted && ' + M1 + '.last_async_pid == ' + M0 + '.last_async_pid && r == ControlFlow::<Divert, ()>::Break(Divert::Interrupt(Some(ExitStatus::NOEXEC))) && final(env).exit_status == old(env).exit_status',
            ]}),
        (IT, ["impl<S: Runtime + 'static> Command<S> for syntax::Item", 'fn execute'], {'ret': 'r', 'rewrites': ['strip-async'],
            'ensures': [
                # a synchronous item is exactly its and-or list, run here, once; an asynchronous one runs nothing here
                'self.async_flag is None ==> ' + M1 + '.ran_here == ' + M0 + '.ran_here.push((self.and_or.verif_id, r)) && ' + M1 + '.started == ' + M0 + '.started',
                'self.async_flag is Some ==> ' + M1 + '.ran_here == ' + M0 + '.ran_here && ' + M1 + '.started.len() == ' + M0 + '.started.len() + 1 && ' + M1 + '.started.last().1 == self.and_or.verif_id',
            ]}),
        ('@raw', '}\n'),
    ],
}
