# Unit pipeset: descriptors of a multi-command pipeline in the parent shell and their wiring in the children
# (property C08, "open files" clause).
PL = 'yash-semantics/src/command/pipeline.rs'
MOD_HEAD = '''    use vstd::prelude::*;
'''
MUT = {'mut_params': []}
UNIT = {
    'name': 'pipeset',
    'property': 'C08',
    'rlimit': 60,
    'verus_args': ['--edition=2024'],
    'controls': 'auto',
    'crate_attrs': ['#![feature(panic_internals)]'],
    'vacuity_floor': 3,
    'items': [
        ('@raw', 'pub mod ps {\n' + MOD_HEAD),
        ('yash-env/src/system/errno.rs', ['struct Errno']),
        ('yash-env/src/io.rs', ['struct Fd']),
        ('yash-env/src/io.rs', ['impl Fd']),
        (PL, ['struct PipeSet'], {'pub_fields': True, 'vis': 'pub'}),
        ('@file', 'prelude.rs'),
        (PL, ['impl PipeSet', 'fn shift'], {'ret': 'r', 'rewrites': ['let-chain-nest?'],
            'requires': ['exists|base: Map<Fd, int>| psinv(*old(self), old(env).system.table(), base)'],
            'ensures': [
                # whatever happens, nothing that was open before the pipeline is touched, and (if closing works) the parent holds
                # exactly the descriptors the pipe set still knows: no descriptor is left behind
                'forall|base: Map<Fd, int>| psinv(*old(self), old(env).system.table(), base) && no_close_failure(old(env).system) ==> psinv(*final(self), final(env).system.table(), base)',
                # the reading end of the pipe just used becomes the input of the next command; a new pipe exists iff there is a next command
                'final(self).read_previous == (match old(self).next { Some((reader, writer)) => Some(reader), None => None::<Fd> })',
                'r is Ok ==> (final(self).next is Some <==> has_next)',
                'r is Err ==> final(self).next is None',
                # after the last command: nothing is held any more once the set has been shifted past its end
                '!has_next && old(self).next is None ==> final(self).held() =~= Set::<Fd>::empty()',
            ]}),
        (PL, ['impl PipeSet', 'fn move_to_stdin_stdout'], {'ret': 'r',
            'rewrites': ['let-chain-first', 'mut-self-to-local'],
            'requires': ['self.distinct()', 'self.held().subset_of(old(env).system.table().dom())'],
            'ensures': [
                # in the child: the command reads from the previous pipe and writes to the next one ...
                'r is Ok && self.read_previous is Some ==> final(env).system.table().contains_key(Fd::STDIN) && final(env).system.table()[Fd::STDIN] == old(env).system.table()[self.read_previous->0]',
                'r is Ok && self.next is Some ==> final(env).system.table().contains_key(Fd::STDOUT) && final(env).system.table()[Fd::STDOUT] == old(env).system.table()[(self.next->0).1]',
                # ... keeps no other descriptor of the pipes ...
                'r is Ok ==> forall|fd: Fd| #[trigger] self.held().contains(fd) && !(fd == Fd::STDIN && self.read_previous is Some) && !(fd == Fd::STDOUT && self.next is Some) ==> !final(env).system.table().contains_key(fd)',
                # ... and everything else is as it was
                'r is Ok ==> forall|fd: Fd| !self.held().contains(fd) && !(fd == Fd::STDIN && self.read_previous is Some) && !(fd == Fd::STDOUT && self.next is Some) ==> (#[trigger] final(env).system.table().contains_key(fd) <==> old(env).system.table().contains_key(fd)) && (old(env).system.table().contains_key(fd) ==> final(env).system.table()[fd] == old(env).system.table()[fd])',
            ]}),
        ('@raw', '}\n'),
    ],
}
