# Unit forkstate: where the parent's and the child's environment part (kernel of C08).
FK = 'yash-env/src/fork.rs'
LIB = 'yash-env/src/lib.rs'
FIELDS = ['aliases', 'arg0', 'builtins', 'exit_status', 'functions', 'jobs', 'main_pgid', 'main_pid', 'options', 'stack', 'traps', 'tty', 'variables', 'any']
MOD_HEAD = '''    use vstd::prelude::*;
'''
def all_eq(a, b):
    return ' && '.join('%s.%s == %s.%s' % (a, f, b, f) for f in FIELDS)
BMAP = ("HashMap < & 'static str , Builtin < S > >", 'BuiltinMap<S>')
UNIT = {
    'name': 'forkstate',
    'property': 'C08',
    'rlimit': 60,
    'verus_args': ['--edition=2024'],
    'vacuity_floor': 2,
    # (functions that are not callees of one another: a callee with `false` in its contract would make its caller verify)
    'controls': {FK + '::<S> Clone for ForkEnvState<S>::clone': {'ensures': {'append': 'false'}}, LIB + '::<S> Env<S>#1::run_in_child_process': {'ensures': {'append': 'false'}}},
    'control_expect': ['::clone', 'run_in_child_process'],
    'items': [
        ('@raw', 'pub mod fs {\n' + MOD_HEAD),
        ('@file', 'prelude.rs'),
        (LIB, ['struct Env'], {'drop_derives': 'all'}),
        (FK, ['struct ForkEnvState'], {'drop_derives': 'all', 'pub_fields': True}),
        (FK, ['impl<S> ForkEnvState<S>', 'fn extract_from_env'], {'ret': 'r', 'ensures': [
            # the whole state is taken out: every field, as it was
            all_eq('r', 'old(env)'), 'final(env).system == old(env).system']}),
        (FK, ['impl<S> ForkEnvState<S>', 'fn restore_into_env'], {'ensures': [
            # the whole state is put back: every field
            all_eq('final(env)', 'self'), 'final(env).system == old(env).system']}),
        (FK, ['impl<S> ForkEnvState<S>', 'fn into_env_with_system'], {'ret': 'r', 'ensures': [
            # the child's environment: the fields of the state on top of the child's system
            all_eq('r', 'self'), 'r.system == system']}),
        (FK, ['impl<S> Clone for ForkEnvState<S>', 'fn clone'], {'ret': 'r',
            'token_rewrites': [('self . arg0 . clone ( )', 'verif_clone_string(&self.arg0)'), ('self . builtins . clone ( )', 'verif_clone_builtins(&self.builtins)')],
            'ensures': [all_eq('r', 'self')]}),
        ('@raw', """/// the call of the child task (generic and async in the code): it must be given an environment made of exactly the fields of the state
#[verifier::external_body]
pub fn verif_call_task<S, D, F: ChildTask<S, D>>(child_task: F, env: Env<S>, data: D, Ghost(state): Ghost<ForkEnvState<S>>)
    requires """ + all_eq('env', 'state') + """
{ unimplemented!() }
"""),
        (LIB, ['impl<S> Env<S>#1', 'fn run_in_child_process'], {'ret': 'r',
            'sig_token_rewrites': [("S : Fork + 'static ,", ''), ("D : Clone + 'static ,", ''), ("F : AsyncFnOnce ( Self , D ) + 'static ,", 'F: ChildTask<S, D>,')],
            'token_rewrites': [
                # rule closure-to-nested-fn: the closure handed to Fork::run_in_child_process
                ('let ( pid_or_error , ( state , shared_data ) ) = self . system . run_in_child_process ( ( state , shared_data ) , | child_system , ( state , shared_data ) : ( ForkEnvState < S > , D ) | async move {',
                 'let (pid_or_error, (state, shared_data)) = verif_fork(&self.system, (state, shared_data)); fn verif_child<S, D, F: ChildTask<S, D>>(child_system: S, state: ForkEnvState<S>, shared_data: D, child_task: F) { let ghost verif_state0 = state;'),
                ('child_task ( child_env , shared_data ) . await } , ) ;', 'verif_call_task(child_task, child_env, shared_data, Ghost(verif_state0)) }'),
            ],
            'ensures': [
                # "the parent's state after the construct is exactly as before": every field of the environment, and the system
                # only through the fork itself
                all_eq('final(self)', 'old(self)'), 'final(self).system == old(self).system', 'r.1 == shared_data',
            ]}),
        # Env::clone_with_system: the copy of the environment a simulated child (or any caller) gets consists of clones of all the
        # fields, on top of the system it is given
        (LIB, ['impl<S> Env<S>#0', 'fn clone_with_system'], {'ret': 'r',
            'token_rewrites': [('self . arg0 . clone ( )', 'verif_clone_string(&self.arg0)'), ('self . builtins . clone ( )', 'verif_clone_builtins(&self.builtins)')],
            'ensures': [all_eq('r', 'self'), 'r.system == system']}),
        ('@raw', '}\n'),
    ],
}
