# Unit dquote: double quotes around an expansion (kernel of property C01).
WD = 'yash-semantics/src/expansion/initial/word.rs'
PHRASE = 'yash-semantics/src/expansion/phrase.rs'
ATTR = 'yash-env/src/semantics/expansion/attr.rs'
MOD_HEAD = '''    use vstd::prelude::*;
'''
UNIT = {
    'name': 'dquote',
    'property': 'C01',
    'rlimit': 60,
    'verus_args': ['--edition=2024'],
    'crate_attrs': ['#![feature(allocator_api)]'],
    'vacuity_floor': 2,
    'items': [
        ('@raw', 'pub mod dqax {\n' + MOD_HEAD + '''
    /// ASSUMED (physical bound): a vector holds fewer than usize::MAX - 2 elements (a Vec never exceeds isize::MAX BYTES)
    pub broadcast axiom fn axiom_vec_len_small<T>(v: Vec<T>)
        ensures #[trigger] v@.len() + 2 <= usize::MAX;
}
'''),
        ('@raw', 'pub mod dqm {\n' + MOD_HEAD),
        ('@broadcast', ['super::dqax::axiom_vec_len_small']),
        (ATTR, ['enum Origin']),
        (ATTR, ['struct AttrChar']),
        (PHRASE, ['enum Phrase'], {'drop_derives': True}),
        ('@file', 'prelude.rs'),
        ('@raw', 'pub mod word {\n    use super::*;\n'),
        (WD, ['fn double_quote'], {
            'token_rewrites': [
                # `fields.iter_mut().for_each(quote_field)` = quote_field on every field, in order
                ('fields . iter_mut ( ) . for_each ( quote_field )',
                 '{ let mut verif_i: usize = 0; let ghost verif_f0 = fields@;\n'
                 '            while verif_i < fields.len()\n'
                 '                invariant verif_i <= fields@.len(), fields@.len() == verif_f0.len(),\n'
                 '                    forall|j: int| 0 <= j < verif_i ==> (#[trigger] fields@[j])@ =~= quoted_field(verif_f0[j]@),\n'
                 '                    forall|j: int| verif_i <= j < fields@.len() ==> #[trigger] fields@[j] == verif_f0[j],\n'
                 '                decreases fields@.len() - verif_i,\n'
                 '            { quote_field(&mut fields[verif_i]); verif_i += 1; } }'),
            ],
            'nested': {
                'quote_field': {
                    'token_rewrites': [('for c in chars . iter_mut ( ) {',
                        'let ghost verif_c0 = chars@; let mut verif_k: usize = 0;\n'
                        '        while verif_k < chars.len()\n'
                        '            invariant verif_k <= chars@.len(), chars@.len() == verif_c0.len(),\n'
                        '                forall|j: int| 0 <= j < verif_k ==> #[trigger] chars@[j] == (AttrChar { is_quoted: true, ..verif_c0[j] }),\n'
                        '                forall|j: int| verif_k <= j < chars@.len() ==> #[trigger] chars@[j] == verif_c0[j],\n'
                        '            decreases chars@.len() - verif_k,\n'
                        '        {\n'
                        '            let c = &mut chars[verif_k]; verif_k += 1;')],
                    'ensures': ['final(chars)@ =~= quoted_field(old(chars)@)']},
            },
            'ensures': [
                # as many fields as before ("$@" keeps one field per positional parameter), each between quoting `"` with all
                # its characters marked quoted and otherwise unchanged
                'view(*final(phrase)) =~~= quoted_fields(view(*old(phrase)))',
            ]}),
        (WD, ["impl<S: Runtime + 'static> Expand<S> for WordUnit", 'fn expand'], {'ret': 'r', 'rewrites': ['strip-async'],
            'token_rewrites': [('env . inner ) . into ( )', 'env.inner).into()', '*')],
            'ensures': [
                # whatever the word unit is and however its expansion ends, the context (splitting or not) is afterwards what
                # it was before
                'final(env).will_split == old(env).will_split',
                # the text inside double quotes is expanded in a NON-splitting context - exactly that text, once
                '*self matches WordUnit::DoubleQuote(text) ==> final(env).verif_log@ == old(env).verif_log@.push((text.verif_id, false))',
                '!(*self is DoubleQuote) ==> final(env).verif_log@ == old(env).verif_log@',
            ]}),
        ('@raw', '}\n'),
        ('@raw', '}\n'),
    ],
}
