# Unit waitloop: the loop of the wait built-in (kernel of C13).
WS = 'yash-builtin/src/wait/status.rs'
MOD_HEAD = '''    use vstd::prelude::*;
'''
L0 = 'old(env).jobs.log@'
L1 = 'final(env).jobs.log@'
UNIT = {
    'name': 'waitloop',
    'property': 'C13',
    'rlimit': 60,
    'verus_args': ['--edition=2024'],
    'vacuity_floor': 1,
    'controls': {WS + '::wait_while_running': {'ensures': {'append': 'false'}}},
    'control_expect': ['wait_while_running'],
    'items': [
        ('@raw', 'pub mod wl {\n' + MOD_HEAD),
        ('@file', 'prelude.rs'),
        (WS, ['fn wait_while_running'], {'ret': 'r', 'rewrites': ['strip-async'],
            'attrs': ['#[verifier::exec_allows_no_decreases_clause]'],
            'sig_token_rewrites': [('wait_while_running < S >', 'wait_while_running<S, T: JobTest>'), ('job_status : & mut dyn FnMut ( & mut JobList ) -> ControlFlow < ExitStatus > ,', 'job_status: &mut T,'), ("S : SignalSystem + Wait + WaitForSignals + 'static ,", '')],
            'token_rewrites': [('job_status ( & mut env . jobs )', 'job_status.call(&mut env.jobs)')],
            'ensures': [
                L1 + '.len() > ' + L0 + '.len() && (forall|k: int| 0 <= k < ' + L0 + '.len() ==> #[trigger] ' + L1 + '[k] == ' + L0 + '[k])',
                # the table is looked at first, then waiting and looking alternate
                'alternating(' + L1 + ', ' + L0 + '.len() as int)',
                # the answer is what the first conclusive look gave - the last event; an interrupted wait ends the loop with its error
                'r matches Ok(s) ==> ' + L1 + '.last() == (Ev::Looked { answer: Some(s) })',
                'r is Err ==> ' + L1 + '.last() == (Ev::Waited { ok: false })',
            ],
            'loops': {0: {'invariant': [
                'env.jobs.log@.len() >= ' + L0 + '.len()', '(env.jobs.log@.len() - ' + L0 + '.len()) % 2 == 0',
                'forall|k: int| 0 <= k < ' + L0 + '.len() ==> #[trigger] env.jobs.log@[k] == ' + L0 + '[k]',
                'forall|k: int| ' + L0 + '.len() <= k < env.jobs.log@.len() ==> (if (k - ' + L0 + '.len()) % 2 == 0 { (#[trigger] env.jobs.log@[k]) == (Ev::Looked { answer: None }) } else { env.jobs.log@[k] == (Ev::Waited { ok: true }) })',
            ]}}}),
        ('@raw', '}\n'),
    ],
}
