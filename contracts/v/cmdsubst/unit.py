# Unit cmdsubst: command substitution (kernel shared by C14, C13 and C08).
CS = 'yash-semantics/src/expansion/initial/command_subst.rs'
SEM = 'yash-env/src/semantics.rs'
JOB = 'yash-env/src/job.rs'
MOD_HEAD = '''    use vstd::prelude::*;
    use std::ops::ControlFlow::{self, Break, Continue};
    use std::ffi::c_int;
'''
T0 = 'old(env).system.table()'
T1 = 'final(env).system.table()'
I0 = 'old(env).inner.system'
I1 = 'final(env).inner.system'
UNIT = {
    'name': 'cmdsubst',
    'property': 'C14',
    'rlimit': 80,
    'controls': 'auto',
    'verus_args': ['--edition=2024'],
    'vacuity_floor': 2,
    'items': [
        ('@raw', 'pub mod cs {\n' + MOD_HEAD),
        ('yash-env/src/system/errno.rs', ['struct Errno']),
        ('yash-env/src/io.rs', ['struct Fd']),
        ('yash-env/src/io.rs', ['impl Fd']),
        (SEM, ['struct ExitStatus']),
        (SEM, ['enum Divert']),
        (JOB, ['enum ProcessResult'], {}),
        (JOB, ['impl ProcessResult', 'fn is_stopped'], {'ret': 'r', 'ensures': ['r == (*self is Stopped)']}),
        ('@file', 'prelude.rs'),
        (CS, ['fn subshell_body'], {'ret': 'r', 'rewrites': ['strip-async'],
            'token_rewrites': [
                ('Lexer :: from_memory ( command . as_ref ( ) , Source :: CommandSubst { original } )', 'verif_lexer(&command, original)'),
                ('read_eval_loop ( & RefCell :: new ( env ) , & mut lexer )', 'read_eval_loop(env, &mut lexer)'),
            ],
            'requires': ['fresh_pipe(' + T0 + ', reader, writer)'],
            'ensures': [
                # the command text runs at most once; when it runs, the child's standard output IS the writing end of the pipe
                # and the child holds no other descriptor of the pipe (neither end), nothing else changed
                'final(env).mon@.repl_tables.len() <= old(env).mon@.repl_tables.len() + 1',
                'final(env).mon@.repl_tables.len() == old(env).mon@.repl_tables.len() + 1 ==> ({ let t = final(env).mon@.repl_tables.last(); '
                't.contains_key(Fd::STDOUT) && t[Fd::STDOUT] == ' + T0 + '[writer] && no_ref(t, ' + T0 + '[reader]) && '
                '(forall|fd: Fd| t.contains_key(fd) && fd != Fd::STDOUT ==> #[trigger] t[fd] != ' + T0 + '[writer]) && '
                '(forall|fd: Fd| fd != Fd::STDOUT && fd != reader && fd != writer ==> (t.contains_key(fd) == ' + T0 + '.contains_key(fd) && (t.contains_key(fd) ==> #[trigger] t[fd] == ' + T0 + '[fd]))) })',
                # it does not run only if standard output could not be connected, which is reported once
                'final(env).mon@.repl_tables.len() == old(env).mon@.repl_tables.len() ==> final(env).mon@.handled == old(env).mon@.handled + 1',
                'final(env).mon@.repl_tables.len() == old(env).mon@.repl_tables.len() + 1 ==> final(env).mon@.handled == old(env).mon@.handled',
            ]}),
        (CS, ['fn expand_common'], {'ret': 'r', 'rewrites': ['strip-async', 'let-chain-nest'],
            'attrs': ['#[verifier::loop_isolation(false)]', '#[verifier::allow_complex_invariants]', '#[verifier::exec_allows_no_decreases_clause]'],
            'entry_ghost': 'let ghost verif_e0 = *env.inner;',
            'token_rewrites': [
                ('debug_assert_eq ! ( job_control , None ) ;', 'assert(job_control is None);'),
                # rule loop-break-value
                ('let process_result = loop', 'let verif_lv: ProcessResult; loop'),
                ('Ok ( ( _pid , result ) ) => break result ,', 'Ok((_pid, result)) => { verif_lv = result; break; }'),
                ('} } ; let exit_status = ExitStatus :: from ( process_result ) ;', '} } let process_result = verif_lv; let exit_status = ExitStatus::from(process_result);'),
                ("let mut result = String :: from_utf8 ( result ) . unwrap_or_else ( | e | String :: from_utf8_lossy ( & e . into_bytes ( ) ) . into ( ) ) ; let len = result . trim_end_matches ( '\\n' ) . len ( ) ; result . truncate ( len ) ; let chars = result . chars ( ) . map ( | value | AttrChar { value , origin : Origin :: SoftExpansion , is_quoted : false , is_quoting : false , } ) . collect ( ) ; Ok ( Phrase :: Field ( chars ) )",
                 'Ok(verif_output_to_phrase(result))'),
            ],
            'requires': ['fresh_pipe(' + I0 + '.table(), reader, writer)', 'subshell_result matches Ok((pid, jc)) ==> jc is None'],
            'ensures': [
                # C08 / C09: whatever happens, afterwards the parent holds neither end of the pipe and nothing else changed
                I1 + '.table() =~= ' + I0 + '.table().remove(reader).remove(writer)',
                # the child could not be started: nothing is read, nobody is awaited
                'subshell_result is Err ==> r is Err && ' + I1 + '.reads() == ' + I0 + '.reads() && final(env).inner.mon@.halts == old(env).inner.mon@.halts',
                # C14: otherwise the output is read exactly once, from the reading end, at a moment when this process holds no
                # descriptor of the writing end any more (so that end-of-file can come)
                'subshell_result is Ok ==> ' + I1 + '.reads().len() == ' + I0 + '.reads().len() + 1 && ' + I1 + '.reads().subrange(0, ' + I0 + '.reads().len() as int) == ' + I0 + '.reads() && '
                '({ let rd = ' + I1 + '.reads().last(); rd.0 == reader && rd.1.contains_key(reader) && rd.1[reader] == ' + I0 + '.table()[reader] && no_ref(rd.1, ' + I0 + '.table()[writer]) })',
                # C13: the child is awaited (after the output was read) until a halt that is not a mere stop; every halt awaited is
                # one of that child; the status recorded for the substitution is the status that last halt stands for
                'subshell_result matches Ok((pid, jc)) ==> (forall|i: int| old(env).inner.mon@.halts.len() <= i < final(env).inner.mon@.halts.len() ==> (#[trigger] final(env).inner.mon@.halts[i]).0 == pid)',
                '(subshell_result is Ok && final(env).inner.mon@.halts.len() > old(env).inner.mon@.halts.len() && !(final(env).inner.mon@.halts.last().1 is Stopped)) ==> final(env).last_command_subst_exit_status == Some(exit_status_of(final(env).inner.mon@.halts.last().1))',
                '(subshell_result is Ok && r is Ok) ==> final(env).inner.mon@.halts.len() > old(env).inner.mon@.halts.len() && !(final(env).inner.mon@.halts.last().1 is Stopped)',
                'forall|i: int| old(env).inner.mon@.halts.len() <= i < final(env).inner.mon@.halts.len() - 1 ==> (#[trigger] final(env).inner.mon@.halts[i]).1 is Stopped',
            ],
            'loops': {0: {
                'invariant': [
                    'env.inner.system.table() =~= verif_e0.system.table().remove(reader).remove(writer)',
                    'env.inner.system.reads().len() == verif_e0.system.reads().len() + 1', 'env.inner.system.reads().subrange(0, verif_e0.system.reads().len() as int) == verif_e0.system.reads()',
                    '({ let rd = env.inner.system.reads().last(); rd.0 == reader && rd.1.contains_key(reader) && rd.1[reader] == verif_e0.system.table()[reader] && no_ref(rd.1, verif_e0.system.table()[writer]) })',
                    'env.inner.mon@.halts.len() >= verif_e0.mon@.halts.len()',
                    'forall|i: int| verif_e0.mon@.halts.len() <= i < env.inner.mon@.halts.len() ==> (#[trigger] env.inner.mon@.halts[i]).0 == pid',
                    'env.last_command_subst_exit_status == old(env).last_command_subst_exit_status',
                ],
                'invariant_except_break': [
                    'forall|i: int| verif_e0.mon@.halts.len() <= i < env.inner.mon@.halts.len() ==> (#[trigger] env.inner.mon@.halts[i]).1 is Stopped',
                ],
                'ensures': [
                    'env.inner.mon@.halts.len() > verif_e0.mon@.halts.len()', 'verif_lv == env.inner.mon@.halts.last().1', '!(verif_lv is Stopped)',
                    'forall|i: int| verif_e0.mon@.halts.len() <= i < env.inner.mon@.halts.len() - 1 ==> (#[trigger] env.inner.mon@.halts[i]).1 is Stopped',
                ]}}}),
        ('@raw', '}\n'),
    ],
}
