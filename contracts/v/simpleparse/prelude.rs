// ---------------------------------------------------------------------------
// Prelude of unit simpleparse (properties C17 / C02, kernel): yash-syntax/src/parser/simple_command.rs Parser::simple_command - the
// loop that collects redirections, assignments and words of a simple command and decides which token is offered to alias
// substitution in command position.
// C17 "only an unquoted literal word in command position ... is replaced": every token the loop takes is offered to alias
// substitution with the command-position flag set exactly while NO WORD of the command has been collected yet (assignments and
// redirections in front of the command name do not end command position); the parser reports `AliasSubstituted` to its caller
// - which makes the caller start over - only when nothing at all had been consumed for this command; otherwise it goes on itself.
// A reserved word in first position ends the command without being taken.
//
// Hand-written model text (ASSUMED): the struct Parser (a ghost monitor only), redirection(), peek_token(), take_token_manual()
// (unit tokentake has the real one), mode(), word_names_declaration_utility(), has_blank(), array_values(), location(),
// Assign::try_from, is_portable_name, ends_with_colon, determine_expansion_mode are opaque calls; `panic!` on a non-scalar value
// of a fresh assignment and `(!result.is_empty()).then(|| result.into())` are helpers.
// ---------------------------------------------------------------------------
use std::ops::Range;
pub struct Location { pub range: Range<usize>, pub verif_opaque: u8 }
pub struct WordUnit { pub verif_opaque: u8 }
pub struct Word { pub units: Vec<WordUnit>, pub location: Location }
pub enum Value { Scalar(Word), Array(Vec<Word>) }
pub use Value::{Array, Scalar};
pub struct Assign { pub name: String, pub value: Value, pub location: Location }
impl TryFrom<Word> for Assign {
    type Error = Word;
    #[verifier::external_body]
    fn try_from(word: Word) -> (r: std::result::Result<Assign, Word>) { unimplemented!() }
}
pub struct Redir { pub verif_opaque: u8 }
#[derive(Clone, Copy)] pub enum ExpansionMode { Single, Multiple }
pub struct SimpleCommand { pub assigns: Vec<Assign>, pub words: Vec<(Word, ExpansionMode)>, pub redirs: Vec<Redir> }
pub enum SyntaxError { ColonSuffixedCommandName, NonPortableAssignmentName, ArrayAssignment, Other(u8) }
pub enum ErrorCause { Syntax(SyntaxError), Io(u8) }
impl From<SyntaxError> for ErrorCause { fn from(e: SyntaxError) -> (r: ErrorCause) { ErrorCause::Syntax(e) } }
impl vstd::std_specs::convert::FromSpecImpl<SyntaxError> for ErrorCause {
    open spec fn obeys_from_spec() -> bool { true }
    open spec fn from_spec(e: SyntaxError) -> ErrorCause { ErrorCause::Syntax(e) }
}
pub struct Error { pub cause: ErrorCause, pub location: Location }
pub type Result<T> = std::result::Result<T, Error>;
pub struct Mode { pub portable: bool }
/// what the parser did for this command so far: redirections parsed, tokens offered to alias substitution (flag, replaced)
pub struct Mon { pub redirs: nat, pub offers: Seq<(bool, bool)> }
pub struct Parser<'a, 'b> { pub mon: Ghost<Mon>, pub verif_pd: core::marker::PhantomData<(&'a u8, &'b u8)> }
impl<'a, 'b> Parser<'a, 'b> {
    #[verifier::external_body]
    pub fn redirection(&mut self) -> (r: Result<Option<Redir>>)
        ensures final(self).mon@.offers == old(self).mon@.offers, final(self).mon@.redirs == old(self).mon@.redirs + (if r matches Ok(Some(_)) { 1nat } else { 0nat }) { unimplemented!() }
    #[verifier::external_body]
    pub fn peek_token(&mut self) -> (r: Result<&lex::Token>) ensures final(self).mon@ == old(self).mon@ { unimplemented!() }
    /// parser/core.rs take_token_manual (unit tokentake): the token is offered once with this flag
    #[verifier::external_body]
    pub fn take_token_manual(&mut self, is_command_name: bool) -> (r: Result<Rec<lex::Token>>)
        ensures final(self).mon@.redirs == old(self).mon@.redirs,
            r matches Ok(rec) ==> final(self).mon@.offers == old(self).mon@.offers.push((is_command_name, rec is AliasSubstituted)),
            r is Err ==> final(self).mon@.offers == old(self).mon@.offers
    { unimplemented!() }
    #[verifier::external_body]
    pub fn mode(&self) -> Mode { unimplemented!() }
    #[verifier::external_body]
    pub fn word_names_declaration_utility(&self, word: &Word) -> Option<bool> { unimplemented!() }
    #[verifier::external_body]
    pub fn has_blank(&mut self) -> (r: Result<bool>) ensures final(self).mon@ == old(self).mon@ { unimplemented!() }
    #[verifier::external_body]
    pub fn array_values(&mut self) -> (r: Result<Option<Vec<Word>>>) ensures final(self).mon@ == old(self).mon@ { unimplemented!() }
    #[verifier::external_body]
    pub fn location(&mut self) -> (r: Result<&Location>) ensures final(self).mon@ == old(self).mon@ { unimplemented!() }
}
#[verifier::external_body] pub fn is_portable_name(name: &str) -> bool { unimplemented!() }
#[verifier::external_body] pub fn ends_with_colon(word: &Word) -> bool { unimplemented!() }
#[verifier::external_body] pub fn determine_expansion_mode(word: Word) -> (Word, ExpansionMode) { unimplemented!() }
/// `match &assign.value { Scalar(Word { units, .. }) => units, _ => panic!(..) }`: Assign::try_from only makes scalar values
#[verifier::external_body] pub fn verif_scalar_units(value: &Value) -> &Vec<WordUnit> { unimplemented!() }
