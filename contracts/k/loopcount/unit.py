UNIT = {
    'name': 'loopcount',
    'property': 'C02',
    'crate': 'yash-env',
    'cfg': [],
    'inject': [('yash-env/src/stack.rs', 'harness.rs')],
    'anchors': [
        ('yash-env/src/stack.rs', r'pub fn loop_count\(&self, max_count: usize\) -> usize'),
    ],
    'functions': [
        {'file': 'yash-env/src/stack.rs', 'item': 'Stack::loop_count (stacks of <= 3 frames quick, 4 thorough; max_count symbolic)'},
    ],
    'harnesses': {'quick': ['c02q_', 'c02x_'], 'thorough': ['c02t_']},
    'min_harnesses': {'quick': 3, 'thorough': 4},
    'control_re': r'^c02x_',
    'complete_re': r'$^',
    'bound': 'runtime stacks of at most 3 (quick) / 4 (thorough) frames drawn from {Loop, Subshell, Condition, DotScript, InitFile, Trap(Exit)}; max_count any usize',
    'jobs': {'quick': 6, 'thorough': 6},
    'harness_timeout': '600s',
    'timeout_s': {'quick': 1200, 'thorough': 1800},
    'assumptions': ['Frame::Builtin frames (which carry a Field with a source location) are not among the generated frames; they retain the context like Condition frames do'],
}
